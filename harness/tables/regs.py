"""Opcode tables and register-level enums of ethos_u55_regs.py, regenerated from the live module."""
from ._lean import HEADER, lean_list, lit


def emit(repo):
    from ethosu.vela.ethos_u55_regs import ethos_u55_regs as regs
    from ethosu.vela import register_command_stream_generator as g

    def enum_table(e):
        return lean_list([lit((m.name, int(m.value))) for m in e], per_line=3)

    names = ["cmd0", "cmd1", "pooling_mode", "elementwise_mode", "activation", "acc_format", "resampling_mode",
             "rounding", "data_format", "ifm_precision", "ofm_precision", "cmd_ctrl"]
    parts = []
    for n in names:
        e = getattr(regs, n, None)
        if e is None:
            continue
        camel = "".join(p.capitalize() for p in n.split("_"))
        parts.append(f"def tbl{camel} : List (String × Nat) := {enum_table(e)}\n")
    cm = g.CmdMode
    text = HEADER + "\nnamespace VelaVerif.Gen.Regs\n\n" + "\n".join(parts) + f"""
def cmdModePayload32 : Nat := {int(cm.Payload32)}
def cmdModeMask : Nat := {int(cm.Mask)}
def cmdOpMask : Nat := {int(cm.CmdOpMask)}
def basePtrIndexMem2Mem : Nat := {int(__import__('ethosu.vela.register_command_stream_util', fromlist=['x']).BASE_PTR_INDEX_MEM2MEM)}

end VelaVerif.Gen.Regs
"""
    return {"Regs.lean": text}
