"""Source translation of ethosu/vela/fp_math.py -> lean/VelaVerif/Gen/SrcFpMath.lean (property C19)."""
from ._src import emit_for


def emit(repo):
    return emit_for(repo, "fp_math")
