"""Constants of register_command_stream_generator.py that the emitter model (Model/Emit.lean) reads:
which register machine each command uses (asked of the live `CommandStreamEmitter.get_reg_machine`),
the api-enum -> register-value maps, CmdMode, and the NHCWB16 address alignment quantum."""
from ._lean import HEADER, lean_list, lit


def emit(repo):
    from ethosu.vela import api
    from ethosu.vela import register_command_stream_generator as g
    from ethosu.vela import register_command_stream_util as u
    from ethosu.vela.architecture_features import Accelerator, create_default_arch
    from ethosu.vela.ethos_u55_regs import ethos_u55_regs as regs
    from ethosu.vela.tensor import TensorFormat

    em = g.CommandStreamEmitter()
    dma0 = [c.name for c in regs.cmd0 if em.get_reg_machine(c) is em.reg_machine[1]]
    dma1 = [c.name for c in regs.cmd1 if em.get_reg_machine(c) is em.reg_machine[1]]
    other0 = [c.name for c in regs.cmd0 if em.get_reg_machine(c) is em.reg_machine[0]]
    other1 = [c.name for c in regs.cmd1 if em.get_reg_machine(c) is em.reg_machine[0]]
    assert len(dma0) + len(other0) == len(list(regs.cmd0)) and len(dma1) + len(other1) == len(list(regs.cmd1))
    n_banks = [int(m.n_banks) for m in em.reg_machine]

    def val(x):
        return int(x.value) if hasattr(x, "value") else int(x)

    def table(name, items, per_line=3):
        return f"def {name} : List (String × Nat) := {lean_list([lit(i) for i in items], per_line=per_line)}\n"

    parts = [
        f"def dmaMachineCmd0 : List String := {lit(dma0)}\n",
        f"def dmaMachineCmd1 : List String := {lit(dma1)}\n",
        f"def regMachineBanks : List Nat := {lit(n_banks)}\n",
        table("poolingOpMap", [(k.name, val(v)) for k, v in g.pooling_op_map.items()]),
        table("elementwiseOpMap", [(k.name, val(v)) for k, v in g.elementwise_op_map.items()]),
        table("activationOpMap", [(k.name, val(v)) for k, v in g.activation_op_map.items()]),
        table("resamplingModeMap", [(k.name, val(v)) for k, v in g.resampling_mode_map.items()]),
        table("roundingModeMap", [(k.name, val(v)) for k, v in g.rounding_mode_map.items()]),
        f"def precisionMap : List (Nat × Nat) := {lit(sorted((int(k), int(v)) for k, v in g.precision_map.items()))}\n",
        table("ifm2Broadcast", [(m.name, int(m.value)) for m in g.IFM2Broadcast]),
        f"def unaryElemwiseOps : List String := {lit([o.name for o in u.UNARY_ELEMWISE_OPS])}\n",
        # api enums in declaration order (the protocol sends ordinals)
        f"def apiPoolingOps : List String := {lit([o.name for o in api.NpuPoolingOp])}\n",
        f"def apiElementWiseOps : List String := {lit([o.name for o in api.NpuElementWiseOp])}\n",
        f"def apiActivationOps : List String := {lit([o.name for o in api.NpuActivationOp])}\n",
        f"def apiRoundingModes : List String := {lit([o.name for o in api.NpuRoundingMode])}\n",
        f"def apiResamplingModes : List String := {lit([o.name for o in api.NpuResamplingMode])}\n",
        "/-- (name, bits, signed) of `api.NpuDataType` -/\n"
        f"def apiDataTypes : List (String × Nat × Bool) := {lit([(d.name, int(d.size_in_bits()), bool(d.is_signed())) for d in api.NpuDataType])}\n",
        "/-- `arch.storage_rounding_quantums[TensorFormat.NHCWB16][-1]` per accelerator (address alignment of NHCWB16 feature maps) -/\n"
        f"def nhcwb16Quantum : List Nat := {lit([int(create_default_arch(a).storage_rounding_quantums[TensorFormat.NHCWB16][-1]) for a in Accelerator])}\n",
        f"def cmdModeNoPayload : Nat := {int(g.CmdMode.NoPayload)}\n",
        f"def wordSize : Nat := {int(g.CommandStreamEmitter.WORD_SIZE)}\n",
    ]
    text = HEADER + "\nnamespace VelaVerif.Gen.EmitTbl\n\n" + "\n".join(parts) + "\nend VelaVerif.Gen.EmitTbl\n"
    return {"EmitTbl.lean": text}
