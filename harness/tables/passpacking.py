"""Flag tables of pass packing, read off the LIVE module `ethosu.vela.pass_packing` (and `operation.Op`).

* every `Op` member in definition order (the model's operator type = this index) with its NpuBlockType, `is_unary` and the
  (ifms, weights, biases) index triple `Operation.ifm / ifm2 / weights / bias` use;
* the operator-type sets (`mac_main_ops`, `elem_wise_main_ops`, `npu_post_ops`, `npu_post_fuse_limited_ops`, `elem_wise_ops`,
  `cpu_ops`, `startup_init_ops`, `memory_only_ops`, `memcpy_ops` ...) as sorted index lists;
* `PassFlags` members and values, `test_sequence` rows `(ops_set | none, incompatible_pack_flags, flags_to_set, flags_to_clear)`
  and, per row, the name of the module-level set the row's `ops_set` IS (object identity), so that the theorems can speak about
  "the row of npu_post_ops";
* the indices of the operator types the code names explicitly (Transpose, FullyConnected, VarHandle, ReadVariable, CallOnce,
  AvgPool) and the RELU-type operators (`Op.is_relu_op`).
`npu_pre_ops` does not exist in this version of the module (a pass has no pre-operations); the plug-in fails if it reappears,
because the model has no place for it."""
from ._lean import HEADER, lean_list, lit

SET_NAMES = ["mac_main_ops", "binary_elem_wise_main_ops", "unary_elem_wise_main_ops", "elem_wise_main_ops", "activation_ops",
             "npu_post_ops", "npu_post_fuse_limited_ops", "elem_wise_ops", "quantization_ops", "cpu_ops", "startup_init_ops",
             "memory_only_ops", "memcpy_ops"]


def _camel(s):
    parts = s.split("_")
    return parts[0] + "".join(p.capitalize() for p in parts[1:])


def probe_mix_rule():
    """Does the live `can_pack` keep a RELU-type operator and a TANH / SIGMOID operator out of one pass (proposed repair
    /verif_patches/C01-31)?  Probed by packing  Placeholder -> Sigmoid -> Relu6  and  Placeholder -> Relu -> Tanh  (real Operation /
    Tensor / Subgraph objects): two NPU passes each = the rule is there, one each = it is not; anything else: the probe no longer
    understands the function and the plug-in fails."""
    from ethosu.vela import pass_packing as pp
    from ethosu.vela.data_type import DataType
    from ethosu.vela.nn_graph import Graph, PassPlacement, Subgraph
    from ethosu.vela.operation import Op, Operation
    from ethosu.vela.shape4d import Shape4D
    from ethosu.vela.tensor import Tensor, TensorPurpose

    def npu_passes(first, second):
        def fm(name):
            t = Tensor([1, 4, 4, 8], DataType.int16, name)
            t.purpose = TensorPurpose.FeatureMap
            return t

        x, y, z = fm("x"), fm("y"), fm("z")
        ph = Operation(Op.Placeholder, "in")
        ph.run_on_npu = False
        ph.outputs.append(x)
        x.ops.append(ph)
        prev = x
        for kind, out in ((first, y), (second, z)):
            o = Operation(kind, kind.name)
            o.add_input_tensor(prev)
            o.outputs.append(out)
            out.ops.append(o)
            o.ifm_shapes.append(Shape4D([1, 4, 4, 8]))
            o.ofm_shapes.append(Shape4D([1, 4, 4, 8]))
            prev = out
        nng, sg = Graph(), Subgraph()
        nng.subgraphs.append(sg)
        sg.output_tensors = [z]
        nng.refresh_after_modification()
        pp.pack_into_passes(nng, None)
        return sum(1 for ps in sg.passes if ps.placement == PassPlacement.Npu)

    a, b = npu_passes(Op.Sigmoid, Op.Relu6), npu_passes(Op.Relu, Op.Tanh)
    if (a, b) == (1, 1):
        return False
    if (a, b) == (2, 2):
        return True
    raise ValueError(f"probe of the RELU / TANH-SIGMOID packing rule: {a} and {b} NPU passes")


def emit(repo):
    from ethosu.vela import pass_packing as pp
    from ethosu.vela.nn_graph import PassPlacement
    from ethosu.vela.operation import NpuBlockType, Op
    from ethosu.vela.tensor import TensorPurpose

    if hasattr(pp, "npu_pre_ops"):
        raise ValueError("pass_packing.npu_pre_ops exists: the model of pass packing has no pre-operations")
    ops = list(Op)
    idx = {op: i for i, op in enumerate(ops)}
    rows = []
    for op in ops:
        ind = op.info.indices
        tri = []
        for part in (ind.ifms, ind.weights, ind.biases):
            for v in part:
                if not (isinstance(v, int) and v >= 0):
                    raise ValueError(f"index table entry {v!r} of {op.name}")
            tri.append(lit([int(v) for v in part]))
        rows.append(f"({lit(op.name)}, {int(op.info.block_type.value)}, {lit(bool(op.info.is_unary))}, {tri[0]}, {tri[1]}, {tri[2]})")
    sets = {}
    for name in SET_NAMES:
        s = getattr(pp, name)
        if not isinstance(s, (set, frozenset)) or not all(isinstance(o, Op) for o in s):
            raise ValueError(f"pass_packing.{name} is not a set of Op")
        sets[name] = sorted(idx[o] for o in s)
    flags = [(f.name, int(f.value)) for f in pp.PassFlags if f.name is not None]
    for n, v in flags:
        if v != 0 and v & (v - 1):
            raise ValueError(f"PassFlags.{n} is not a single bit")
    seq, seq_names = [], []
    for row in pp.test_sequence:
        if len(row) != 4:
            raise ValueError("test_sequence row is not a 4-tuple")
        ops_set, incompat, to_set, to_clear = row
        nm = "none"
        if ops_set is not None:
            cands = [n for n in SET_NAMES if getattr(pp, n) is ops_set]
            # prefer the most specific name the source uses (npu_post_ops IS activation_ops)
            pref = [n for n in ("npu_post_ops", "npu_post_fuse_limited_ops", "mac_main_ops", "elem_wise_main_ops", "startup_init_ops",
                                "memory_only_ops", "memcpy_ops", "cpu_ops") if n in cands]
            if not pref:
                raise ValueError("test_sequence row uses a set that is not a module-level set of pass_packing")
            nm = pref[0]
        seq_names.append(nm)
        s = "none" if ops_set is None else "(some " + lit(sorted(idx[o] for o in ops_set)) + ")"
        seq.append(f"({s}, {int(incompat.value)}, {int(to_set.value)}, {int(to_clear.value)})")
    named = {"Transpose": Op.Transpose, "FullyConnected": Op.FullyConnected, "VarHandle": Op.VarHandle,
             "ReadVariable": Op.ReadVariable, "CallOnce": Op.CallOnce, "AvgPool": Op.AvgPool, "Const": Op.Const,
             "Memcpy": Op.Memcpy, "Sigmoid": Op.Sigmoid, "Tanh": Op.Tanh, "Quantize": Op.Quantize,
             "Relu": Op.Relu, "Relu6": Op.Relu6, "ReluN1To1": Op.ReluN1To1, "Conv2DBias": Op.Conv2DBias, "MaxPool": Op.MaxPool,
             "Placeholder": Op.Placeholder, "LUT": Op.LUT, "Add": Op.Add, "Reshape": Op.Reshape, "Softmax": Op.Softmax}
    defs = "\n".join(f"def {_camel(n)} : List Nat := {lit(v)}" for n, v in sets.items())
    flagdefs = "\n".join(f"def flag{n} : Nat := {v}" for n, v in flags)
    nameddefs = "\n".join(f"def op{n} : Nat := {idx[o]}" for n, o in named.items())
    text = HEADER + f"""
namespace VelaVerif.Gen.PassPacking

/-- every `operation.Op` member in definition order: (name, NpuBlockType value, is_unary, ifm indices, weight indices, bias indices).
    The model's operator type is the position in this list. -/
def opTable : List (String × Nat × Bool × List Nat × List Nat × List Nat) := {lean_list(rows)}

/-- NpuBlockType (name, value) -/
def blockTypes : List (String × Nat) := {lit([(b.name, int(b.value)) for b in NpuBlockType])}

/-- nn_graph.PassPlacement (name, value) -/
def placements : List (String × Nat) := {lit([(p.name, int(p.value)) for p in PassPlacement])}

/-- pass_packing.PassFlags (name, value) -/
def passFlags : List (String × Nat) := {lit(flags)}
{flagdefs}

/-! operator-type sets of pass_packing.py (sorted indices into `opTable`) -/
{defs}

/-- `Op.op_set(Op.is_relu_op)` (what `ActivationFunction.op_type.is_relu_op()` accepts) -/
def reluOps : List Nat := {lit(sorted(idx[o] for o in Op.op_set(Op.is_relu_op)))}

/-- pass_packing.test_sequence: (ops_set (`none` = the fall-back row), incompatible_pack_flags, flags_to_set, flags_to_clear) -/
def testSequence : List (Option (List Nat) × Nat × Nat × Nat) := {lean_list(seq)}

/-- per row of `test_sequence`: the module-level set its `ops_set` is (object identity in the live module) -/
def testSequenceSets : List String := {lit(seq_names)}

/-! operator types the code names explicitly -/
{nameddefs}

/-- rule switch probed on the live `pack_into_passes` (see `probe_mix_rule`): `can_pack` keeps RELU-type and TANH / SIGMOID
    operators out of one pass (proposed repair /verif_patches/C01-31) -/
def reluTanhSigmoidRule : Bool := {lit(probe_mix_rule())}

/-! tensor.TensorPurpose values the code compares with -/
def purposeFeatureMap : Nat := {int(TensorPurpose.FeatureMap.value)}
def purposeLUT : Nat := {int(TensorPurpose.LUT.value)}

end VelaVerif.Gen.PassPacking
"""
    return {"PassPacking.lean": text}
