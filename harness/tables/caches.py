"""Process-wide state of the compiler, read from the source of the tree under test (AST, no import: the
weight compressor needs the C extension, which the translator must not depend on).

scan(repo) -> dict used both by the Lean table (Gen/Caches.lean) and by harness/check_C14.py:
  wcc_fields / scc_fields   fields of the namedtuples that key the compressed-weight cache
  stores                    module-level / class-level containers created empty (i.e. filled at run time) and
                            functions under functools.lru_cache / cache, as "<module>.<qualified name>"
  prepare / cleanup         per entry point of vela.py, the reset calls it makes before / after handing over to
                            compiler_driver (main includes process()); driver_prepare: those inside compiler_driver()
  writer_tensor_collection  right-hand side of the assignment that creates tflite_writer's `tensor_set`
  greedy_set_uses           functions of greedy_allocation.py that build a set()
  convert_hardcoded, convert_bytes_hardcoded, main_defaults
                            the four options convert()/convert_bytes() fix, and main()'s defaults for them
  hash_sites                every call of the builtin hash(): (module, enclosing function)
  random_sites, seed_sites  users of the `random` module and the constant seeds they set
  writer_sorts              source text of every sorted(...) in tflite_writer.py
"""
import ast
import os

from ._lean import HEADER, lit

EMPTY_CALLS = {"dict", "list", "set", "defaultdict", "OrderedDict", "Counter", "deque"}
CLEAR_WORDS = ("clean_db", "clear_address_map", "cache_clear", "clear")


def _is_empty_container(node):
    if isinstance(node, (ast.Dict, ast.List, ast.Set)):
        return len(getattr(node, "keys", getattr(node, "elts", []))) == 0
    if isinstance(node, ast.Call):
        f = node.func
        name = f.id if isinstance(f, ast.Name) else (f.attr if isinstance(f, ast.Attribute) else None)
        if name in EMPTY_CALLS:
            # defaultdict(dict) is empty; dict(a=1) / set((..)) / list(x) are not
            return all(isinstance(a, (ast.Name, ast.Attribute, ast.Lambda)) for a in node.args) and name in ("defaultdict",) or \
                (not node.args and not node.keywords)
    return False


def _dotted(node):
    parts = []
    while isinstance(node, ast.Attribute):
        parts.append(node.attr)
        node = node.value
    if isinstance(node, ast.Name):
        parts.append(node.id)
    return ".".join(reversed(parts))


def _const(node):
    """value of a small constant expression (384 * 1024, 'ethos-u65-256', TensorAllocator.HillClimb -> 'HillClimb')"""
    if isinstance(node, ast.Attribute):
        return node.attr
    try:
        return eval(compile(ast.Expression(node), "<const>", "eval"), {"__builtins__": {}}, {})
    except Exception:
        return ast.unparse(node)


class _Enclosing(ast.NodeVisitor):
    """visit with the qualified name of the enclosing def/class available"""

    def __init__(self):
        self.stack = []

    def qual(self):
        return ".".join(self.stack) if self.stack else "<module>"

    def visit_FunctionDef(self, node):
        self.on_function(node)
        self.stack.append(node.name)
        self.generic_visit(node)
        self.stack.pop()

    visit_AsyncFunctionDef = visit_FunctionDef

    def visit_ClassDef(self, node):
        self.on_class(node)
        self.stack.append(node.name)
        self.generic_visit(node)
        self.stack.pop()

    def on_function(self, node):
        pass

    def on_class(self, node):
        pass


def scan(repo):
    vdir = os.path.join(repo, "ethosu", "vela")
    files = sorted(f for f in os.listdir(vdir) if f.endswith(".py") and not f.startswith("test_"))
    info = {"stores": [], "hash_sites": [], "random_sites": [], "seed_sites": [], "writer_sorts": [], "wcc_fields": [],
            "scc_fields": [], "cleanup": {}, "prepare": {}, "driver_prepare": [], "writer_tensor_collection": [],
            "greedy_set_uses": [], "convert_hardcoded": [], "convert_bytes_hardcoded": [], "main_defaults": []}
    trees = {}
    for fn in files:
        src = open(os.path.join(vdir, fn), encoding="utf-8").read()
        trees[fn[:-3]] = (ast.parse(src), src)

    for mod, (tree, src) in trees.items():
        # module-level empty containers
        for node in tree.body:
            tgt, val = None, None
            if isinstance(node, ast.Assign) and len(node.targets) == 1 and isinstance(node.targets[0], ast.Name):
                tgt, val = node.targets[0].id, node.value
            elif isinstance(node, ast.AnnAssign) and isinstance(node.target, ast.Name) and node.value is not None:
                tgt, val = node.target.id, node.value
            if tgt and _is_empty_container(val):
                info["stores"].append(f"{mod}.{tgt}")
            if isinstance(node, ast.Assign) and isinstance(node.value, ast.Call) and _dotted(node.value.func).endswith("namedtuple"):
                a = node.value.args
                if len(a) == 2 and isinstance(a[0], ast.Constant) and isinstance(a[1], (ast.List, ast.Tuple)):
                    fields = [e.value for e in a[1].elts if isinstance(e, ast.Constant)]
                    if a[0].value == "WeightCompressionConfig":
                        info["wcc_fields"] = fields
                    elif a[0].value == "ScaleCompressionConfig":
                        info["scc_fields"] = fields

        class V(_Enclosing):
            def on_class(s, node):
                for st in node.body:
                    tgt, val = None, None
                    if isinstance(st, ast.Assign) and len(st.targets) == 1 and isinstance(st.targets[0], ast.Name):
                        tgt, val = st.targets[0].id, st.value
                    elif isinstance(st, ast.AnnAssign) and isinstance(st.target, ast.Name) and st.value is not None:
                        tgt, val = st.target.id, st.value
                    if tgt and _is_empty_container(val):
                        info["stores"].append(".".join([mod] + s.stack + [node.name, tgt]))

            def on_function(s, node):
                for d in node.decorator_list:
                    name = _dotted(d.func if isinstance(d, ast.Call) else d)
                    if name.split(".")[-1] in ("lru_cache", "cache"):
                        info["stores"].append(".".join([mod] + s.stack + [node.name]))

            def visit_Call(s, node):
                name = _dotted(node.func)
                if name == "hash":
                    info["hash_sites"].append((mod, s.qual()))
                if name.startswith("random."):
                    if name == "random.seed":
                        info["seed_sites"].append((mod, s.qual(), str(_const(node.args[0])) if node.args else "none"))
                    elif (mod, s.qual()) not in info["random_sites"]:
                        info["random_sites"].append((mod, s.qual()))
                if mod == "tflite_writer" and name == "sorted":
                    info["writer_sorts"].append(" ".join(ast.get_source_segment(src, node).split()))
                if mod == "greedy_allocation" and name in ("set", "frozenset") and s.qual() not in info["greedy_set_uses"]:
                    info["greedy_set_uses"].append(s.qual())
                s.generic_visit(node)

            def visit_Assign(s, node):
                if mod == "tflite_writer" and len(node.targets) == 1 and isinstance(node.targets[0], ast.Name) and \
                        node.targets[0].id == "tensor_set":
                    info["writer_tensor_collection"].append(" ".join(ast.get_source_segment(src, node.value).split()))
                s.generic_visit(node)

            def visit_SetComp(s, node):
                if mod == "greedy_allocation" and s.qual() not in info["greedy_set_uses"]:
                    info["greedy_set_uses"].append(s.qual())
                s.generic_visit(node)

        V().visit(tree)

    # entry points of vela.py
    vtree, vsrc = trees["vela"]
    funcs = {n.name: n for n in vtree.body if isinstance(n, ast.FunctionDef)}

    def handover_line(fn):
        """line of the call that hands over to the compiler: compiler_driver.compiler_driver(...) or process(...)"""
        lines = [node.lineno for node in ast.walk(funcs[fn]) if isinstance(node, ast.Call) and
                 _dotted(node.func) in ("compiler_driver.compiler_driver", "process")]
        return min(lines) if lines else 10 ** 9

    def clears(fn, before):
        out = []
        ho = handover_line(fn)
        for node in ast.walk(funcs[fn]):
            if isinstance(node, ast.Call):
                name = _dotted(node.func)
                if name.split(".")[-1] in CLEAR_WORDS and "." in name and (node.lineno < ho) == before:
                    out.append(name)
        return sorted(set(out))

    for fn, incl in (("main", ["main", "process"]), ("convert", ["convert"]), ("convert_bytes", ["convert_bytes"])):
        info["prepare"][fn] = sorted(set(c for f in incl if f in funcs for c in clears(f, True)))
        info["cleanup"][fn] = sorted(set(c for f in incl if f in funcs for c in clears(f, False)))
    dtree, _dsrc = trees["compiler_driver"]
    for node in dtree.body:
        if isinstance(node, ast.FunctionDef) and node.name == "compiler_driver":
            for sub in ast.walk(node):
                if isinstance(sub, ast.Call):
                    name = _dotted(sub.func)
                    if name.split(".")[-1] in CLEAR_WORDS and "." in name:
                        info["driver_prepare"].append(name)
    info["driver_prepare"] = sorted(set(info["driver_prepare"]))

    def hardcoded(fn):
        got = {}
        for node in ast.walk(funcs[fn]):
            if isinstance(node, ast.Call):
                for kw in node.keywords:
                    if kw.arg in ("accelerator_config", "arena_cache_size", "tensor_allocator", "optimization_strategy"):
                        got[kw.arg] = _const(kw.value)
        return sorted(got.items())

    if "convert" in funcs:
        info["convert_hardcoded"] = hardcoded("convert")
    if "convert_bytes" in funcs:
        info["convert_bytes_hardcoded"] = hardcoded("convert_bytes")
    names = {"--accelerator-config": "accelerator_config", "--arena-cache-size": "arena_cache_size",
             "--tensor-allocator": "tensor_allocator", "--optimise": "optimization_strategy"}
    md = {}
    for node in ast.walk(funcs["main"]):
        if isinstance(node, ast.Call) and isinstance(node.func, ast.Attribute) and node.func.attr == "add_argument" and node.args:
            a0 = node.args[0]
            if isinstance(a0, ast.Constant) and a0.value in names:
                for kw in node.keywords:
                    if kw.arg == "default":
                        md[names[a0.value]] = _const(kw.value)
    info["main_defaults"] = sorted(md.items())
    info["stores"] = sorted(set(info["stores"]))
    return info


def emit(repo):
    info = scan(repo)

    def pairs(l):
        return lit([(str(a), str(b)) for a, b in l])

    text = HEADER + f"""
namespace VelaVerif.Gen.Caches

/-- fields of `weight_compressor.WeightCompressionConfig` (the key of the compressed-weight cache) -/
def wccFields : List String := {lit(info["wcc_fields"])}

/-- fields of `weight_compressor.ScaleCompressionConfig` -/
def sccFields : List String := {lit(info["scc_fields"])}

/-- containers created empty at module or class level (filled at run time) and functions under `lru_cache`, in `ethosu/vela/*.py` -/
def processStores : List String := {lit(info["stores"])}

/-- reset calls made by each entry point of `vela.py` (`main` includes `process`) before it hands over to
`compiler_driver`, by `compiler_driver` itself, and by the entry point afterwards -/
def prepareMain : List String := {lit(info["prepare"]["main"])}
def prepareConvert : List String := {lit(info["prepare"]["convert"])}
def prepareConvertBytes : List String := {lit(info["prepare"]["convert_bytes"])}
def driverPrepare : List String := {lit(info["driver_prepare"])}
def cleanupMain : List String := {lit(info["cleanup"]["main"])}
def cleanupConvert : List String := {lit(info["cleanup"]["convert"])}
def cleanupConvertBytes : List String := {lit(info["cleanup"]["convert_bytes"])}

/-- the options `convert` / `convert_bytes` hard-code, and `main`'s defaults for the same options -/
def convertHardcoded : List (String × String) := {pairs(info["convert_hardcoded"])}
def convertBytesHardcoded : List (String × String) := {pairs(info["convert_bytes_hardcoded"])}
def mainDefaults : List (String × String) := {pairs(info["main_defaults"])}

/-- every call of the builtin `hash()` : (module, enclosing function) -/
def hashSites : List (String × String) := {pairs(info["hash_sites"])}

/-- users of the `random` module and the constant seeds set -/
def randomSites : List (String × String) := {pairs(info["random_sites"])}
def seedSites : List (String × String × String) := {lit([(a, b, c) for a, b, c in info["seed_sites"]])}

/-- every `sorted(...)` of `tflite_writer.py`, whitespace-normalised -/
def writerSorts : List String := {lit(info["writer_sorts"])}

/-- what `tflite_writer` collects the tensors of a subgraph in, before sorting them by name -/
def writerTensorCollection : List String := {lit(info["writer_tensor_collection"])}

/-- functions of `greedy_allocation.py` that build a `set` -/
def greedySetUses : List String := {lit(info["greedy_set_uses"])}

end VelaVerif.Gen.Caches
"""
    return {"Caches.lean": text}
