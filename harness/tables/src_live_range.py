"""Source translation of ethosu/vela/live_range.py -> lean/VelaVerif/Gen/ (see _src.py)."""
from ._src import emit_for


def emit(repo):
    return emit_for(repo, "live_range")
