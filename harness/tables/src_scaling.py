"""Source translation of ethosu/vela/scaling.py -> lean/VelaVerif/Gen/SrcScaling.lean."""
from ._src import emit_for


def emit(repo):
    return emit_for(repo, "scaling")
