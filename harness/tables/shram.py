"""C15: SHRAM/block-config constants of every accelerator, read from the live ArchitectureFeatures objects
(`arch.shram`, the three granule dictionaries, `ofm_block_max`, `SubKernelMax`, `OFMSplitDepth`,
`_AccumulatorBits`, `SHRAMElements` indices, enum values) plus one *observed* fact about api.py: which
criterion `npu_find_block_configs` uses to derive the `scaled` argument of `try_block_config`."""
from ._lean import HEADER, lean_list, lit


def _probe_api_scaled_criterion():
    """Calls the live api.npu_find_block_configs with architecture_allocator.try_block_config wrapped, and
    reports the `scaled` argument it derives for (a) quantization objects present but scale_f32 None,
    (b) a quantization object missing, (c) everything present."""
    from ethosu.vela import api, architecture_allocator as aa

    seen = []
    real = aa.try_block_config

    def spy(*args, **kw):
        seen.append(args[11] if len(args) > 11 else kw["scaled"])
        return real(*args, **kw)

    def mk(q_ifm, q_ofm):
        op = api.NpuConv2DOperation()
        for name, q in (("ifm", q_ifm), ("ofm", q_ofm)):
            fm = api.NpuFeatureMap()
            fm.data_type = api.NpuDataType.INT16
            fm.shape = api.NpuShape3D(height=4, width=4, depth=16)
            fm.quantization = q
            setattr(op, name, fm)
        op.kernel = api.NpuKernel(1, 1)
        return op

    Q = api.NpuQuantization
    out = []
    aa.try_block_config = spy
    try:
        for qi, qo in ((Q(scale_f32=None, zero_point=0), Q(scale_f32=0.5, zero_point=0)),
                       (None, Q(scale_f32=0.5, zero_point=0)),
                       (Q(scale_f32=0.25, zero_point=0), Q(scale_f32=0.5, zero_point=0))):
            seen.clear()
            api.npu_find_block_configs(mk(qi, qo), api.NpuAccelerator.Ethos_U55_128)
            vals = set(bool(v) for v in seen)
            if len(vals) != 1:
                raise RuntimeError("api.npu_find_block_configs derives a non-constant `scaled` argument")
            out.append(vals.pop())
    finally:
        aa.try_block_config = real
    if out[1] is not False or out[2] is not True:
        raise RuntimeError(f"unexpected `scaled` derivation in api.npu_find_block_configs: {out}")
    # out[0] True: only `quantization is None` unsets it; False: `scale_f32 is None` unsets it as well
    return "quantOnly" if out[0] else "quantAndScale"


def emit(repo):
    from ethosu.vela import architecture_allocator as aa
    from ethosu.vela.architecture_features import Accelerator, ArchitectureFeatures, SHRAMElements, create_default_arch
    from ethosu.vela.ethos_u55_regs.ethos_u55_regs import acc_format, resampling_mode
    from ethosu.vela.operation import NpuBlockType
    from ethosu.vela.register_command_stream_generator import acc_format_map

    E = SHRAMElements
    rows = []
    for acc in Accelerator:
        arch = create_default_arch(acc)
        cfg = ArchitectureFeatures.accelerator_configs[acc]
        s = arch.shram
        rows.append(
            "{ name := %s, ofmUblock := ⟨%d, %d, %d⟩, ifmUblock := ⟨%d, %d, %d⟩, ofmBlockMax := ⟨%d, %d, %d⟩,\n"
            "      reservedOutputBanks := %d, bankSizeBytes := %d, totalBanks := %d, reservedEndBanks := %d,\n"
            "      accGranule16 := %d, accGranule32 := %d, accGranule40 := %d,\n"
            "      ifmGranule8 := %d, ifmGranule16 := %d, ifmGranule32 := %d,\n"
            "      ifmEwGranule8 := %d, ifmEwGranule16 := %d, ifmEwGranule32 := %d,\n"
            "      configBankSize := %d, lutAddress := %d, lutSize := %d, cfgShramBanks := %d, rawGranules := %s }"
            % (
                lit(acc.value),
                arch.ofm_ublock.width, arch.ofm_ublock.height, arch.ofm_ublock.depth,
                arch.ifm_ublock.width, arch.ifm_ublock.height, arch.ifm_ublock.depth,
                arch.ofm_block_max.width, arch.ofm_block_max.height, arch.ofm_block_max.depth,
                int(s.reserved_output_banks), int(s.bank_size_bytes), int(s.total_banks), int(s.reserved_end_banks),
                int(arch.accumulator_granules[E.Acc16]), int(arch.accumulator_granules[E.Acc32]),
                int(arch.accumulator_granules[E.Acc40]),
                int(arch.ifm_bank_granules[8]), int(arch.ifm_bank_granules[16]), int(arch.ifm_bank_granules[32]),
                int(arch.ifm_ew_bank_granules[8]), int(arch.ifm_ew_bank_granules[16]), int(arch.ifm_ew_bank_granules[32]),
                int(arch.shram_bank_size), int(arch.shram_lut_address), int(arch.shram_lut_size),
                int(cfg.shram_banks), lit([int(x) for x in cfg.shram_granules]),
            )
        )
    sk = ArchitectureFeatures.SubKernelMax
    bits = aa._AccumulatorBits
    text = HEADER + f"""import VelaVerif.Gen.Core
namespace VelaVerif.Gen.Shram
open VelaVerif.Gen

/-- One row per `Accelerator` member (enum order): what `create_default_arch(acc)` exposes to
    architecture_allocator.py.  `Blk` is ⟨width, height, depth⟩. -/
structure Row where
  name : String
  ofmUblock : Blk
  ifmUblock : Blk
  ofmBlockMax : Blk
  /-- `arch.shram` (SHRAMConfig namedtuple) -/
  reservedOutputBanks : Nat
  bankSizeBytes : Nat
  totalBanks : Nat
  reservedEndBanks : Nat
  /-- `arch.accumulator_granules[SHRAMElements.AccNN]` -/
  accGranule16 : Nat
  accGranule32 : Nat
  accGranule40 : Nat
  /-- `arch.ifm_bank_granules[bits]` -/
  ifmGranule8 : Nat
  ifmGranule16 : Nat
  ifmGranule32 : Nat
  /-- `arch.ifm_ew_bank_granules[bits]` -/
  ifmEwGranule8 : Nat
  ifmEwGranule16 : Nat
  ifmEwGranule32 : Nat
  /-- `arch.shram_bank_size` (copied into ArchitectureBlockConfig.bank_size) -/
  configBankSize : Nat
  /-- `arch.shram_lut_address`, `arch.shram_lut_size`: where the LUT DMA really writes -/
  lutAddress : Nat
  lutSize : Nat
  /-- raw `accelerator_configs[acc]` entries (used by the Spec, not by the model) -/
  cfgShramBanks : Nat
  rawGranules : List Nat
deriving Repr, DecidableEq, Inhabited

def rows : List Row := {lean_list(rows)}

def splitDepth : Nat := {ArchitectureFeatures.OFMSplitDepth}
def subKernelLimit : Blk := ⟨{sk.width}, {sk.height}, {sk.depth}⟩

/-- `architecture_allocator._AccumulatorBits` -/
def accBits16 : Nat := {bits[E.Acc16]}
def accBits32 : Nat := {bits[E.Acc32]}
def accBits40 : Nat := {bits[E.Acc40]}

/-- `SHRAMElements` indices into `shram_granules` -/
def elIFM8 : Nat := {E.IFM8}
def elIFM16 : Nat := {E.IFM16}
def elIFM8Ew : Nat := {E.IFM8_Elementwise}
def elIFM16Ew : Nat := {E.IFM16_Elementwise}
def elIFM32 : Nat := {E.IFM32}
def elAcc16 : Nat := {E.Acc16}
def elAcc32 : Nat := {E.Acc32}
def elAcc40 : Nat := {E.Acc40}

/-- `NpuBlockType` values -/
def btDefault : Nat := {NpuBlockType.Default.value}
def btConvolutionMxN : Nat := {NpuBlockType.ConvolutionMxN.value}
def btVectorProduct : Nat := {NpuBlockType.VectorProduct.value}
def btPooling : Nat := {NpuBlockType.Pooling.value}
def btConvolutionDepthWise : Nat := {NpuBlockType.ConvolutionDepthWise.value}
def btElementWise : Nat := {NpuBlockType.ElementWise.value}
def btReduceSum : Nat := {NpuBlockType.ReduceSum.value}

/-- `resampling_mode` register values -/
def rsNone : Nat := {resampling_mode.NONE.value}
def rsNearest : Nat := {resampling_mode.NEAREST.value}
def rsTranspose : Nat := {resampling_mode.TRANSPOSE.value}

/-- `acc_format_map[SHRAMElements.AccNN]` (ACC_FORMAT register values) -/
def accFormat16 : Nat := {acc_format_map[E.Acc16]}
def accFormat32 : Nat := {acc_format_map[E.Acc32]}
def accFormat40 : Nat := {acc_format_map[E.Acc40]}

/-- How `api.npu_find_block_configs` derives the `scaled` argument, *observed* on the live function:
    `quantOnly`  — unset only when some feature map has `quantization is None`;
    `quantAndScale` — also unset when a quantization object has `scale_f32 is None` (what
    `register_command_stream_generator.get_arch_block_config` does). -/
inductive ScaledCrit | quantOnly | quantAndScale
deriving Repr, DecidableEq, Inhabited

def apiScaledCrit : ScaledCrit := .{_probe_api_scaled_criterion()}

end VelaVerif.Gen.Shram
"""
    assert acc_format.INT_32BIT.value == acc_format_map[E.Acc32]
    return {"Shram.lean": text}
