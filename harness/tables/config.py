"""C18: constants of configuration resolution, read from /repo's live objects and documents.

* the enums `MemArea`, `MemPort`, `ArchitectureFeatures.DEFAULT_CONFIG`;
* the defaults of the live argparse parser of `vela.main` (captured by intercepting `parse_args`);
* what `create_default_arch` resolves for every accelerator (the internal-default values);
* which memory areas each of const/arena/cache accepts, *probed* on the live `ArchitectureFeatures`;
* the bundled `config_files/Arm/vela.ini` as ConfigParser parses it;
* the section names OPTIONS.md documents for the `internal-default` configurations.
"""
import argparse
import configparser
import contextlib
import io
import math
import os
import re
import tempfile

from ._lean import HEADER, lean_list, lit


def dy(x):
    """finite float -> canonical (neg, m, e) with m odd (or 0,0)"""
    x = float(x)
    if x == 0:
        return (False, 0, 0)
    m, e = math.frexp(abs(x))
    mi = int(m * (1 << 53))
    ei = e - 53
    while mi % 2 == 0:
        mi //= 2
        ei += 1
    return (x < 0, mi, ei)


def dy_lit(x):
    n, m, e = dy(x)
    return "⟨%s, %d, %s⟩" % ("true" if n else "false", m, lit(e))


class _Stop(Exception):
    pass


def import_vela():
    """`ethosu.vela.vela`; configuration resolution never touches the C codec, so a tree without a built
    `ethosu.mlw_codec` gets an empty stand-in instead of a C build"""
    try:
        from ethosu import mlw_codec  # noqa: F401
    except ImportError:
        import sys
        import types

        import ethosu

        stub = types.ModuleType("ethosu.mlw_codec")
        sys.modules["ethosu.mlw_codec"] = stub
        ethosu.mlw_codec = stub
    from ethosu.vela import vela

    return vela


def grab_parser():
    """the argparse parser `vela.main` builds (it is local to main, so intercept parse_args)"""
    vela = import_vela()

    box = {}
    orig = argparse.ArgumentParser.parse_args

    def fake(self, args=None, namespace=None):
        box["p"] = self
        raise _Stop()

    argparse.ArgumentParser.parse_args = fake
    try:
        vela.main([])
    except _Stop:
        pass
    finally:
        argparse.ArgumentParser.parse_args = orig
    return box["p"]


def arch_fields(arch):
    from ethosu.vela.tensor import BandwidthDirection

    rows = []
    for i in range(6):
        rows.append("⟨%s, %s, %s, %s⟩" % (dy_lit(arch.memory_clock_scales[i]), lit(int(arch.memory_burst_length[i])),
                                          lit(int(arch.memory_latency[i][BandwidthDirection.Read])),
                                          lit(int(arch.memory_latency[i][BandwidthDirection.Write]))))
    return rows


def doc_default_names(repo, ini_sections):
    """OPTIONS.md: `### System Config` / `### Memory Mode` → the names after 'System configuration' /
    'Memory mode' in the two bullets, matched (case/underscore-insensitively) to a bundled section."""
    txt = open(os.path.join(repo, "OPTIONS.md"), encoding="utf-8").read()
    out = {}

    def norm(s):
        return re.sub(r"[^a-z0-9]", "", s.lower())

    for part, head, lead in (("System_Config", "### System Config", "System configuration"),
                             ("Memory_Mode", "### Memory Mode", "Memory mode")):
        m = re.search(re.escape(head) + r"\n(.*?)\n### ", txt, re.S)
        body = m.group(1) if m else ""
        for fam in ("Ethos-U65", "Ethos-U55"):
            mm = re.search(r"\*\*" + fam + r"\*\* - " + lead + r" ([^:]+):", body)
            name = None
            if mm:
                want = norm(mm.group(1))
                for sec in ini_sections:
                    if sec.startswith(part + ".") and norm(sec[len(part) + 1:]) == want:
                        name = sec
            out[(part, fam)] = name
    m = re.search(r"### Accelerator Configuration\n(.*?)\n### ", txt, re.S)
    mm = re.search(r"\*\*Default: ([\w-]+)\*\*", m.group(1)) if m else None
    out["accelerator"] = mm.group(1) if mm else None
    return out


def probe_legal():
    """for each role (const/arena/cache), the MemArea names the live ArchitectureFeatures accepts for it.
    Each probe puts the probed role on Axi1 = <area> and keeps the checks that run *before* it satisfiable:
      const: axi0=Sram (arena, cache)            accepted            <=> legal for const
      arena: axi0=Dram (const), cache also Axi1  accepted or rejected by the later cache check <=> legal for arena
      cache: axi0=Dram (const, arena)            accepted            <=> legal for cache"""
    import shutil

    from ethosu.vela.architecture_features import ArchitectureFeatures
    from ethosu.vela.tensor import MemArea

    probes = {
        "const": ("Sram", dict(const_mem_area="Axi1", arena_mem_area="Axi0", cache_mem_area="Axi0")),
        "arena": ("Dram", dict(const_mem_area="Axi0", arena_mem_area="Axi1", cache_mem_area="Axi1")),
        "cache": ("Dram", dict(const_mem_area="Axi0", arena_mem_area="Axi0", cache_mem_area="Axi1")),
    }
    res = {"const": [], "arena": [], "cache": []}
    d = tempfile.mkdtemp(prefix="velaverif_cfg_")
    try:
        p = os.path.join(d, "p.ini")
        for area in MemArea.__members__.values():
            if area == MemArea.Size:
                continue  # not an array index (IndexError); never reaches the legality checks
            for role, (axi0, mem) in probes.items():
                with open(p, "w") as f:
                    f.write("[System_Config.P]\naxi0_port=%s\naxi1_port=%s\n[Memory_Mode.P]\n" % (axi0, area.name))
                    f.write("".join("%s=%s\n" % kv for kv in mem.items()))
                try:
                    with contextlib.redirect_stdout(io.StringIO()):
                        ArchitectureFeatures([p], "ethos-u65-256", "P", "P", 3, False, None)
                    ok = True
                except Exception as e:  # noqa: BLE001 - any rejection
                    why = str(getattr(e, "error_msg", repr(e)))
                    ok = role == "arena" and "Invalid configuration of cache_mem_area=" in why
                if ok:
                    res[role].append(area.name)
    finally:
        shutil.rmtree(d, True)
    return res


def emit(repo):
    import_vela()
    from ethosu.vela.architecture_features import Accelerator, ArchitectureFeatures, MemPort, create_default_arch
    from ethosu.vela.tensor import MemArea

    parser = grab_parser()
    d = {k: parser.get_default(k) for k in ("arena_cache_size", "system_config", "memory_mode", "accelerator_config", "config")}

    cp = configparser.ConfigParser()
    ini_path = os.path.join(repo, "ethosu", "config_files", "Arm", "vela.ini")
    cp.read(ini_path)
    ini = [(s, [(k, cp.get(s, k, raw=True)) for k in cp.options(s)]) for s in cp.sections()]
    ini_items = ["(%s, %s)" % (lit(s), lit(opts)) for s, opts in ini]
    docs = doc_default_names(repo, [s for s, _ in ini])

    def opt(v):
        return "none" if v is None else "some %s" % lit(v)

    defaults = []
    for acc in Accelerator:
        a = create_default_arch(acc)
        defaults.append(
            "(%s, { coreClock := %s, axi0 := %s, axi1 := %s, tab := ⟨%s⟩, "
            "constPort := %s, arenaPort := %s, cachePort := %s, arenaCacheSize := %s, "
            "permanent := %s, featureMap := %s, fast := %s })"
            % (lit(acc.value), dy_lit(a.core_clock), int(a.axi0_port), int(a.axi1_port), ", ".join(arch_fields(a)),
               a.const_mem_area.value - 1, a.arena_mem_area.value - 1, a.cache_mem_area.value - 1, lit(int(a.arena_cache_size)),
               int(a.permanent_storage_mem_area), int(a.feature_map_storage_mem_area), int(a.fast_storage_mem_area)))
    legal = probe_legal()
    text = HEADER + f"""
namespace VelaVerif.Gen.Cfg

/-- `ArchitectureFeatures.DEFAULT_CONFIG` -/
def defaultConfigName : String := {lit(ArchitectureFeatures.DEFAULT_CONFIG)}

/-- `tensor.MemArea`: (member name, value) -/
def memAreaNames : List (String × Nat) := {lit([(n, int(m)) for n, m in MemArea.__members__.items()])}
/-- `architecture_features.MemPort`: (member name, value - 1) -/
def memPortNames : List (String × Nat) := {lit([(n, m.value - 1) for n, m in MemPort.__members__.items()])}

/-- defaults of the argparse parser built by `vela.main` -/
def cliArenaCacheSize : Option Int := {opt(d['arena_cache_size'])}
def cliSystemConfig : String := {lit(d['system_config'])}
def cliMemoryMode : String := {lit(d['memory_mode'])}
def cliAccelerator : String := {lit(d['accelerator_config'])}
def cliConfigDefaultIsNone : Bool := {lit(d['config'] is None)}

/-- memory areas accepted for each role, probed on the live `ArchitectureFeatures` -/
def legalConst : List String := {lit(legal['const'])}
def legalArena : List String := {lit(legal['arena'])}
def legalCache : List String := {lit(legal['cache'])}

/-- `ethosu/config_files/Arm/vela.ini` as `ConfigParser` parses it (option keys lower-cased) -/
def bundledArmIni : List (String × List (String × String)) := {lean_list(ini_items)}

/-- section names OPTIONS.md gives for the `internal-default` configurations -/
def docSysU65 : Option String := {opt(docs[('System_Config', 'Ethos-U65')])}
def docSysU55 : Option String := {opt(docs[('System_Config', 'Ethos-U55')])}
def docMemU65 : Option String := {opt(docs[('Memory_Mode', 'Ethos-U65')])}
def docMemU55 : Option String := {opt(docs[('Memory_Mode', 'Ethos-U55')])}
/-- OPTIONS.md "Accelerator Configuration": **Default: …** -/
def docAcceleratorDefault : Option String := {opt(docs['accelerator'])}

/-- A resolved configuration as raw numbers (MemArea / MemPort by value), see `Model/ConfigTypes.lean` -/
structure RawDy where
  neg : Bool
  m : Nat
  e : Int
deriving DecidableEq, Repr
structure RawRow where
  scale : RawDy
  burst : Int
  rlat : Int
  wlat : Int
deriving DecidableEq, Repr
structure RawTab where
  unknown : RawRow
  sram : RawRow
  dram : RawRow
  onChipFlash : RawRow
  offChipFlash : RawRow
  shram : RawRow
deriving DecidableEq, Repr
structure RawArch where
  coreClock : RawDy
  axi0 : Nat
  axi1 : Nat
  tab : RawTab
  constPort : Nat
  arenaPort : Nat
  cachePort : Nat
  arenaCacheSize : Int
  permanent : Nat
  featureMap : Nat
  fast : Nat
deriving DecidableEq, Repr

/-- what `create_default_arch(acc)` resolves (no file, `internal-default` twice, no CLI size) -/
def defaultArch : List (String × RawArch) := {lean_list(defaults)}

end VelaVerif.Gen.Cfg
"""
    return {"Config.lean": text}
