"""Source translation of ethosu/vela/numeric_util.py -> lean/VelaVerif/Gen/SrcNumericUtil.lean."""
from ._src import emit_for


def emit(repo):
    return emit_for(repo, "numeric_util")
