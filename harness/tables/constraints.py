"""C16: everything the supported-operator machinery of /repo says NOW, as Lean constants.

From the LIVE objects `TFLiteSupportedOperators()` / `TFLiteSemantic()`:
  * every integer / integer-tuple class attribute (the numeric ranges), every set-of-DataType and set-of-Op class attribute;
  * the ordered generic constraint lists, the exception / exclude dictionaries, the ordered specific lists per operator type
    (constraint functions by `__name__`), and every constraint function's `__doc__` (after docstring_format_args);
  * per internal operator type: tensor indices (ifms, weights, biases), NPU block type, external (TFLite) name.
From the REPORT: the text written by the real generator `vela.generate_supported_ops()` (run in a scratch directory) and the
committed `SUPPORTED_OPS.md`, both parsed with the same small parser into
  (summary table rows, generic bullets with their bracketed exclusions, operator -> list of specific bullets).
Numbers are NOT extracted here: Lean's `Constraints.nums` does that on the bullet text inside the theorems.
"""
import contextlib
import io
import os
import re
import shutil
import tempfile

from ._lean import HEADER, lean_list, lit


def parse_report(text):
    """-> (table [(name, has_specific)], generic [(doc, [excluded names])], specific [(name, [doc])])
    Only the TFLite part of the report is read."""
    lines = text.split("\n")
    table, generic, specific = [], [], []
    section = None       # None | "table" | "generic" | ("specific", name)
    bullets = None

    def close_bullet(cur):
        if cur is None:
            return
        # the generator appended two spaces to every line of the docstring but the last
        doc = "\n".join(l[:-2] if (i < len(cur) - 1 and l.endswith("  ")) else l for i, l in enumerate(cur))
        bullets.append(doc)

    cur = None
    for ln in lines:
        m = re.match(r"^##+ (.*)$", ln)
        if m:
            close_bullet(cur)
            cur = None
            title = m.group(1).strip()
            if title == "TFLite Summary Table":
                section = "table"
            elif title == "TFLite Generic Constraints":
                section = "generic"
                bullets = []
                generic.append(bullets)
            else:
                m2 = re.match(r"^TFLite (\S+) Constraints$", title)
                if m2:
                    section = ("specific", m2.group(1))
                    bullets = []
                    specific.append((m2.group(1), bullets))
                else:
                    section = None
            continue
        if section == "table":
            m = re.match(r"^\| (\S+) \| (.*) \|$", ln)
            if m and m.group(1) not in ("Operator", "---"):
                table.append((m.group(1), "[Specific]" in m.group(2)))
            continue
        if section in (None,):
            continue
        if ln.startswith("- "):
            close_bullet(cur)
            cur = [ln[2:]]
        elif ln.strip() == "":
            close_bullet(cur)
            cur = None
        elif cur is not None:
            cur.append(ln)
    close_bullet(cur)
    gen = []
    for doc in (generic[0] if generic else []):
        m = re.search(r" - \[([A-Za-z0-9_, ]*)\]$", doc)
        if m:
            gen.append((doc[:m.start()], [x.strip() for x in m.group(1).split(",") if x.strip()]))
        else:
            gen.append((doc, []))
    return table, gen, [(n, list(b)) for n, b in specific]


def fresh_report(repo):
    """Run the real report generator in a scratch directory and return the text it wrote."""
    from ethosu.vela import vela

    d = tempfile.mkdtemp(prefix="velaverif_rep_")
    cwd = os.getcwd()
    try:
        os.chdir(d)
        with contextlib.redirect_stdout(io.StringIO()):
            vela.generate_supported_ops()
        with open(os.path.join(d, "SUPPORTED_OPS.md")) as f:
            return f.read()
    finally:
        os.chdir(cwd)
        shutil.rmtree(d, ignore_errors=True)


def _names(fs):
    return [f.__name__ for f in fs]


class N(str):
    """a string that is emitted as `Name` (List Nat of code points)"""


def nm(x):
    """Lean literal of a value in which every str is a Name (code points)"""
    if isinstance(x, Ref):
        return x.ident
    if isinstance(x, bool):
        return "true" if x else "false"
    if isinstance(x, str):
        return "[" + ", ".join(str(ord(c)) for c in x) + "]"
    if isinstance(x, int):
        return lit(x)
    if isinstance(x, list):
        return "[" + ", ".join(nm(v) for v in x) + "]"
    if isinstance(x, tuple):
        return "(" + ", ".join(nm(v) for v in x) + ")"
    raise TypeError(type(x))


class Ref:
    def __init__(self, ident):
        self.ident = ident


class Texts:
    """every distinct long text (docstring, report bullet) becomes one named definition `t<k>`"""

    def __init__(self):
        self.ids = {}

    def ref(self, text):
        if text not in self.ids:
            self.ids[text] = "t%d" % len(self.ids)
        return Ref(self.ids[text])

    def defs(self):
        out = []
        for text, ident in self.ids.items():
            shown = text.replace("\n", " / ").replace("-/", "- /")
            out.append(f"/-- {shown} -/\ndef {ident} : Name := {nm(text)}")
        return "\n".join(out)


def _pairs(items, comment=True):
    rows = []
    for k, v in items:
        c = ""
        if comment and isinstance(k, str):
            shown = k + (": " + ", ".join(v) if isinstance(v, list) and all(isinstance(x, str) for x in v) else
                         (" -> " + v if isinstance(v, str) else ""))
            c = "/- %s -/ " % shown.replace("-/", "- /")
        rows.append("%s(%s, %s)" % (c, nm(k), nm(v)))
    return lean_list(rows)


def emit(repo):
    from ethosu.vela.data_type import DataType
    from ethosu.vela.operation import Op
    from ethosu.vela.tflite_mapping import BUILTIN_OPERATOR_UNKNOWN, builtin_operator_map, builtin_operator_name_map
    from ethosu.vela.tflite_mapping import optype_to_builtintype
    from ethosu.vela.tflite_model_semantic import TFLiteSemantic
    from ethosu.vela.tflite_supported_operators import TFLiteSupportedOperators

    sup, sem = TFLiteSupportedOperators(), TFLiteSemantic()

    def class_consts(cls):
        nums, dts, ops = [], [], []
        for k, v in vars(cls).items():
            if k.startswith("_"):
                continue
            if isinstance(v, bool):
                continue
            if isinstance(v, int):
                nums.append((k, [int(v)]))
            elif isinstance(v, tuple) and v and all(isinstance(x, int) and not isinstance(x, bool) for x in v):
                nums.append((k, [int(x) for x in v]))
            elif isinstance(v, (set, frozenset)) and v:
                if all(isinstance(x, DataType) for x in v):
                    dts.append((k, sorted(str(x) for x in v)))
                elif all(isinstance(x, Op) for x in v):
                    ops.append((k, sorted(x.name for x in v)))
        return nums, dts, ops

    s_nums, s_dts, s_ops = class_consts(TFLiteSupportedOperators)
    _m_nums, _m_dts, m_ops = class_consts(TFLiteSemantic)
    snum = dict(s_nums)

    def rng(name, n):
        v = snum[name]      # KeyError -> translator failure: the attribute the model reads is gone
        if len(v) != n:
            raise ValueError(f"{name} no longer has {n} components: {v}")
        return v

    texts = Texts()

    def docs(cls):
        out = []
        for k, v in vars(cls).items():
            if k.startswith("constraint_"):
                f = getattr(cls, k)
                out.append((k, texts.ref(f.__doc__ or "")))
        return out

    op_rows = []
    for op in Op:
        idx = op.info.indices
        ext = optype_to_builtintype(op)
        op_rows.append("/- %s -/ { name := %s, ifms := %s, weights := %s, biases := %s, block := %s, ext := %s }" % (
            op.name, nm(op.name), lit([int(i) for i in idx.ifms]), lit([int(i) for i in idx.weights]), lit([int(i) for i in idx.biases]),
            nm(op.info.block_type.name), nm("" if ext is BUILTIN_OPERATOR_UNKNOWN else str(ext))))
    builtin_rows = sorted((builtin_operator_name_map[b], v[0].name) for b, v in builtin_operator_map.items())

    fresh = fresh_report(repo)
    committed_path = os.path.join(repo, "SUPPORTED_OPS.md")
    committed = open(committed_path).read() if os.path.exists(committed_path) else ""

    def report_defs(prefix, text):
        table, gen, spec = parse_report(text)
        gen = [(texts.ref(d), ex) for d, ex in gen]
        spec = [(n, [texts.ref(b) for b in bs]) for n, bs in spec]
        return (
            f"def {prefix}Table : List (Name × Bool) := {_pairs(table)}\n\n"
            f"def {prefix}Generic : List (Name × List Name) := {_pairs(gen)}\n\n"
            f"def {prefix}Specific : List (Name × List Name) := {_pairs(spec)}\n"
        )

    sup_docs, sem_docs = docs(TFLiteSupportedOperators), docs(TFLiteSemantic)

    def with_docs(fs):
        return [(f.__name__, texts.ref(f.__doc__ or "")) for f in fs]

    def spec_with_docs(d):
        return sorted((k.name, with_docs(v)) for k, v in d.items() if v)

    def pairs_d(items):
        return lean_list(["/- %s: %s -/ (%s, %s)" % (k, ", ".join(n for n, _ in v), nm(k), nm(v)) for k, v in items])

    fresh_defs, committed_defs = report_defs("fresh", fresh), report_defs("committed", committed)

    tdr, sr = rng("tens_dim_range", 2), rng("stride_range", 2)
    dhr, dpr = rng("dilated_height_range", 2), rng("dilated_product_range", 2)
    fr, fhr, fpr = rng("filter_range", 2), rng("filter_height_range", 2), rng("filter_product_range", 2)
    text = HEADER + f"""
namespace VelaVerif.Gen.Constraints

/-- identifiers and texts as lists of code points (fast to compare in the kernel, see Model/Constraints.lean) -/
abbrev Name := List Nat

/-- direct structural comparison on `Nat.beq` (kernel-accelerated); the default `BEq (List Nat)` goes
    through `DecidableEq` and costs several times more per element in `decide` -/
def nameEq : List Nat → List Nat → Bool
  | [], [] => true
  | a :: as, b :: bs => Nat.beq a b && nameEq as bs
  | _, _ => false

instance (priority := high) instBEqName : BEq (List Nat) := ⟨nameEq⟩

structure OpRow where
  name : Name
  ifms : List Nat
  weights : List Nat
  biases : List Nat
  block : Name
  /-- `optype_to_builtintype`; empty when it is BUILTIN_OPERATOR_UNKNOWN -/
  ext : Name
deriving Repr, DecidableEq, Inhabited

/-- every member of `operation.Op` with its `info.indices`, block type and external name -/
def opRows : List OpRow := {lean_list(op_rows)}

/-- `builtin_operator_map`: TFLite builtin name -> internal operator type, sorted by name (the order of the report) -/
def builtinOps : List (Name × Name) := {_pairs(builtin_rows)}

-- every distinct docstring / report bullet
{texts.defs()}

-- numeric ranges of TFLiteSupportedOperators (named: the model reads these)
def tensDimRange : Int × Int := ({tdr[0]}, {tdr[1]})
def strideRange : Int × Int := ({sr[0]}, {sr[1]})
def dilatedHeightRange : Int × Int := ({dhr[0]}, {dhr[1]})
def dilatedProductRange : Int × Int := ({dpr[0]}, {dpr[1]})
def weightsLimit : Int := {rng("weights_limit", 1)[0]}
def filterRange : Int × Int := ({fr[0]}, {fr[1]})
def filterHeightRange : Int × Int := ({fhr[0]}, {fhr[1]})
def filterProductRange : Int × Int := ({fpr[0]}, {fpr[1]})
def meanReducedAxisMaxSize : Int := {rng("mean_reduced_axis_max_size", 1)[0]}
def meanKernelProductInt8 : Int := {rng("mean_kernel_product_int8", 1)[0]}
def meanKernelProductUint8 : Int := {rng("mean_kernel_product_uint8", 1)[0]}
def meanKernelProductInt16 : Int := {rng("mean_kernel_product_int16", 1)[0]}

/-- every int / int-tuple class attribute of TFLiteSupportedOperators -/
def supNumbers : List (Name × List Int) := {_pairs(s_nums)}
/-- every set-of-DataType class attribute (members as `str(DataType)`, sorted) -/
def supDtypeSets : List (Name × List Name) := {_pairs(s_dts)}
/-- every set-of-Op class attribute of TFLiteSupportedOperators (member names sorted) -/
def supOpSets : List (Name × List Name) := {_pairs(s_ops)}
/-- every set-of-Op class attribute of TFLiteSemantic -/
def semOpSets : List (Name × List Name) := {_pairs(m_ops)}

-- TFLiteSupportedOperators(): ordered lists of constraint function names
/-- (function name, docstring): {", ".join(_names(sup.generic_constraints))} -/
def supGenericD : List (Name × Name) := {nm(with_docs(sup.generic_constraints))}
def supGeneric : List Name := supGenericD.map (·.1)
def supExceptions : List (Name × List Name) := {_pairs(sorted((k.name, _names(v)) for k, v in sup.generic_constraints_exceptions.items() if v))}
def supSpecificD : List (Name × List (Name × Name)) := {pairs_d(spec_with_docs(sup.specific_constraints))}
def supSpecific : List (Name × List Name) := supSpecificD.map fun (k, v) => (k, v.map (·.1))
def supDocs : List (Name × Name) := {_pairs(sup_docs)}

-- TFLiteSemantic()
/-- (function name, docstring): {", ".join(_names(sem.generic_constraints))} -/
def semGenericD : List (Name × Name) := {nm(with_docs(sem.generic_constraints))}
def semGeneric : List Name := semGenericD.map (·.1)
def semExclude : List (Name × List Name) := {_pairs(sorted((k.name, _names(v)) for k, v in TFLiteSemantic.get_generic_constraint_exclude_list().items() if v))}
def semSpecificD : List (Name × List (Name × Name)) := {pairs_d(spec_with_docs(sem.specific_constraints))}
def semSpecific : List (Name × List Name) := semSpecificD.map fun (k, v) => (k, v.map (·.1))
def semDocs : List (Name × Name) := {_pairs(sem_docs)}

-- the report written by vela.generate_supported_ops() on this run, parsed
{fresh_defs}
-- /repo/SUPPORTED_OPS.md as committed, parsed by the same parser
{committed_defs}
end VelaVerif.Gen.Constraints
"""
    return {"Constraints.lean": text}
