"""Shared machinery for every check (see DESIGN.md section 4).

A check script does, in this order:
    ck = Check("C17", "proof")
    ck.lean_stage(["VelaVerif.Props.C17"])     # regenerate tables, lake build, audit axioms
    ... correspondence / artefact validation using ck.model(lines) and the real code ...
    ck.finish(coverage)                         # evidence file, VIOLATION / KNOWN-FINDING lines, exit code
Exit codes: 0 property held on everything explored; 1 violation (VIOLATION line printed);
2 infrastructure failure (never a VIOLATION line).
"""
import atexit
import fcntl
import json
import os
import random
import re
import shutil
import subprocess
import sys
import sysconfig
import tempfile
import time
import traceback

# Scratch files of the harness (mkdtemp per compilation, the rebuilt C extension) go to a memory-backed directory when there
# is one: on a loaded machine mkdtemp+rmtree on the disk-backed /tmp costs more than a compilation (measured: 3943
# compilations 238 s -> 23 s). TMPDIR, when set by the caller, is respected.
if "TMPDIR" not in os.environ and os.path.isdir("/dev/shm") and os.access("/dev/shm", os.W_OK | os.X_OK):
    try:
        _st = os.statvfs("/dev/shm")
        if _st.f_bavail * _st.f_frsize > (2 << 30):
            tempfile.tempdir = "/dev/shm"
    except OSError:
        pass

HERE = os.path.dirname(os.path.abspath(__file__))
VERIF = os.path.dirname(HERE)
LEAN_DIR = os.path.join(VERIF, "lean")
REPO = os.environ.get("VERIF_REPO", "/repo")
PY = "/venv/bin/python"
DRV = os.path.join(LEAN_DIR, ".lake", "build", "bin", "drv")
ALLOWED_AXIOMS = {"propext", "Classical.choice", "Quot.sound"}
FORBIDDEN_RE = re.compile(r"\bsorry\b|\badmit\b|^axiom\s|native_decide|bv_decide|implemented_by|\bunsafe\s|maxHeartbeats\s+0")

TRUSTED_BASE = [
    "Lean 4.33 kernel; axioms limited to propext, Classical.choice, Quot.sound (audited on this run)",
    "hand transcription Python/C -> Lean model, tied to /repo only by the correspondence check of this run",
    "harness/gen_tables.py (extraction of constants from /repo's live objects into lean/VelaVerif/Gen)",
    "Python harness: in-process calls into /repo, canonicalisation, line protocol, compiled Lean driver (lean_exe drv)",
]


class InfraError(Exception):
    pass


def setup_repo_path():
    """Put /repo first on sys.path so that `ethosu.*` is the working tree's code."""
    if REPO not in sys.path:
        sys.path.insert(0, REPO)


_ext_dir = None


def build_mlw_codec(sanitize=False):
    """Rebuild ethosu.mlw_codec from /repo's current C sources into a scratch directory that
    precedes /repo on sys.path (the in-tree .so is git-ignored and may be stale).  Returns the dir."""
    global _ext_dir
    if _ext_dir and not sanitize:
        return _ext_dir
    import numpy

    d = tempfile.mkdtemp(prefix="velaverif_ext_")
    atexit.register(shutil.rmtree, d, True)
    os.makedirs(os.path.join(d, "ethosu"))
    src = [os.path.join(REPO, "ethosu", "mlw_codec", f) for f in ("mlw_encode.c", "mlw_decode.c", "mlw_codecmodule.c")]
    out = os.path.join(d, "ethosu", "mlw_codec" + sysconfig.get_config_var("EXT_SUFFIX"))
    cc = ["gcc", "-shared", "-fPIC", "-O1", "-g", "-DNDEBUG", "-DNPY_NO_DEPRECATED_API=NPY_1_9_API_VERSION"]
    if sanitize:
        cc = ["clang", "-shared", "-fPIC", "-O1", "-g", "-DNDEBUG", "-fsanitize=address,undefined",
              "-fno-sanitize-recover=undefined", "-DNPY_NO_DEPRECATED_API=NPY_1_9_API_VERSION"]
    cmd = cc + ["-I" + sysconfig.get_paths()["include"], "-I" + numpy.get_include()] + src + ["-o", out]
    r = subprocess.run(cmd, capture_output=True, text=True)
    if r.returncode != 0:
        raise InfraError("C extension build failed:\n" + r.stderr[-3000:])
    if not sanitize:
        _ext_dir = d
        sys.path.insert(0, d)
        setup_repo_path()
        # make sure repo stays right behind the extension dir
        sys.path.remove(REPO)
        sys.path.insert(1, REPO)
    return d


class LeanResult:
    def __init__(self):
        self.ok = True
        self.theorems = {}      # name -> axioms list
        self.failed = []        # descriptions of failing obligations (theorem names / file:line)
        self.bad_axioms = {}    # name -> offending axioms
        self.forbidden = []     # forbidden tokens found in sources
        self.log = ""


def _run(cmd, cwd=None, inp=None, timeout=None, env=None):
    return subprocess.run(cmd, cwd=cwd, input=inp, capture_output=True, text=True, timeout=timeout, env=env)


class _Lock:
    def __init__(self):
        self.path = os.path.join(LEAN_DIR, ".build.lock")

    def __enter__(self):
        self.f = open(self.path, "w")
        fcntl.flock(self.f, fcntl.LOCK_EX)

    def __exit__(self, *a):
        fcntl.flock(self.f, fcntl.LOCK_UN)
        self.f.close()


def lean_source_scan():
    """grep the Lean tree for forbidden constructs outside comments."""
    hits = []
    for root, _dirs, files in os.walk(LEAN_DIR):
        if ".lake" in root:
            continue
        for fn in files:
            if not fn.endswith(".lean"):
                continue
            p = os.path.join(root, fn)
            txt = open(p, encoding="utf-8").read()
            # strip block comments and line comments
            txt2 = re.sub(r"/-.*?-/", lambda m: "\n" * m.group(0).count("\n"), txt, flags=re.S)
            for i, line in enumerate(txt2.split("\n"), 1):
                line = line.split("--")[0]
                if fn == "AuditCmd.lean":
                    continue
                if FORBIDDEN_RE.search(line):
                    hits.append(f"{os.path.relpath(p, LEAN_DIR)}:{i}: {line.strip()[:80]}")
    return hits


def theorem_at(path, lineno):
    """Name of the theorem/def enclosing a line of a Lean file (for error attribution)."""
    try:
        lines = open(path, encoding="utf-8").read().split("\n")
    except OSError:
        return None
    for i in range(min(lineno, len(lines)) - 1, -1, -1):
        m = re.match(r"\s*(?:private\s+|protected\s+)?(theorem|lemma|def|example|instance|abbrev)\s+([^\s:(\[{]+)?", lines[i])
        if m:
            return (m.group(2) or "example") + f" ({m.group(1)} at line {i+1})"
    return None


def lean_import_closure(modules):
    """Transitive `import VelaVerif...` closure of Lean modules, read from the sources."""
    seen, todo = set(), [m for m in modules if m.startswith("VelaVerif")]
    while todo:
        m = todo.pop()
        if m in seen:
            continue
        seen.add(m)
        path = os.path.join(LEAN_DIR, *m.split(".")) + ".lean"
        try:
            txt = open(path, encoding="utf-8").read()
        except OSError:
            continue
        for mm in re.findall(r"^import\s+(VelaVerif[\w.]*)", txt, flags=re.M):
            todo.append(mm)
    return seen


def lean_stage(prop_modules, extra_targets=()):
    """gen_tables -> lake build (library, driver, property modules) -> audit. Never raises on a
    proof failure: returns LeanResult with .ok False and the failing obligations named."""
    res = LeanResult()
    with _Lock():
        r = _run([PY, os.path.join(HERE, "gen_tables.py")], env=dict(os.environ, VERIF_REPO=REPO))
        res.log += r.stdout + r.stderr
        if r.returncode != 0:
            # the translator itself died: the code no longer has the shape it reads
            res.ok = False
            res.failed.append("translator harness/gen_tables.py failed: " + (r.stderr.strip().split("\n") or ["?"])[-1])
        else:
            # a plug-in that failed concerns only the checks whose property modules import one of its files
            try:
                status = json.load(open(os.path.join(LEAN_DIR, "VelaVerif", "Gen", ".status.json")))
            except Exception:
                status = {"failed": {}}
            if status.get("failed"):
                closure = lean_import_closure(list(prop_modules) + list(extra_targets))
                for name, info in sorted(status["failed"].items()):
                    mods = {"VelaVerif.Gen." + f[:-5].replace("/", ".") for f in info.get("files") or []}
                    if not mods or (mods & closure):
                        res.ok = False
                        res.failed.append(f"translator plug-in harness/tables/{name}.py failed: {info.get('error')} "
                                          f"(tables {sorted(mods) or '?'} are stale)")
                    else:
                        res.log += f"(translator plug-in {name} failed; its tables {sorted(mods)} are not imported by {prop_modules})\n"
        # the driver and model must build, otherwise nothing can run
        r = _run(["lake", "build", "drv"], cwd=LEAN_DIR)
        res.log += r.stdout + r.stderr
        if r.returncode != 0:
            errs = re.findall(r"error: (\S+\.lean):(\d+):(\d+): (.*)", r.stdout + r.stderr)
            desc = [f"{f}:{ln}: {msg[:100]} [{theorem_at(os.path.join(LEAN_DIR, f), int(ln))}]" for f, ln, _c, msg in errs[:5]]
            res.ok = False
            res.failed.append("model/driver build failed: " + "; ".join(desc))
            res.driver_broken = True
            return res
        res.driver_broken = False
        targets = list(prop_modules) + list(extra_targets) + ["VelaVerif.AuditCmd"]
        r = _run(["lake", "build"] + targets, cwd=LEAN_DIR)
        res.log += r.stdout + r.stderr
        if r.returncode != 0:
            res.ok = False
            errs = re.findall(r"error: (\S+\.lean):(\d+):(\d+): (.*)", r.stdout + r.stderr)
            seen = set()
            for f, ln, _c, msg in errs:
                t = theorem_at(os.path.join(LEAN_DIR, f), int(ln))
                key = (f, t)
                if key in seen:
                    continue
                seen.add(key)
                res.failed.append(f"{f}:{ln}: {t}: {msg[:160]}")
            if not errs:
                res.failed.append("lake build failed: " + (r.stdout + r.stderr)[-400:])
    # audit what did build
    for mod in prop_modules:
        olean = os.path.join(LEAN_DIR, ".lake", "build", "lib", "lean", *mod.split(".")) + ".olean"
        if not os.path.exists(olean) or any(mod.replace(".", "/") + ".lean" in f for f in res.failed):
            continue
        src = f"import VelaVerif.AuditCmd\nimport {mod}\n#audit_module {mod}\n"
        with tempfile.NamedTemporaryFile("w", suffix=".lean", delete=False) as tf:
            tf.write(src)
        try:
            r = _run(["lake", "env", "lean", tf.name], cwd=LEAN_DIR)
        finally:
            os.unlink(tf.name)
        res.log += r.stdout + r.stderr
        n_before = len(res.theorems)
        # the pretty-printer wraps long messages: match across line breaks, and cross-check the count the audit command reports
        for m in re.finditer(r"THEOREM\s+(\S+)\s+AXIOMS\s+\[(.*?)\]", r.stdout, flags=re.S):
            axs = [a.strip() for a in m.group(2).split(",") if a.strip()]
            res.theorems[m.group(1)] = axs
            bad = [a for a in axs if a not in ALLOWED_AXIOMS]
            if bad:
                res.bad_axioms[m.group(1)] = bad
                res.ok = False
                res.failed.append(f"{m.group(1)} depends on non-standard axioms {bad}")
        mend = re.search(r"AUDIT-END\s+\S+\s+(\d+)", r.stdout)
        if not mend:
            res.ok = False
            res.failed.append(f"audit of {mod} did not complete: {(r.stdout + r.stderr)[-300:]}")
        elif int(mend.group(1)) != len(res.theorems) - n_before:
            res.ok = False
            res.failed.append(f"audit of {mod}: {mend.group(1)} theorems declared, {len(res.theorems) - n_before} audited (output not parsed completely)")
    # thorough tier: independent re-check of the compiled property modules with leanchecker
    if os.environ.get("VERIF_LEANCHECKER") == "1":
        for mod in prop_modules:
            if mod.replace(".", "/") + ".lean" in " ".join(res.failed):
                continue
            r = _run(["lake", "env", "leanchecker", mod], cwd=LEAN_DIR, timeout=1800)
            res.log += r.stdout + r.stderr
            res.leanchecker = getattr(res, "leanchecker", {})
            res.leanchecker[mod] = r.returncode
            if r.returncode != 0:
                res.ok = False
                res.failed.append(f"leanchecker rejects {mod}: {(r.stdout + r.stderr)[-300:]}")
    res.forbidden = lean_source_scan()
    if res.forbidden:
        res.ok = False
        res.failed.append("forbidden constructs in Lean sources: " + "; ".join(res.forbidden[:5]))
    return res


def run_model(lines, timeout=3600):
    """Pipe request lines to the compiled Lean driver; returns the list of answer lines."""
    if not lines:
        return []
    data = "\n".join(lines) + "\n"
    r = subprocess.run([DRV], input=data, capture_output=True, text=True, timeout=timeout)
    if r.returncode != 0:
        raise InfraError(f"Lean driver failed rc={r.returncode}: {r.stderr[-500:]}")
    out = r.stdout.split("\n")
    if out and out[-1] == "":
        out.pop()
    if len(out) != len(lines):
        raise InfraError(f"Lean driver answered {len(out)} lines for {len(lines)} requests")
    return out


def run_model_parallel(lines, jobs=None, timeout=3600):
    """Same as run_model but shards the request list over several driver processes."""
    jobs = jobs or min(16, os.cpu_count() or 4)
    if len(lines) < 2000 or jobs == 1:
        return run_model(lines, timeout)
    from concurrent.futures import ThreadPoolExecutor

    n = len(lines)
    step = (n + jobs - 1) // jobs
    chunks = [lines[i:i + step] for i in range(0, n, step)]
    with ThreadPoolExecutor(len(chunks)) as ex:
        outs = list(ex.map(lambda c: run_model(c, timeout), chunks))
    return [x for o in outs for x in o]


def load_known_findings():
    path = os.path.join(VERIF, "known_findings.txt")
    out = []
    if os.path.exists(path):
        for line in open(path):
            line = line.strip()
            m = re.match(r"finding: property=(\S+) key=(\S+) (.*)", line)
            if m:
                out.append({"property": m.group(1), "key": m.group(2), "what": m.group(3)})
    return out


class Check:
    current = None      # the Check of this process (main_wrapper reports through it)

    def __init__(self, pid, level, argv=None):
        argv = sys.argv[1:] if argv is None else argv
        self.pid = pid
        self.level = level
        tier = os.environ.get("VERIF_TIER", "")
        for a in argv:
            if a in ("quick", "thorough"):
                tier = a
        self.tier = tier if tier in ("quick", "thorough") else "quick"
        try:
            self.seed = int(os.environ.get("VERIF_SEED", "0"))
        except ValueError:
            self.seed = 0
        self.replay_arg = None
        if "--replay" in argv:
            self.replay_arg = argv[argv.index("--replay") + 1]
        self.rng = random.Random(self.seed * 1000003 + sum(map(ord, pid)))
        self.t0 = time.time()
        self.violations = []      # (what, replay_path, found_input)
        self.known_hits = {}      # key -> what
        self.known = [k for k in load_known_findings() if k["property"] == pid]
        self.lean = None
        self.notes = []
        self.counters = {}
        self.samples = []
        os.makedirs(os.path.join(VERIF, "replays"), exist_ok=True)
        os.makedirs(os.path.join(VERIF, "evidence"), exist_ok=True)
        Check.current = self

    @property
    def thorough(self):
        return self.tier == "thorough"

    def count(self, key, n=1):
        self.counters[key] = self.counters.get(key, 0) + n

    def sample(self, s, limit=6):
        if len(self.samples) < limit:
            self.samples.append(s)

    # ---- Lean ------------------------------------------------------------------------------
    def lean_stage(self, prop_modules, extra_targets=()):
        self.prop_modules = list(prop_modules)
        if self.thorough:
            os.environ["VERIF_LEANCHECKER"] = "1"
        self.lean = lean_stage(prop_modules, extra_targets)
        if getattr(self.lean, "driver_broken", False) and not any("Gen/" in f for f in self.lean.failed):
            # model itself does not compile and no regenerated table is involved: our own bug
            print(self.lean.log[-3000:])
            raise InfraError("Lean model/driver does not build: " + "; ".join(self.lean.failed))
        return self.lean

    def model(self, lines, parallel=True):
        return run_model_parallel(lines) if parallel else run_model(lines)

    # ---- outcomes ----------------------------------------------------------------------------
    def finding_key_known(self, key):
        for k in self.known:
            if k["key"] == key:
                return k
        return None

    def violation(self, what, replay, found_input=True, key=None):
        """Record a violation. `replay` is a JSON-serialisable object describing the failing input
        (or, when none was found, the theorem / correspondence that no longer checks).
        A violation whose `key` is listed in known_findings.txt becomes a KNOWN-FINDING line."""
        if key is not None:
            k = self.finding_key_known(key)
            if k is not None:
                if key not in self.known_hits:
                    self.known_hits[key] = k["what"]
                return False
        if len(self.violations) >= 20:
            self.violations.append((what, None, found_input))
            return True
        idx = len(self.violations)
        path = os.path.join("replays", f"{self.pid}-{self.seed}-{idx}.json")
        with open(os.path.join(VERIF, path), "w") as f:
            json.dump({"property": self.pid, "what": what, "found_failing_input": found_input, "key": key,
                       "seed": self.seed, "tier": self.tier, "replay": replay}, f, indent=1, default=str)
        self.violations.append((what, path, found_input))
        return True

    def finish(self, coverage, assumptions=None):
        lean = self.lean
        cov = dict(coverage)
        if lean is not None:
            cov["obligations"] = len(lean.theorems) + len([f for f in lean.failed])
            cov["discharged"] = len([t for t in lean.theorems if t not in lean.bad_axioms])
            cov["theorems"] = sorted(lean.theorems)
            cov["axioms_used"] = sorted({a for axs in lean.theorems.values() for a in axs})
            cov["checker_cmd"] = ("cd lean && lake build " + " ".join(self.prop_modules) +
                                  " && lake env lean <#audit_module per property module> (harness/common.py lean_stage)")
            cov["trusted_base"] = TRUSTED_BASE + cov.get("trusted_base_extra", [])
            cov.pop("trusted_base_extra", None)
            if any(m.endswith("Src") for m in getattr(self, "prop_modules", [])):
                # Props/CxxSrc.lean: theorems about definitions regenerated from the source text (design.d/Translator.md)
                cov["trusted_base"].append(
                    "source translator harness/py2lean.py (structure: evaluation order, SSA, joins, loops) and "
                    "lean/VelaVerif/Model/PyRt.lean (meaning of the Python / NumPy scalar integer operators), both validated "
                    "against CPython/NumPy by tools/py2lean_selftest.py; for the functions covered by src_*_eq_model theorems "
                    "this replaces 'hand transcription tied only by correspondence'")
            if getattr(lean, "leanchecker", None):
                cov["leanchecker"] = lean.leanchecker
            if lean.failed:
                cov["failed_obligations"] = lean.failed
            # a broken proof obligation with no failing input found by the search
            if not lean.ok and not any(v[2] for v in self.violations):
                self.violation("proof obligation no longer checks: " + "; ".join(lean.failed),
                               {"failed_obligations": lean.failed,
                                "note": "failing-input search (correspondence + Spec on implementation outputs) found no concrete input"},
                               found_input=False)
            elif not lean.ok:
                self.notes.append("proof obligations broken: " + "; ".join(lean.failed))
        # schema hygiene: `exhaustive` is a boolean; a description of what was enumerated goes to `exhaustive_scope`
        if "exhaustive" in cov and not isinstance(cov["exhaustive"], bool):
            cov["exhaustive_scope"] = cov["exhaustive"]
            cov["exhaustive"] = False
        for k in ("evaluations", "distinct_nontrivial", "programs", "disagreements_checked", "states", "transitions",
                  "traces_validated_against_impl"):
            if k in cov and not isinstance(cov[k], int):
                try:
                    cov[k] = int(cov[k])
                except Exception:
                    cov[k + "_note"] = cov.pop(k)
        if "samples" in cov and not isinstance(cov["samples"], list):
            cov["samples"] = [cov["samples"]]
        cov.setdefault("samples", self.samples or ["(none)"])
        cov["counters"] = self.counters
        if self.notes:
            cov["notes"] = self.notes
        cov["known_findings_hit"] = sorted(self.known_hits)
        ev = {
            "property_id": self.pid,
            "tier": self.tier,
            "seed": self.seed,
            "level": self.level,
            "coverage": cov,
            "assumptions": assumptions or [],
            "wall_s": round(time.time() - self.t0, 2),
            "violations": len(self.violations),
        }
        with open(os.path.join(VERIF, "evidence", f"{self.pid}.json"), "w") as f:
            json.dump(ev, f, indent=1, default=str)
        for key, what in sorted(self.known_hits.items()):
            print(f"KNOWN-FINDING: property={self.pid} key={key} {what}")
        for what, path, found in self.violations:
            if path is None:
                continue
            tail = "" if found else " no-failing-input-found"
            print(f"# {what[:300]}")
            print(f"VIOLATION property={self.pid} replay={path}{tail}")
        nob = cov.get("obligations")
        print(f"[{self.pid}] tier={self.tier} seed={self.seed} evaluations={cov.get('evaluations')} "
              f"obligations={nob} discharged={cov.get('discharged')} violations={len(self.violations)} "
              f"known={len(self.known_hits)} wall={ev['wall_s']}s")
        sys.stdout.flush()
        sys.exit(1 if self.violations else 0)


def _raised_in_repo(tb):
    """(file, line, function) of the innermost frame of the traceback if that frame is code of the repository under test
    (the implementation raised while the harness was driving it), else None."""
    frames = traceback.extract_tb(tb)
    if not frames:
        return None
    last = frames[-1]
    root = os.path.realpath(REPO) + os.sep
    fn = os.path.realpath(last.filename)
    if fn.startswith(root) and (os.sep + "ethosu" + os.sep) in fn:
        return (os.path.relpath(fn, root), last.lineno, last.name)
    return None


def main_wrapper(fn):
    """Run a check's main(). InfraError and exceptions of the harness's own code are exit 2 (infrastructure), never a
    VIOLATION. An exception that the implementation itself raises while a harness drives it directly (function-level
    correspondence on harness-built objects) means that this correspondence can no longer be run: by the rules of the
    task that is reported - as a violation whose replay names the correspondence and the raising site, marked
    no-failing-input-found - rather than silently skipped (exit 2 would hide a change that makes the code read a field,
    take an argument or follow a path the unchanged code did not)."""
    try:
        fn()
    except SystemExit:
        raise
    except InfraError as e:
        print("INFRA-ERROR:", e)
        sys.exit(2)
    except Exception as e:
        traceback.print_exc()
        site = _raised_in_repo(e.__traceback__)
        ck = Check.current
        if site is None or ck is None or isinstance(e, (MemoryError, OSError)):
            print("INFRA-ERROR: unexpected exception in harness")
            sys.exit(2)
        what = (f"correspondence could not be run: the implementation raised {type(e).__name__}: {str(e)[:160]} at "
                f"{site[0]}:{site[1]} ({site[2]}) on an input built by the harness of {ck.pid}")
        ck.violation(what, {"correspondence": f"harness/check_{ck.pid}.py (function-level correspondence / artefact extraction)",
                            "raised": type(e).__name__, "message": str(e)[:500], "site": list(site),
                            "traceback_tail": traceback.format_exc()[-3000:]}, found_input=False)
        ck.finish({"evaluations": 0, "distinct_nontrivial": 0, "programs": 0, "disagreements_checked": 0,
                   "rule": "run aborted: see explanation", "samples": [what],
                   "explanation": what + "; no further case of this run was evaluated"},
                  assumptions=["run aborted by an exception raised inside the repository under test"])
