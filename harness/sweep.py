"""Deterministic pattern sweep: the pipeline-level checks open their run with every named network pattern
(`netgen.PATTERNS`) instantiated a few times under the configurations in which the pattern's mechanism fires
(two-core accelerator for single-core weight streams, small accelerator + `--optimise Size` for cascades,
Dedicated_Sram + arena cache for fast-storage decisions, 16-bank and >16-bank accelerators for lookup tables, …).

A sweep job is the ordinary pipeline job (seed, index, "sweep:<pattern>"): the index is also the `variant` handed to
the pattern builder (sub-kind of the family) and selects the configuration template; everything else (sizes,
quantisation, allocator, alignment) is drawn from the job's random stream, so different seeds sweep different
instances of the same sub-kinds and a job replays from (seed, index, profile)."""
import os

import common

ACCS = ["ethos-u55-32", "ethos-u55-64", "ethos-u55-128", "ethos-u55-256", "ethos-u65-256", "ethos-u65-512"]


def _ini():
    return os.path.join(common.REPO, "ethosu", "config_files", "Arm", "vela.ini")


def acc(a, *more):
    return ["--accelerator-config", a] + list(more)


def dedicated(a, cache=None, optimise="Performance"):
    o = acc(a, "--config", _ini(), "--system-config", "Ethos_U65_High_End", "--memory-mode", "Dedicated_Sram", "--optimise", optimise)
    if cache is not None:
        o += ["--arena-cache-size", str(cache)]
    return o


def u55_mode(a, sysc, mode, optimise="Performance"):
    return acc(a, "--config", _ini(), "--system-config", sysc, "--memory-mode", mode, "--optimise", optimise)


ROTATE = [acc(a) for a in ACCS]
TWO_CORE = [acc("ethos-u65-512"), dedicated("ethos-u65-512"), acc("ethos-u65-512", "--optimise", "Size"),
            dedicated("ethos-u65-512", 65536), acc("ethos-u65-512", "--optimise", "Performance")]      # 5: coprime to the sub-kind cycles
CASCADE = [acc(a, "--optimise", "Size") for a in ("ethos-u55-128", "ethos-u55-64", "ethos-u55-256", "ethos-u55-32", "ethos-u65-256")]
FAST = [dedicated("ethos-u65-256", 40000), dedicated("ethos-u65-512", 100000), dedicated("ethos-u65-256", 20000),
        dedicated("ethos-u65-512", 200000), dedicated("ethos-u65-256", 393216), acc("ethos-u55-128")]
# cascades that keep the minimal stripes: `--optimise Size`, half of them with a small arena cache on top
CASCADE_MIN = [acc("ethos-u55-128", "--optimise", "Size"), acc("ethos-u55-64", "--optimise", "Size", "--arena-cache-size", "16384"),
               acc("ethos-u55-256", "--optimise", "Size"), acc("ethos-u65-256", "--optimise", "Size", "--arena-cache-size", "65536"),
               acc("ethos-u55-32", "--optimise", "Size"), acc("ethos-u55-128", "--optimise", "Size", "--arena-cache-size", "4096"),
               acc("ethos-u65-512", "--optimise", "Size")]
# lookup tables: with (> 16 banks) and without reserved table banks
LUT = [acc("ethos-u55-128"), acc("ethos-u65-256"), acc("ethos-u55-64"), acc("ethos-u55-32"), acc("ethos-u55-256"),
       acc("ethos-u65-512"), u55_mode("ethos-u55-64", "Ethos_U55_High_End_Embedded", "Shared_Sram"),
       acc("ethos-u55-128", "--optimise", "Size")]
# CPU / NPU mixtures: the arena is shared with CPU tensors; vary memory mode and alignment
MIXED = [acc("ethos-u55-128"), acc("ethos-u65-256"), u55_mode("ethos-u55-64", "Ethos_U55_High_End_Embedded", "Shared_Sram"),
         acc("ethos-u55-256", "--cpu-tensor-alignment", "64"), u55_mode("ethos-u55-128", "Ethos_U55_Deep_Embedded", "Sram_Only"),
         dedicated("ethos-u65-512"), acc("ethos-u55-32"), acc("ethos-u65-512", "--optimise", "Size")]

# cascades under both allocators that matter for a mis-sized live range (Greedy packs the next buffer inside, HillClimb puts it last)
NARROW = [acc("ethos-u55-128", "--optimise", "Size", "--tensor-allocator", "Greedy"), acc("ethos-u55-128", "--optimise", "Size", "--tensor-allocator", "HillClimb"),
          acc("ethos-u55-64", "--optimise", "Size", "--tensor-allocator", "Greedy"), acc("ethos-u65-256", "--optimise", "Size", "--tensor-allocator", "HillClimb"),
          acc("ethos-u55-256", "--optimise", "Size", "--tensor-allocator", "LinearAlloc")]
# pattern -> (instances in the quick tier, configuration templates)
TABLE = {
    "multi_input": (3, MIXED), "input_npu_and_cpu": (6, MIXED), "residual": (3, FAST), "lut_reuse": (4, LUT),
    "deep_slices": (3, TWO_CORE), "fc1_after_conv": (4, TWO_CORE), "nobias": (3, ROTATE), "casc_s2_valid": (4, CASCADE),
    "two_npu_islands": (3, MIXED), "concat_slices": (3, ROTATE), "shared_weights": (2, ROTATE), "shared_weights_deep": (6, ROTATE), "narrowing_cascade": (12, NARROW), "big_fm_u65": (3, FAST),
    "avgpool_chain": (2, ROTATE), "minmax_lrelu": (2, ROTATE), "reshape_fork": (4, MIXED), "widen_ew": (3, ROTATE),
    "lut_mixed": (18, LUT), "shape_out": (42, MIXED), "transpose_perm": (24, ROTATE), "ew_fork": (20, MIXED),
    "fc1_two_core": (12, TWO_CORE), "near_scale": (15, ROTATE),
    "multi_out_cpu": (24, MIXED), "slice_masks": (40, MIXED),
    "rank_sweep": (252, ROTATE),        # 21 kinds x ranks 1-6 x the two last-axis variants (gen_ranksweep.py)
    "resize_cascade": (36, CASCADE_MIN),    # resize 2x -> stride {3,2,1} consumer in one cascade (gen_resizecasc.py), 7 templates: coprime to the cycles
    "io_passthrough": (36, MIXED),      # 12 kinds x 6 surroundings (gen_iopass.py): interface tensors no operator stands behind
    "shared_consts": (15, ROTATE),      # 12 axes of harness/netgen_shared.py (one per weight re-laying rewrite) + 3 drawn
}
DEFAULT = (3, ROTATE)
# families built only by the sweep (not drawn by netgen.pattern_net at random, so the random profiles keep their networks)
SWEEP_ONLY = ["shared_weights_deep", "narrowing_cascade"]


def jobs(thorough=False):
    """[(profile, index)] of the sweep, in a fixed order"""
    import netgen

    out = []
    for p in netgen.PATTERNS + SWEEP_ONLY:
        n, _ = TABLE.get(p, DEFAULT)
        for i in range(n * (4 if thorough else 1)):
            out.append((f"sweep:{p}", i))
    return out


def config(rng, profile, index):
    """options of sweep job (`profile`, `index`): template `index mod #templates` of the pattern, completed from `rng`"""
    _, templates = TABLE.get(profile.split(":", 1)[1], DEFAULT)
    opts = list(templates[index % len(templates)])
    if "--optimise" not in opts:
        opts += ["--optimise", rng.choice(["Performance", "Performance", "Size"])]
    alloc = rng.choice(["HillClimb", "HillClimb", "Greedy", "LinearAlloc"])     # drawn in any case: later draws keep their values
    if "--tensor-allocator" not in opts:
        opts += ["--tensor-allocator", alloc]
    if "--cpu-tensor-alignment" not in opts and rng.random() < 0.25:
        opts += ["--cpu-tensor-alignment", str(rng.choice([16, 32, 64, 128, 256]))]
    return opts
