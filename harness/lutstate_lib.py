"""C03 function-level stream: the lookup-table residency pass (ethosu/vela/lut.py) against Model/LutState.lean and
Spec/LutWindow.lean.

A *case* is an abstract high-level command stream:
    {"acc": <Accelerator name>, "tables": [[values_key, dtype_name, n_elements], ...],     # tensor objects, tid = position
     "passes": [tid | None, ...],                                                           # pid = position, its table
     "cmds": [["dma", pid, tid] | ["stripe", pid] | ["other", pid], ...]}
`realise` builds it from the repository's own classes (Operation / Tensor / Pass through pass_packing, DMA / NpuStripe / Box
commands, ArchitectureFeatures), runs the REAL `lut.optimize_high_level_cmd_stream` with a recording subclass of the real
`LUTState` in place (every method call is answered by the real method; the subclass only logs arguments, results and the
tensor list), and reads the final table index / DMA destination through the real `create_npu_activation` / `create_dma_op`.
Nothing here decides anything: the log is compared with the Lean model's log and judged by the Lean Spec."""
import random

KINDS = {  # name -> (DataType attribute, elements)
    "u8x256": ("uint8", 256), "i8x256": ("int8", 256), "i16x256": ("int16", 256), "u8x512": ("uint8", 512),
    "i32x256": ("int32", 256), "i16x512": ("int16", 512), "i32x512": ("int32", 512), "u32x512": ("uint32", 512),
}
KIND_BYTES = {"u8x256": 256, "i8x256": 256, "i16x256": 512, "u8x512": 512, "i32x256": 1024, "i16x512": 1024,
              "i32x512": 2048, "u32x512": 2048}


def table_values(key, n):
    """values every dtype above can hold, a function of (key, n) only: equal keys and element counts give arrays that
    np.array_equal calls equal whatever the dtype"""
    return random.Random(key * 7919 + n).choices(range(128), k=n)


class World:
    pass


def realise(case, repo_mods):
    """Build the real objects of a case. Returns a World (arch, tensors, passes, commands, sg)."""
    m = repo_mods
    w = World()
    w.arch = m.architecture_features.create_default_arch(getattr(m.architecture_features.Accelerator, case["acc"]))
    shape = [1, 1, 1, 1]
    ops, w.tens, w.src = [], [], []
    for ti, (key, kind) in enumerate(case["tables"]):
        dt, n = KINDS[kind]
        w.src.append(m.tensor.create_const_tensor(f"t{ti}_lut", [1, 1, 1, n], getattr(m.data_type.DataType, dt), table_values(key, n),
                                                  m.tensor.TensorPurpose.LUT))
    for pi, tid in enumerate(case["passes"]):
        op = m.testutil.create_elemwise_op(m.operation.Op.Add, f"op{pi}", shape, shape, shape)
        if tid is not None:
            op.set_activation_lut(w.src[tid])
        ops.append(op)
    nng = m.nn_graph.Graph()
    sg = m.testutil.create_subgraph(ops)
    nng.subgraphs.append(sg)
    nng = m.mark_tensors.mark_tensor_purpose(nng, w.arch, False)
    m.rewrite_graph.rewrite_graph_pre_order(nng, sg, w.arch, [], [])
    m.pass_packing.pack_into_passes(nng, w.arch, False)
    # constants get their place in permanent storage (tensor allocation does that in a compilation)
    for ti, src in enumerate(w.src):
        if src.mem_type == m.tensor.MemType.Unknown:     # a table no operator uses
            m.mark_tensors.mark_purpose(src, w.arch, m.tensor.TensorPurpose.LUT)
        src.address = 4096 * ti
    # what scheduler.SchedulerOperation.__init__ does: the operator reads a clone of its table placed in SHRAM; one clone per
    # table object of the case (an operator listed with the same table object shares the clone)
    w.tens = [src.clone_into_shram(w.arch) for src in w.src]
    for op, tid in zip(ops, case["passes"]):
        if tid is not None:
            for idx, tens in enumerate(op.inputs):
                if tens.purpose == m.tensor.TensorPurpose.LUT:
                    w.tens[tid].consumer_list.append(op)
                    op.inputs[idx] = w.tens[tid]
    by_op = {id(ps.primary_op): ps for ps in sg.passes}
    w.ops = ops
    w.passes = [by_op[id(op)] for op in ops]
    hl = m.high_level_command_stream
    w.cmds = []
    for c in case["cmds"]:
        ps = w.passes[c[1]]
        op = ops[c[1]]
        if c[0] == "dma":
            t = w.tens[c[2]]
            w.cmds.append(hl.DMA(ps, w.src[c[2]], t, hl.Box([0, 0, 0, 0], list(t.shape))))
        elif c[0] == "stripe":
            box = hl.Box([0, 0, 0, 0], [1, 1, 1, 1])
            w.cmds.append(hl.NpuStripe(ps, None, True, True, op.ifm, box, op.ofm, box, ifm2_tensor=op.ifm2, ifm2_box=box))
        else:   # a DMA that is not a table load: the second input of the operator copied to itself
            w.cmds.append(hl.DMA(ps, op.ifm2, op.ifm2, hl.Box([0, 0, 0, 0], [1, 1, 1, 1])))
    sg.high_level_command_stream = list(w.cmds)
    w.sg = sg
    return w


def make_spy(lut_mod, w, log):
    """recording subclass of the real LUTState: the real methods do all the work"""
    tid_of = {id(t): i for i, t in enumerate(w.tens)}
    real = lut_mod.LUTState

    def snap(st):
        return " ".join(f"{tid_of.get(id(t), -1)}@{t.address}" for t in st.tensors)

    class Spy(real):
        def __init__(self):
            real.__init__(self)
            log.append("new")

        def get_equivalent(self, lut_tens):
            r = real.get_equivalent(self, lut_tens)
            log.append(f"eq [{snap(self)}] {tid_of.get(id(lut_tens), -1)} -> {'-' if r is None else tid_of.get(id(r), -1)}")
            return r

        def find_best_address(self, start, stop, step):
            r = real.find_best_address(self, start, stop, step)
            log.append(f"fba [{snap(self)}] {start} {stop} {step} -> {r}")
            return r

        def put(self, lut_tens):
            before = snap(self)
            r = real.put(self, lut_tens)
            log.append(f"put [{before}] {tid_of.get(id(lut_tens), -1)}@{lut_tens.address} -> [{snap(r)}]")
            return r
    return Spy


def run_real(case, repo_mods):
    """-> dict(log=[...], kept=[indices of the commands left], addr=[final address per tid | None], idx=[final lut_index
    per pid], npu_idx=[index create_npu_activation programs], dma=[(dest address, length) of the kept table loads],
    sizes=[storage_size per tid], vals=[class of the values per tid], err=str|None)"""
    m = repo_mods
    w = realise(case, m)
    log = []
    old = m.lut.LUTState
    m.lut.LUTState = make_spy(m.lut, w, log)
    err = None
    try:
        m.lut.optimize_high_level_cmd_stream(w.sg, w.arch)
    except AssertionError:
        err = "assert"
    except ValueError:
        err = "value"
    finally:
        m.lut.LUTState = old
    out = {"log": log, "err": err, "sizes": [t.storage_size() for t in w.tens]}
    cls = {}
    out["vals"] = [cls.setdefault((tuple(int(v) for v in t.values.flatten()),), len(cls)) for t in w.tens]
    out["content"] = content_classes(w)
    out["has_lut"] = [ps.lut_tensor is not None for ps in w.passes]
    out["lut_start"] = w.arch.shram_lut_address
    out["lut_size"] = w.arch.shram_lut_size
    out["reserved"] = w.arch.shram_reserved_unused_banks
    if err is None:
        pos = {id(c): i for i, c in enumerate(w.cmds)}
        out["kept"] = [pos[id(c)] for c in w.sg.high_level_command_stream]
        dmaed = {c[2] for c in case["cmds"] if c[0] == "dma"}
        out["addr"] = [int(t.address) if i in dmaed else None for i, t in enumerate(w.tens)]
        out["idx"] = [int(op.activation.lut_index) if op.activation is not None else None for op in w.ops]
        npu_idx, dma = [], []
        for op in w.ops:
            npu_idx.append(int(m.hl2npu.create_npu_activation(op, False).lookup_table_index) if op.activation is not None else None)
        for i in out["kept"]:
            c = case["cmds"][i]
            if c[0] == "dma":
                d = m.hl2npu.create_dma_op(w.cmds[i], w.arch)
                dma.append((i, int(d.dest.region), int(d.dest.address), int(d.dest.length)))
        out["npu_idx"] = npu_idx
        out["dma"] = dma
    return out


def load_repo_mods():
    import types
    from ethosu.vela import (architecture_features, data_type, high_level_command_stream, high_level_command_to_npu_op, lut,
                             mark_tensors, nn_graph, operation, pass_packing, rewrite_graph, tensor)
    from ethosu.vela.test import testutil
    m = types.SimpleNamespace(architecture_features=architecture_features, data_type=data_type,
                              high_level_command_stream=high_level_command_stream, hl2npu=high_level_command_to_npu_op, lut=lut,
                              mark_tensors=mark_tensors, nn_graph=nn_graph, operation=operation, pass_packing=pass_packing,
                              rewrite_graph=rewrite_graph, tensor=tensor, testutil=testutil)
    return m


# ------------------------------------------------------------------------------------------------------------------
# generators

ACCS = ["Ethos_U55_32", "Ethos_U55_64", "Ethos_U55_128", "Ethos_U55_256", "Ethos_U65_256", "Ethos_U65_512"]
N256 = [("u8x256", 256), ("i8x256", 256), ("i16x256", 512), ("i32x256", 1024)]
N512 = [("u8x512", 512), ("i16x512", 1024), ("i32x512", 2048), ("u32x512", 2048)]
BY_BYTES = {256: ["u8x256", "i8x256"], 512: ["i16x256", "u8x512"], 1024: ["i32x256", "i16x512"], 2048: ["i32x512", "u32x512"]}


def _pick_size(rng, bias):
    r = rng.random()
    if bias == "narrow":
        return 256 if r < 0.8 else rng.choice([512, 1024, 2048])
    if bias == "wide":
        return rng.choice([256, 256, 512, 1024, 1024, 2048, 2048])
    return rng.choice([256, 256, 256, 512, 1024, 2048])


def gen_tables(rng, n, nkeys, bias, eqbytes):
    """n table objects over nkeys value keys. eqbytes: tables with equal values (same key and element count) get the same
    element width, hence the same bytes; otherwise the width is free (the stream outside the hypothesis)."""
    width = {}      # (key, elements) -> kind family (bytes)
    tables = []
    for _ in range(n):
        key = rng.randrange(nkeys)
        size = _pick_size(rng, bias)
        kind = rng.choice(BY_BYTES[size])
        nel = KINDS[kind][1]
        if eqbytes:
            size = width.setdefault((key, nel), size)
            kinds = [k for k in BY_BYTES[size] if KINDS[k][1] == nel]
            if not kinds:        # the recorded width of this (key, elements) class does not exist for that count: new key
                key = nkeys + len(tables)
                kinds = [kind]
            kind = rng.choice(kinds)
        tables.append([key, kind])
    return tables


def gen_shaped(rng, eqbytes=True, single=False, bias=None, acc=None):
    """a stream of the shape the command-stream generator emits: per horizontal stripe of an operator its table DMA (if it
    has a table), then its kernels (one per depth slice), weight DMAs in between; cascades interleave the stripes of their
    operators. OrigOk by construction."""
    bias = bias or rng.choice(["narrow", "wide", "any"])
    npass = rng.randint(2, 9)
    nkeys = rng.randint(1, 5)
    tables = gen_tables(rng, npass, nkeys, bias, eqbytes)
    passes = []
    for p in range(npass):
        r = rng.random()
        if r < 0.22:
            passes.append(None)
        elif r < 0.30 and p > 0 and any(x is not None for x in passes):
            passes.append(rng.choice([x for x in passes if x is not None]))     # the same tensor object under two operators
        else:
            passes.append(p)
    cmds = []

    def stripe_of(p):
        if rng.random() < 0.25:
            cmds.append(["other", p])
        if passes[p] is not None:
            cmds.append(["dma", p, passes[p]])
        for _ in range(1 if rng.random() < 0.75 else 2):
            if rng.random() < 0.3:
                cmds.append(["other", p])
            cmds.append(["stripe", p])

    order = list(range(npass))
    rng.shuffle(order)
    i = 0
    while i < len(order):
        glen = 1 if (single or rng.random() < 0.5) else rng.randint(2, 4)
        group = order[i:i + glen]
        i += glen
        for _h in range(1 if single else rng.choice([1, 1, 2, 2, 3])):
            for p in group:
                stripe_of(p)
    if not single and rng.random() < 0.3:       # an operator seen again later (another subgraph position of the same pass)
        stripe_of(rng.choice(order))
    return {"acc": acc or rng.choice(ACCS), "tables": tables, "passes": passes, "cmds": cmds, "gen": "shaped"}


def gen_soup(rng, eqbytes=True):
    """any command in any order (kernels before the load of their table, DMAs of a table for a pass that reads another)"""
    npass = rng.randint(1, 6)
    ntab = rng.randint(1, 7)
    tables = gen_tables(rng, ntab, rng.randint(1, 4), rng.choice(["narrow", "wide", "any"]), eqbytes)
    passes = [None if rng.random() < 0.3 else rng.randrange(ntab) for _ in range(npass)]
    cmds = []
    for _ in range(rng.randint(1, 24)):
        r = rng.random()
        p = rng.randrange(npass)
        if r < 0.45 and passes[p] is not None:      # (a table DMA for an operator without LUT activation cannot exist:
            t = passes[p] if rng.random() < 0.8 else rng.randrange(ntab)   #  the pass writes to `activation.lut_index`)
            cmds.append(["dma", p, t])
        elif r < 0.9:
            cmds.append(["stripe", p])
        else:
            cmds.append(["other", p])
    return {"acc": rng.choice(ACCS), "tables": tables, "passes": passes, "cmds": cmds, "gen": "soup"}


def gen_mixed_reuse(rng):
    """the family that breaks an eviction rule which looks at start slots only: k narrow tables, a wide one over them,
    then narrow tables again (new ones and equal ones under other tensor objects)"""
    k = rng.randint(1, 8)
    wide = rng.choice([512, 1024, 2048, 2048])
    tables = [[i, rng.choice(BY_BYTES[256])] for i in range(k)]
    tables.append([100, rng.choice(BY_BYTES[wide])])
    extra = rng.randint(0, 2)
    for j in range(extra):
        tables.append([101 + j, rng.choice(BY_BYTES[rng.choice([512, 1024])])])
    seq = list(range(k)) + [k] + [k + 1 + j for j in range(extra)]
    # re-uses: the same values under new tensor objects
    reuse = []
    for _ in range(rng.randint(1, 5)):
        src = rng.randrange(len(tables))
        tables.append(list(tables[src]))
        reuse.append(len(tables) - 1)
    rng.shuffle(reuse)
    if rng.random() < 0.5:
        pos = rng.randint(0, len(seq))
        seq = seq[:pos] + reuse[:1] + seq[pos:]
        reuse = reuse[1:]
    seq += reuse
    passes = list(seq)
    cmds = []
    for p, t in enumerate(seq):
        cmds += [["dma", p, t], ["stripe", p]]
    if rng.random() < 0.3:
        passes.append(None)
        cmds.insert(rng.randrange(0, len(cmds) // 2 + 1) * 2, ["stripe", len(passes) - 1])
    return {"acc": rng.choice(ACCS), "tables": tables, "passes": passes, "cmds": cmds, "gen": "mixed_reuse"}


# ------------------------------------------------------------------------------------------------------------------
# requests

def content_classes(w):
    cls = {}
    return [cls.setdefault((t.values.tobytes(), str(t.values.dtype.itemsize)), len(cls)) for t in w.tens]


WITNESS_SIZES = {"acc": "Ethos_U55_128", "tables": [[7, "u8x256"], [7, "i32x256"]], "passes": [0, 1],
                 "cmds": [["dma", 0, 0], ["stripe", 0], ["dma", 1, 1], ["stripe", 1]], "gen": "witness_sizes"}
WITNESS_REASSIGNED = {"acc": "Ethos_U55_128", "tables": [[1, "u8x256"], [2, "u8x256"], [3, "u32x512"]], "passes": [0, 1, 2],
                      "cmds": [["dma", 0, 0], ["stripe", 0], ["dma", 1, 1], ["stripe", 1], ["dma", 0, 0], ["stripe", 0], ["dma", 2, 2],
                               ["stripe", 2], ["dma", 1, 1], ["stripe", 1]], "gen": "witness_reassigned"}


def probe(m):
    """Which lut.py is under test: (widthAware, sticky) of Model/LutState.lean `Ctx`, found by running the two witnesses of
    Props/C03LutState.lean on the real code: does get_equivalent take the 1 KiB int32 table for the 256-byte uint8 table with the
    same numbers (code as it stands) or not (repair C03-10); is table 1 of the second witness placed in slot 0 the second time
    (code as it stands) or again in slot 1 (repair C03-11). Everything else is then compared with the model of that variant;
    the known findings are only accepted for the variant that has them."""
    wa = sticky = 0
    try:
        r1 = run_real(WITNESS_SIZES, m)
        wa = 0 if any(ln.startswith("eq [0@") and ln.endswith(" 1 -> 0") for ln in r1["log"]) else 1
        r2 = run_real(WITNESS_REASSIGNED, m)
        sticky = 1 if (r2["err"] is None and r2["addr"][1] == r2["lut_start"] + 256) else 0
    except Exception:
        pass
    return wa, sticky


VARIANT = (0, 0)


def pass_request(case, real, content, pass_has_lut):
    tabs = " ".join(f"{real['vals'][i]}:{real['sizes'][i]}:{content[i]}" for i in range(len(case["tables"])))
    ps = " ".join(f"{1 if pass_has_lut[i] else 0}:{'-' if t is None else t}" for i, t in enumerate(case["passes"]))
    cs = " ".join(f"d.{c[1]}.{c[2]}" if c[0] == "dma" else (f"s.{c[1]}" if c[0] == "stripe" else "o") for c in case["cmds"])
    return f"lutpass {real['lut_start']} {real['lut_size']} {real['reserved']} {VARIANT[0]} {VARIANT[1]} T {tabs} P {ps} C {cs}"


def spec_request(case, real, content, m):
    acc = getattr(m.architecture_features.Accelerator, case["acc"]).value
    kept = set(real["kept"])
    dma = {i: (reg, a, n) for i, reg, a, n in real["dma"]}
    evs = []
    for i, c in enumerate(case["cmds"]):
        if c[0] == "dma":
            if i in kept:
                reg, a, n = dma[i]
                evs.append(f"l.{content[c[2]]}.{n}.{a}.{reg}")
            else:
                evs.append("n")
        elif c[0] == "stripe":
            t = case["passes"][c[1]]
            if t is None:
                evs.append("k")
            else:
                evs.append(f"u.{content[t]}.{real['sizes'][t]}.{real['npu_idx'][c[1]]}")
        else:
            evs.append("n")
    return f"lutspec {acc} E " + " ".join(evs)


def parse_pass_answer(a):
    d = {"raw": a, "status": a.split(" ", 1)[0]}
    for tok in a.split(" ")[1:]:
        if "=" in tok:
            k, v = tok.split("=", 1)
            d[k] = v
    d["loglines"] = [s.replace("_", " ") for s in d.get("log", "").split(";")] if d.get("log") else []
    return d


KEY_WIDTH = "lut-get-equivalent-ignores-element-width"
KEY_REASSIGN = "lut-table-object-placed-again-repoints-earlier-commands"


def run_stream(ck, m, n_cases):
    """the pass-level stream. Returns (evaluations, nontrivial set)."""
    rng = ck.rng
    cases = []
    # deterministic head: the two witnesses of Props/C03LutState and the streams of test_lut.py
    cases.append(dict(WITNESS_SIZES))
    cases.append(dict(WITNESS_REASSIGNED))
    for acc in ACCS:
        t2k = [[0, "u8x256"], [1, "u8x256"], [2, "u8x256"], [1, "u8x256"], [2, "u8x256"], [5, "i32x512"], [6, "i32x512"], [1, "u8x256"]]
        t1k = [[0, "u8x256"], [1, "u8x256"], [2, "i32x256"], [1, "u8x256"], [2, "i32x256"], [5, "i32x256"], [0, "u8x256"], [2, "i32x256"]]
        for tb in (t2k, t1k):
            cases.append({"acc": acc, "tables": tb, "passes": list(range(8)),
                          "cmds": [x for p in range(8) for x in (["dma", p, p], ["stripe", p])], "gen": "test_lut"})
    quota = [("shaped", 0.30), ("single", 0.15), ("mixed_reuse", 0.25), ("soup", 0.12), ("shaped_anywidth", 0.10), ("soup_anywidth", 0.08)]
    for name, frac in quota:
        for _ in range(int(n_cases * frac)):
            if name == "shaped":
                c = gen_shaped(rng)
            elif name == "single":
                c = gen_shaped(rng, single=True)
            elif name == "mixed_reuse":
                c = gen_mixed_reuse(rng)
            elif name == "soup":
                c = gen_soup(rng)
            elif name == "shaped_anywidth":
                c = gen_shaped(rng, eqbytes=False)
            else:
                c = gen_soup(rng, eqbytes=False)
            c["gen"] = name
            cases.append(c)
    reals, reqs, specs = [], [], []
    for c in cases:
        r = run_real(c, m)
        content, has_lut = r["content"], r["has_lut"]
        reals.append(r)
        reqs.append(pass_request(c, r, content, has_lut))
        specs.append(spec_request(c, r, content, m) if r["err"] is None else None)
    answers = ck.model(reqs + [s for s in specs if s is not None])
    pa = [parse_pass_answer(a) for a in answers[:len(reqs)]]
    sit = iter(answers[len(reqs):])
    sa = [next(sit) if s is not None else None for s in specs]
    nontrivial = set()
    disagreements = []
    found = 0
    for c, r, a, s, rq, sq in zip(cases, reals, pa, sa, reqs, specs):
        ck.count("lutstate_cases_" + c["gen"])
        ck.count("lutstate_acc_" + c["acc"])
        if a["status"] == "err:parse" or (s is not None and s == "err:parse"):
            raise common_infra(f"lutstate request not understood by the Lean handler: {rq[:300]}")
        real_log = list(r["log"]) + (["raise ValueError"] if r["err"] == "value" else [])
        same_log = real_log == a["loglines"]
        same_out = True
        if r["err"] is None and a["status"] == "ok":
            kept = ",".join(map(str, r["kept"]))
            addr = ",".join("-" if x is None else str(x) for x in r["addr"])
            # ActivationFunction.lut_index starts at 0 (operation.py): an operation the pass never wrote to has 0, the model '-'
            midx = a["idx"].split(",") if a.get("idx") else []
            idx_ok = len(midx) == len(r["idx"]) and all(
                (x is None and mi == "-") or (x is not None and (mi == str(x) or (mi == "-" and x == 0))) for x, mi in zip(r["idx"], midx))
            same_out = (kept == a.get("kept", "") and addr == a.get("addr", "") and idx_ok and r["npu_idx"] == r["idx"])
        elif (r["err"] is None) != (a["status"] == "ok"):
            same_out = False
        agree = same_log and same_out
        hyp = {k: a.get(k) for k in ("stable", "eqbytes", "origok", "agree", "sizes", "dmaown")}
        ndrop = sum(1 for ln in real_log if ln.startswith("eq ") and not ln.endswith("-> -"))
        nevict = 0
        for ln in real_log:
            if ln.startswith("put "):
                before = ln.split("[", 1)[1].split("]", 1)[0].split()
                after = ln.rsplit("[", 1)[1].rstrip("]").split()
                nevict += len(before) + 1 - len(after)
        sizes = {r["sizes"][cc[2]] for cc in c["cmds"] if cc[0] == "dma"}
        if ndrop or nevict:
            nontrivial.add(json_key(c))
        ck.count("lutstate_dropped_dmas", ndrop)
        ck.count("lutstate_evictions", nevict)
        ck.count("lutstate_resets", sum(1 for ln in real_log[1:] if ln == "new") - sum(1 for ln in real_log if ln.startswith("put ")))
        if len(sizes) > 1:
            ck.count("lutstate_mixed_size_cases")
        for k, v in hyp.items():
            if v == "0":
                ck.count("lutstate_hyp_false_" + k)
        if all(hyp.get(k) == "1" for k in hyp):
            ck.count("lutstate_all_hypotheses_hold")
        spec_bad = s is not None and s != "ok"
        replay = {"stream": "lutstate-pass", "case": c, "real_log": real_log, "real": {k: v for k, v in r.items() if k != "log"},
                  "model_answer": a["raw"][:3000], "model_request": rq, "spec_request": sq, "spec_verdict": s,
                  "how_to_replay": "harness/lutstate_lib.run_real(case, load_repo_mods()) runs the real lut.optimize_high_level_cmd_stream "
                                   "on objects built from the repo's classes; the two requests go to lean/.lake/build/bin/drv"}
        if spec_bad and hyp.get("origok") == "1" and hyp.get("dmaown") == "1":
            ck.count("lutstate_spec_rejects_real_stream")
            ck.count(f"lutstate_spec_rejects_eqbytes{hyp.get('eqbytes')}_stable{hyp.get('stable')}_agree{int(agree)}")
            key = None
            if agree and VARIANT[0] == 0 and hyp.get("eqbytes") == "0":
                key = KEY_WIDTH
            elif agree and VARIANT[1] == 0 and hyp.get("stable") == "0":
                key = KEY_REASSIGN
            what = ("table window (function level, lut.optimize_high_level_cmd_stream): the stream left by the pass reads wrong bytes: "
                    + s[:400] + f" [generator {c['gen']}, {c['acc']}; model {'=' if agree else '!='} code]")
            if key is not None or found < 6:        # (the pipeline level of the check shares the list of 20 violations)
                if ck.violation(what, replay, found_input=True, key=key):
                    found += 1
            else:
                found += 1
                ck.count("lutstate_further_failing_inputs_not_listed")
        if agree and r["err"] is None and (a.get("spec") == "0") != (not spec_bad):
            disagreements.append(("the Spec verdict on the model's final stream and on the real final stream differ although calls and "
                                  "decisions agree (index / DMA destination programmed by high_level_command_to_npu_op?)", replay))
        if not agree:
            ck.count("lutstate_model_code_disagreements")
            first = next((i for i, (x, y) in enumerate(zip(real_log, a["loglines"])) if x != y), min(len(real_log), len(a["loglines"])))
            disagreements.append((f"Model/LutState != lut.py on a generated stream ({c['gen']}): call {first}: real "
                                  f"'{real_log[first] if first < len(real_log) else '<end>'}' model "
                                  f"'{a['loglines'][first] if first < len(a['loglines']) else '<end>'}'"
                                  + ("" if same_log else "") + ("" if same_out else " (final addresses / indices / kept commands differ)"), replay))
    return cases, disagreements, found, nontrivial


def json_key(c):
    import json
    return json.dumps([c["acc"], c["tables"], c["passes"], c["cmds"]])


def common_infra(msg):
    import common
    return common.InfraError(msg)


# ------------------------------------------------------------------------------------------------------------------
# method level: the real LUTState methods and get_lut_index on arbitrary lists (also overlapping / unaligned ones)

def method_stream(ck, m, n_calls):
    """-> (number of calls, disagreements [(what, replay)], found)"""
    import uuid
    rng = ck.rng
    arch = m.architecture_features.create_default_arch(m.architecture_features.Accelerator.Ethos_U55_128)
    start, stop = arch.shram_lut_address, arch.shram_lut_address + arch.shram_lut_size
    kinds = list(KINDS)
    pool = []       # (tensor, vals class, size)
    cls = {}
    case = {"acc": "Ethos_U55_128", "tables": [[k, kd] for k in range(4) for kd in kinds], "passes": [], "cmds": []}
    w = realise(case, m)
    for t in w.tens:
        v = cls.setdefault(tuple(int(x) for x in t.values.flatten()), len(cls))
        pool.append((t, v, t.storage_size()))

    def place(t, a):
        t.equivalence_id = uuid.uuid4()      # Tensor.address lives in a map keyed by the equivalence id
        t.address = a

    def fmt(entries):
        return " ".join(f"{i}:{pool[i][1]}:{pool[i][2]}:{a}" for i, a in entries)

    def rand_state(valid):
        entries, used = [], []
        for _ in range(rng.randint(0, 6)):
            i = rng.randrange(len(pool))
            if any(i == j for j, _ in entries):
                continue
            sz = pool[i][2]
            if valid:
                a = start + sz * rng.randrange(2048 // sz)
                if any(a < b + s and b < a + sz for b, s in used) or any(pool[j][1] == pool[i][1] for j, _ in entries):
                    continue
                used.append((a, sz))
            else:
                a = rng.choice([start + 16 * rng.randrange(160), start + 256 * rng.randrange(8), rng.randrange(0, 30000)])
            entries.append((i, a))
        return entries

    reqs, reals, meta = [], [], []
    for _ in range(n_calls):
        valid = rng.random() < 0.6
        entries = rand_state(valid)
        st = m.lut.LUTState()
        for i, a in entries:
            place(pool[i][0], a)
        st.tensors = [pool[i][0] for i, _ in entries]
        tid_of = {id(pool[i][0]): i for i, _ in entries}
        r = rng.random()
        if r < 0.25:
            probe = rng.randrange(len(pool)) if not entries or rng.random() < 0.5 else rng.choice(
                [j for j in range(len(pool)) if pool[j][1] in {pool[i][1] for i, _ in entries}])
            res = st.get_equivalent(pool[probe][0])
            reals.append("-" if res is None else str(tid_of[id(res)]))
            reqs.append(f"luteq S {fmt(entries)} V {pool[probe][1]} {pool[probe][2]} {VARIANT[0]}")
            meta.append(("get_equivalent", valid, entries, probe))
        elif r < 0.55:
            step = rng.choice([256, 256, 512, 1024, 2048, 2048, 16, 100, 0, 4096])
            a0, a1 = (start, stop) if rng.random() < 0.8 else (rng.randrange(0, 3000), rng.randrange(0, 6000))
            try:
                res = str(st.find_best_address(a0, a1, step))
            except ValueError:
                res = "err:value"
            reals.append(res)
            reqs.append(f"lutfba S {fmt(entries)} A {a0} {a1} {step}")
            meta.append(("find_best_address", valid, entries, (a0, a1, step)))
        elif r < 0.9:
            new = rng.choice([j for j in range(len(pool)) if all(j != i for i, _ in entries)])
            sz = pool[new][2]
            a = start + sz * rng.randrange(2048 // sz) if valid or rng.random() < 0.5 else rng.randrange(0, 30000)
            place(pool[new][0], a)
            res = st.put(pool[new][0])
            tid_of[id(pool[new][0])] = new
            reals.append(" ".join(f"{tid_of[id(t)]}@{t.address}" for t in res.tensors))
            reqs.append(f"lutput S {fmt(entries)} N {new}:{pool[new][1]}:{sz}:{a}")
            meta.append(("put", valid, entries, (new, a)))
        else:
            i = rng.randrange(len(pool))
            sz = pool[i][2]
            a = start + sz * rng.randrange(2048 // sz) if rng.random() < 0.7 else start + 256 * rng.randrange(-2, 12)
            place(pool[i][0], a)
            try:
                res = str(m.lut.get_lut_index(arch, pool[i][0]))
            except AssertionError:
                res = "err:assert"
            reals.append(res)
            reqs.append(f"lutidx {start} {a} {sz}")
            meta.append(("get_lut_index", True, [], (i, a)))
    outs = ck.model(reqs)
    disagreements, bad_puts = [], []
    for rq, mo, re_, me in zip(reqs, outs, reals, meta):
        ck.count("lutstate_method_" + me[0])
        if mo != re_:
            ck.count("lutstate_method_disagreements")
            replay = {"stream": "lutstate-method", "method": me[0], "state": [[i, pool[i][1], pool[i][2], a] for i, a in me[2]],
                      "argument": me[3], "real": re_, "model": mo, "request": rq}
            disagreements.append((f"Model/LutState.{me[0]} != LUTState.{me[0]}: real '{re_}' model '{mo}' on {rq[:200]}", replay))
            if me[0] == "put" and me[1]:
                bad_puts.append((rq, re_, me, replay))
    # failing-input search for `put`: the Spec-level property of the list it returns (no two tables share a byte) on the
    # REAL result, for a disjoint list going in
    found = 0
    if bad_puts:
        dreqs = []
        for rq, re_, me, _ in bad_puts:
            size_of = {i: pool[i][2] for i, _ in me[2]}
            size_of[me[3][0]] = pool[me[3][0]][2]
            ent = " ".join(f"{tok.split('@')[0]}:0:{size_of[int(tok.split('@')[0])]}:{tok.split('@')[1]}" for tok in re_.split())
            dreqs.append("lutdisj S " + ent)
        for (rq, re_, me, replay), verdict in zip(bad_puts, ck.model(dreqs)):
            if verdict != "ok":
                replay["spec_verdict"] = verdict
                if found < 3:
                    ck.violation("LUTState.put on a list of disjoint tables returns a list in which two tables share bytes "
                                 f"(resident_tables_disjoint): {verdict[:200]}; list {rq[9:200]}", replay, found_input=True)
                else:
                    ck.count("lutstate_further_failing_inputs_not_listed")
                found += 1
    return len(reqs), disagreements, found


def run_all(ck):
    """both streams; records violations; -> dict of figures for the evidence"""
    import common
    common.setup_repo_path()
    m = load_repo_mods()
    global VARIANT
    VARIANT = probe(m)
    ck.count(f"lutstate_variant_widthaware{VARIANT[0]}_sticky{VARIANT[1]}")
    n_pass = 12000 if ck.thorough else 1500
    n_meth = 20000 if ck.thorough else 3000
    cases, dis1, found1, nontrivial = run_stream(ck, m, n_pass)
    ncalls, dis2, found2 = method_stream(ck, m, n_meth)
    nnet = network_witness(ck)
    if (dis1 or dis2) and not (found1 or found2):
        what, replay = (dis1 + dis2)[0]
        ck.violation(f"{what} ({len(dis1) + len(dis2)} disagreements; the byte-level Spec accepts the real streams / lists of all of them)",
                     replay, found_input=False)
    elif dis1 or dis2:
        ck.notes.append(f"lutstate: {len(dis1)} pass-level and {len(dis2)} method-level disagreements between Model/LutState and lut.py "
                        f"(first: {(dis1 + dis2)[0][0][:200]})")
    for c in cases[2:5]:
        ck.sample({"lutstate_case": {k: c[k] for k in ("acc", "tables", "passes", "cmds")}})
    return {"lutstate_cases": len(cases), "lutstate_method_calls": ncalls, "lutstate_nontrivial": len(nontrivial),
            "lutstate_network_compilations": nnet, "lutstate_variant": {"widthAware": VARIANT[0], "sticky": VARIANT[1]}}


# ------------------------------------------------------------------------------------------------------------------
# network level: the stream shape behind the known finding KEY_REASSIGN, from real compilations

def cascade_reuse_net(h, w, c, pre):
    """TANH (its result is also a network output, so it stays outside the cascade) -> LOGISTIC -> TANH with the input and
    output quantisation of the first TANH (equal table) -> CONV_2D. On a 16-bank configuration the three table operations
    are elementwise operations of their own; when LOGISTIC, the second TANH and the convolution form a cascade, the first
    round finds the TANH table resident (DMA dropped, index 0, LOGISTIC table in slot 1), the convolution empties the
    state, and from the second round on the LOGISTIC table goes to slot 0 and the TANH table to slot 1."""
    import random
    import netgen
    bb = netgen.B(random.Random(5), "lutcascreuse", "int8")
    if pre:
        x0 = bb.input([1, h, w, 4])
        x = bb.conv(x0, c, (3, 3), (1, 1), (1, 1), "SAME", act=0, out_scale=1.0 / 256)
        bb.t(x).zps = [-128]
    else:
        x = bb.input([1, h, w, c], scale=1.0 / 256, zp=-128)
    y = bb.unary("TANH", x)
    l1 = bb.unary("LOGISTIC", y)
    t2 = bb.unary("TANH", l1)
    o = bb.conv(t2, 4, (3, 3), (1, 1), (1, 1), "SAME", act=0)
    return bb.finish([y, o])


def network_witness(ck):
    """-> number of compilations. A stream the tagged-memory Spec (Spec/Mem.lean, `streamcheck`) rejects is a violation,
    under the key of the known finding while lut.py is the variant that has it."""
    import netgen
    import pipeline
    import stream_checks
    jobs = [((64, 64, 32), False, "ethos-u55-64", ["--optimise", "Performance", "--arena-cache-size", "150000"]),
            ((64, 64, 32), True, "ethos-u55-32", ["--optimise", "Size"])]
    if ck.thorough:
        jobs += [((128, 64, 48), False, "ethos-u55-32", ["--optimise", "Performance", "--arena-cache-size", "60000"]),
                 ((128, 64, 48), True, "ethos-u55-64", ["--optimise", "Size"]),
                 ((64, 64, 32), False, "ethos-u55-128", ["--optimise", "Performance", "--arena-cache-size", "150000"]),
                 ((64, 64, 32), True, "ethos-u65-256", ["--optimise", "Size"])]
    n = 0
    for (h, w, c), pre, acc, extra in jobs:
        net = cascade_reuse_net(h, w, c, pre)
        opts = ["--accelerator-config", acc] + extra
        res = pipeline.compile_net(netgen.serialize(net), opts, name="lutcascreuse")
        n += 1
        ck.count("lutstate_network_compilations")
        if res.status != "ok" or res.out_model is None:
            ck.count("lutstate_network_not_compiled")
            continue
        ext, _ = pipeline.extents_from_output(res.out_model)
        lines = [pipeline.stream_line(art, ext) for art in res.streams]
        for si, (line, a) in enumerate(zip(lines, ck.model(lines, parallel=False))):
            ans = stream_checks.parse_answer(a)
            ncasc = sum(len(getattr(art.sg.schedule, "cascades", {})) for art in res.streams if getattr(art, "sg", None) is not None
                        and getattr(art.sg, "schedule", None) is not None)
            ck.count("lutstate_network_cascades", ncasc)
            if ans["decode"] != "ok":
                ck.violation(f"lutstate network witness does not decode: {a[:200]}", {"net": net.describe(), "opts": opts, "verdict": a[:600]})
            elif ans.get("tagged", 0) > 0:
                ck.count("lutstate_network_streams_rejected")
                ck.violation("cascade of table-lookup operations behind an operation with an equal table (TANH -> [LOGISTIC -> TANH -> "
                             f"CONV_2D], {acc} {' '.join(extra)}): {ans['tagged_msgs'][0][:300]}",
                             {"stream": "lutstate-network", "network": net.describe(), "opts": opts, "stream_index": si, "verdict": a[:1500],
                              "how_to_replay": "harness/lutstate_lib.cascade_reuse_net(h, w, c, pre) -> netgen.serialize -> "
                                               "pipeline.compile_net(data, opts) -> pipeline.stream_line -> Lean streamcheck"},
                             key=KEY_REASSIGN if VARIANT[1] == 0 else None)
    return n
