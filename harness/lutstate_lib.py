"""C03 function-level stream: the lookup-table residency pass (ethosu/vela/lut.py) against Model/LutState.lean and
Spec/LutWindow.lean.

A *case* is an abstract high-level command stream:
    {"acc": <Accelerator name>, "tables": [[values_key, dtype_name, n_elements], ...],     # tensor objects, tid = position
     "passes": [tid | None, ...],                                                           # pid = position, its table
     "cmds": [["dma", pid, tid] | ["stripe", pid] | ["other", pid], ...]}
`realise` builds it from the repository's own classes (Operation / Tensor / Pass through pass_packing, DMA / NpuStripe / Box
commands, ArchitectureFeatures), runs the REAL `lut.optimize_high_level_cmd_stream` with a recording subclass of the real
`LUTState` in place (every method call is answered by the real method; the subclass only logs arguments, results and the
tensor list), and reads the final table index / DMA destination through the real `create_npu_activation` / `create_dma_op`.
Nothing here decides anything: the log is compared with the Lean model's log and judged by the Lean Spec."""
import random

KINDS = {  # name -> (DataType attribute, elements)
    "u8x256": ("uint8", 256), "i8x256": ("int8", 256), "i16x256": ("int16", 256), "u8x512": ("uint8", 512),
    "i32x256": ("int32", 256), "i16x512": ("int16", 512), "i32x512": ("int32", 512), "u32x512": ("uint32", 512),
}
KIND_BYTES = {"u8x256": 256, "i8x256": 256, "i16x256": 512, "u8x512": 512, "i32x256": 1024, "i16x512": 1024,
              "i32x512": 2048, "u32x512": 2048}


def table_values(key, n):
    """values every dtype above can hold, a function of (key, n) only: equal keys and element counts give arrays that
    np.array_equal calls equal whatever the dtype"""
    return random.Random(key * 7919 + n).choices(range(128), k=n)


class World:
    pass


def realise(case, repo_mods):
    """Build the real objects of a case. Returns a World (arch, tensors, passes, commands, sg)."""
    m = repo_mods
    w = World()
    w.arch = m.architecture_features.create_default_arch(getattr(m.architecture_features.Accelerator, case["acc"]))
    shape = [1, 1, 1, 1]
    ops, w.tens, w.src = [], [], []
    for ti, (key, kind) in enumerate(case["tables"]):
        dt, n = KINDS[kind]
        w.src.append(m.tensor.create_const_tensor(f"t{ti}_lut", [1, 1, 1, n], getattr(m.data_type.DataType, dt), table_values(key, n),
                                                  m.tensor.TensorPurpose.LUT))
    for pi, tid in enumerate(case["passes"]):
        op = m.testutil.create_elemwise_op(m.operation.Op.Add, f"op{pi}", shape, shape, shape)
        if tid is not None:
            op.set_activation_lut(w.src[tid])
        ops.append(op)
    nng = m.nn_graph.Graph()
    sg = m.testutil.create_subgraph(ops)
    nng.subgraphs.append(sg)
    nng = m.mark_tensors.mark_tensor_purpose(nng, w.arch, False)
    m.rewrite_graph.rewrite_graph_pre_order(nng, sg, w.arch, [], [])
    m.pass_packing.pack_into_passes(nng, w.arch, False)
    # constants get their place in permanent storage (tensor allocation does that in a compilation)
    for ti, src in enumerate(w.src):
        if src.mem_type == m.tensor.MemType.Unknown:     # a table no operator uses
            m.mark_tensors.mark_purpose(src, w.arch, m.tensor.TensorPurpose.LUT)
        src.address = 4096 * ti
    # what scheduler.SchedulerOperation.__init__ does: the operator reads a clone of its table placed in SHRAM; one clone per
    # table object of the case (an operator listed with the same table object shares the clone)
    w.tens = [src.clone_into_shram(w.arch) for src in w.src]
    for op, tid in zip(ops, case["passes"]):
        if tid is not None:
            for idx, tens in enumerate(op.inputs):
                if tens.purpose == m.tensor.TensorPurpose.LUT:
                    w.tens[tid].consumer_list.append(op)
                    op.inputs[idx] = w.tens[tid]
    by_op = {id(ps.primary_op): ps for ps in sg.passes}
    w.ops = ops
    w.passes = [by_op[id(op)] for op in ops]
    hl = m.high_level_command_stream
    w.cmds = []
    for c in case["cmds"]:
        ps = w.passes[c[1]]
        op = ops[c[1]]
        if c[0] == "dma":
            t = w.tens[c[2]]
            w.cmds.append(hl.DMA(ps, w.src[c[2]], t, hl.Box([0, 0, 0, 0], list(t.shape))))
        elif c[0] == "stripe":
            box = hl.Box([0, 0, 0, 0], [1, 1, 1, 1])
            w.cmds.append(hl.NpuStripe(ps, None, True, True, op.ifm, box, op.ofm, box, ifm2_tensor=op.ifm2, ifm2_box=box))
        else:   # a DMA that is not a table load: the second input of the operator copied to itself
            w.cmds.append(hl.DMA(ps, op.ifm2, op.ifm2, hl.Box([0, 0, 0, 0], [1, 1, 1, 1])))
    sg.high_level_command_stream = list(w.cmds)
    w.sg = sg
    return w


def make_spy(lut_mod, w, log):
    """recording subclass of the real LUTState: the real methods do all the work"""
    tid_of = {id(t): i for i, t in enumerate(w.tens)}
    real = lut_mod.LUTState

    def snap(st):
        return " ".join(f"{tid_of.get(id(t), -1)}@{t.address}" for t in st.tensors)

    class Spy(real):
        def __init__(self):
            real.__init__(self)
            log.append("new")

        def get_equivalent(self, lut_tens):
            r = real.get_equivalent(self, lut_tens)
            log.append(f"eq [{snap(self)}] {tid_of.get(id(lut_tens), -1)} -> {'-' if r is None else tid_of.get(id(r), -1)}")
            return r

        def find_best_address(self, start, stop, step):
            r = real.find_best_address(self, start, stop, step)
            log.append(f"fba [{snap(self)}] {start} {stop} {step} -> {r}")
            return r

        def put(self, lut_tens):
            before = snap(self)
            r = real.put(self, lut_tens)
            log.append(f"put [{before}] {tid_of.get(id(lut_tens), -1)}@{lut_tens.address} -> [{snap(r)}]")
            return r
    return Spy


def run_real(case, repo_mods):
    """-> dict(log=[...], kept=[indices of the commands left], addr=[final address per tid | None], idx=[final lut_index
    per pid], npu_idx=[index create_npu_activation programs], dma=[(dest address, length) of the kept table loads],
    sizes=[storage_size per tid], vals=[class of the values per tid], err=str|None)"""
    m = repo_mods
    w = realise(case, m)
    log = []
    old = m.lut.LUTState
    m.lut.LUTState = make_spy(m.lut, w, log)
    err = None
    try:
        m.lut.optimize_high_level_cmd_stream(w.sg, w.arch)
    except AssertionError:
        err = "assert"
    except ValueError:
        err = "value"
    finally:
        m.lut.LUTState = old
    out = {"log": log, "err": err, "sizes": [t.storage_size() for t in w.tens]}
    cls = {}
    out["vals"] = [cls.setdefault((tuple(int(v) for v in t.values.flatten()),), len(cls)) for t in w.tens]
    out["lut_start"] = w.arch.shram_lut_address
    out["lut_size"] = w.arch.shram_lut_size
    out["reserved"] = w.arch.shram_reserved_unused_banks
    if err is None:
        pos = {id(c): i for i, c in enumerate(w.cmds)}
        out["kept"] = [pos[id(c)] for c in w.sg.high_level_command_stream]
        dmaed = {c[2] for c in case["cmds"] if c[0] == "dma"}
        out["addr"] = [int(t.address) if i in dmaed else None for i, t in enumerate(w.tens)]
        out["idx"] = [int(op.activation.lut_index) if op.activation is not None else None for op in w.ops]
        npu_idx, dma = [], []
        for op in w.ops:
            npu_idx.append(int(m.hl2npu.create_npu_activation(op, False).lookup_table_index) if op.activation is not None else None)
        for i in out["kept"]:
            c = case["cmds"][i]
            if c[0] == "dma":
                d = m.hl2npu.create_dma_op(w.cmds[i], w.arch)
                dma.append((i, int(d.dest.region), int(d.dest.address), int(d.dest.length)))
        out["npu_idx"] = npu_idx
        out["dma"] = dma
    return out


def load_repo_mods():
    import types
    from ethosu.vela import (architecture_features, data_type, high_level_command_stream, high_level_command_to_npu_op, lut,
                             mark_tensors, nn_graph, operation, pass_packing, rewrite_graph, tensor)
    from ethosu.vela.test import testutil
    m = types.SimpleNamespace(architecture_features=architecture_features, data_type=data_type,
                              high_level_command_stream=high_level_command_stream, hl2npu=high_level_command_to_npu_op, lut=lut,
                              mark_tensors=mark_tensors, nn_graph=nn_graph, operation=operation, pass_packing=pass_packing,
                              rewrite_graph=rewrite_graph, tensor=tensor, testutil=testutil)
    return m
