"""Generator of TFLite source files for the function-level correspondence of the writer / reader models.

An IR close to the file (tensors with buffer indices, an explicit operator-code table, optional vectors that may be absent,
metadata entries, several subgraphs) + a serialiser built on flatbuffers.Builder and the schema classes shipped in the
tree under test + a random generator biased towards what the writer / reader have to get right: duplicate tensor names,
constants that share a buffer, empty data, omitted operands (−1, also before a real operand), per-axis quantisation,
min / max present or absent, quantized_dimension, scale without zero point, several third-party custom operators (same
builtin code, different custom codes / versions), one builtin operator in several versions, duplicate and unused
operator-code entries, empty / repeated subgraph inputs and outputs, an input that is an output, metadata already in the
input (also `OfflineMemoryAllocation`, entries without name, equal names), scalars, every element type, variable
tensors, tensors nobody references, operators without results, two producers of one tensor, AssignVariable / CallOnce
(virtual outputs), constant / dynamic / absent weights and biases of convolutions and fully-connected operators,
TRANSPOSE_CONV, intermediates, several subgraphs. A separate stream produces malformed files (indices out of range,
unknown codes, wrong data sizes).

Everything random comes from the `random.Random` passed in.
"""
import importlib

import flatbuffers
import numpy as np


def _m(name):
    return importlib.import_module("ethosu.vela.tflite." + name)


# TensorType code -> (name, element size; 0 = no constant data generated)
DTYPES = {0: ("float32", 4), 1: ("float16", 2), 2: ("int32", 4), 3: ("uint8", 1), 4: ("int64", 8), 5: ("string", 1), 6: ("bool", 1),
          7: ("int16", 2), 8: ("complex64", 8), 9: ("int8", 1), 10: ("float64", 8), 11: ("complex128", 16), 12: ("uint64", 8),
          13: ("resource", 0), 14: ("variant", 0), 15: ("uint32", 4), 16: ("uint16", 2), 17: ("int4", 0)}
QUANT_TYPES = [9, 3, 7, 2, 4]


class WT:
    def __init__(self, name, shape, dtype, buffer=0, quant=None, variable=False, shape_signature=None):
        self.name, self.shape, self.dtype, self.buffer, self.quant = name, shape, dtype, buffer, quant
        self.variable, self.shape_signature = variable, shape_signature


class WO:
    def __init__(self, code, inputs, outputs, opts=None, custom_options=None, intermediates=None, custom_format=0, mutating=None):
        self.code, self.inputs, self.outputs, self.opts = code, inputs, outputs, opts
        self.custom_options, self.intermediates, self.custom_format, self.mutating = custom_options, intermediates, custom_format, mutating


class WSG:
    def __init__(self, name=b"main"):
        self.name, self.tensors, self.ops, self.inputs, self.outputs = name, [], [], [], []


class WModel:
    def __init__(self):
        self.buffers = [None]          # bytes | None (no data vector)
        self.codes = []                # (builtin, custom bytes | None, version, deprecated_only)
        self.subgraphs = []
        self.metadata = []             # (name bytes | None, buffer index)
        self.description = b"velaverif wgen"
        self.features = set()


def _vec(b, elem, items, prepend):
    b.StartVector(elem, len(items), elem)
    for x in reversed(items):
        prepend(x)
    return b.EndVector()


def _bytes_vec(b, data, align=16):
    data = bytes(data)
    b.StartVector(1, len(data), align)
    b.head = b.head - len(data)
    b.Bytes[b.head:b.head + len(data)] = data
    return b.EndVector()


def serialize(m):
    b = flatbuffers.Builder(1024)
    BuiltinOptions = _m("BuiltinOptions").BuiltinOptions
    Buffer, Tensor, QP, OperatorCode, Operator, SubGraph, Model, Metadata = (_m(n) for n in (
        "Buffer", "Tensor", "QuantizationParameters", "OperatorCode", "Operator", "SubGraph", "Model", "Metadata"))
    buf_offsets = []
    for d in m.buffers:
        dv = _bytes_vec(b, d) if d is not None else None
        Buffer.Start(b)
        if dv is not None:
            Buffer.AddData(b, dv)
        buf_offsets.append(Buffer.End(b))
    oc_offsets = []
    for builtin, custom, version, dep_only in m.codes:
        ccs = b.CreateString(custom) if custom is not None else None
        OperatorCode.Start(b)
        OperatorCode.AddDeprecatedBuiltinCode(b, min(builtin, 127))
        if not (dep_only and builtin < 127):
            OperatorCode.AddBuiltinCode(b, builtin)
        OperatorCode.AddVersion(b, version)
        if ccs is not None:
            OperatorCode.AddCustomCode(b, ccs)
        oc_offsets.append(OperatorCode.End(b))
    sg_offsets = []
    for sg in m.subgraphs:
        t_offsets = []
        for t in sg.tensors:
            name = b.CreateString(t.name) if t.name is not None else None
            shape = _vec(b, 4, t.shape, b.PrependInt32) if t.shape is not None else None
            sig = _vec(b, 4, t.shape_signature, b.PrependInt32) if t.shape_signature is not None else None
            q = None
            if t.quant is not None:
                qq = t.quant
                mn = _vec(b, 4, qq["min"], b.PrependFloat32) if qq.get("min") is not None else None
                mx = _vec(b, 4, qq["max"], b.PrependFloat32) if qq.get("max") is not None else None
                sc = _vec(b, 4, qq["scale"], b.PrependFloat32) if qq.get("scale") is not None else None
                zp = _vec(b, 8, qq["zp"], b.PrependInt64) if qq.get("zp") is not None else None
                QP.Start(b)
                if mn is not None:
                    QP.AddMin(b, mn)
                if mx is not None:
                    QP.AddMax(b, mx)
                if sc is not None:
                    QP.AddScale(b, sc)
                if zp is not None:
                    QP.AddZeroPoint(b, zp)
                QP.AddQuantizedDimension(b, qq.get("qdim", 0))
                q = QP.End(b)
            Tensor.Start(b)
            if shape is not None:
                Tensor.AddShape(b, shape)
            Tensor.AddType(b, t.dtype)
            Tensor.AddBuffer(b, t.buffer)
            if name is not None:
                Tensor.AddName(b, name)
            if q is not None:
                Tensor.AddQuantization(b, q)
            if t.variable:
                Tensor.AddIsVariable(b, True)
            if sig is not None:
                Tensor.AddShapeSignature(b, sig)
            t_offsets.append(Tensor.End(b))
        op_offsets = []
        for o in sg.ops:
            opt_off, opt_type = None, 0
            if o.opts is not None:
                oname, fields = o.opts
                mod = _m(oname)
                pre = {}
                for k, v in fields.items():
                    if isinstance(v, (list, tuple)):
                        pre[k] = _vec(b, 4, list(v), b.PrependInt32)
                    elif isinstance(v, bytes):
                        pre[k] = b.CreateString(v)
                mod.Start(b)
                for k, v in fields.items():
                    getattr(mod, "Add" + k)(b, pre.get(k, v))
                opt_off = mod.End(b)
                opt_type = getattr(BuiltinOptions, oname)
            co = _bytes_vec(b, o.custom_options, 1) if o.custom_options is not None else None
            ins = _vec(b, 4, o.inputs, b.PrependInt32) if o.inputs is not None else None
            outs = _vec(b, 4, o.outputs, b.PrependInt32) if o.outputs is not None else None
            im = _vec(b, 4, o.intermediates, b.PrependInt32) if o.intermediates is not None else None
            mu = _vec(b, 1, o.mutating, b.PrependBool) if o.mutating is not None else None
            Operator.Start(b)
            Operator.AddOpcodeIndex(b, o.code)
            if ins is not None:
                Operator.AddInputs(b, ins)
            if outs is not None:
                Operator.AddOutputs(b, outs)
            if opt_off is not None:
                Operator.AddBuiltinOptionsType(b, opt_type)
                Operator.AddBuiltinOptions(b, opt_off)
            if co is not None:
                Operator.AddCustomOptions(b, co)
            if o.custom_format:
                Operator.AddCustomOptionsFormat(b, o.custom_format)
            if mu is not None:
                Operator.AddMutatingVariableInputs(b, mu)
            if im is not None:
                Operator.AddIntermediates(b, im)
            op_offsets.append(Operator.End(b))
        tv = _vec(b, 4, t_offsets, b.PrependUOffsetTRelative)
        iv = _vec(b, 4, sg.inputs, b.PrependInt32) if sg.inputs is not None else None
        ov = _vec(b, 4, sg.outputs, b.PrependInt32) if sg.outputs is not None else None
        opv = _vec(b, 4, op_offsets, b.PrependUOffsetTRelative)
        nm = b.CreateString(sg.name) if sg.name is not None else None
        SubGraph.Start(b)
        SubGraph.AddTensors(b, tv)
        if iv is not None:
            SubGraph.AddInputs(b, iv)
        if ov is not None:
            SubGraph.AddOutputs(b, ov)
        SubGraph.AddOperators(b, opv)
        if nm is not None:
            SubGraph.AddName(b, nm)
        sg_offsets.append(SubGraph.End(b))
    md_offsets = []
    for name, bi in m.metadata:
        nm = b.CreateString(name) if name is not None else None
        Metadata.Start(b)
        if nm is not None:
            Metadata.AddName(b, nm)
        Metadata.AddBuffer(b, bi)
        md_offsets.append(Metadata.End(b))
    sgv = _vec(b, 4, sg_offsets, b.PrependUOffsetTRelative)
    ocv = _vec(b, 4, oc_offsets, b.PrependUOffsetTRelative)
    bv = _vec(b, 4, buf_offsets, b.PrependUOffsetTRelative)
    mdv = _vec(b, 4, md_offsets, b.PrependUOffsetTRelative) if m.metadata else None
    desc = b.CreateString(m.description) if m.description is not None else None
    Model.Start(b)
    Model.AddVersion(b, 3)
    Model.AddOperatorCodes(b, ocv)
    Model.AddSubgraphs(b, sgv)
    if desc is not None:
        Model.AddDescription(b, desc)
    Model.AddBuffers(b, bv)
    if mdv is not None:
        Model.AddMetadata(b, mdv)
    mo = Model.End(b)
    b.Finish(mo, b"TFL3")
    return bytes(b.Output())


# ------------------------------------------------------------------------------------------------
# random source files

BO = None


def _bo():
    global BO
    if BO is None:
        BO = _m("BuiltinOperator").BuiltinOperator
    return BO


NAME_PARTS = [b"a", b"b", b"t", b"x", b"_", b"0", b"1", b"10", b"2", b"Z", b":", b"/", "é".encode(), b"w", b"out"]


class G:
    def __init__(self, rng, idx):
        self.rng, self.idx = rng, idx
        self.m = WModel()
        self.names = []

    def f(self, name):
        self.m.features.add(name)

    # ---- pieces
    def name(self):
        rng = self.rng
        if self.names and rng.random() < 0.12:
            self.f("duplicate_names")
            return rng.choice(self.names)
        n = b"".join(rng.choice(NAME_PARTS) for _ in range(rng.randint(1, 3))) + (b"_%d" % len(self.names) if rng.random() < 0.7 else b"")
        if n in self.names:
            self.f("duplicate_names")
        self.names.append(n)
        return n

    def code(self, builtin, custom=None, version=1):
        rng = self.rng
        key = (int(builtin), custom, version, False)
        if key in self.m.codes and rng.random() < 0.9:
            return self.m.codes.index(key)
        if key in self.m.codes:
            self.f("duplicate_opcode_entries")
        if rng.random() < 0.08 and builtin < 127 and builtin != 0:
            key = (int(builtin), custom, version, True)
            self.f("deprecated_code_only")
        self.m.codes.append(key)
        return len(self.m.codes) - 1

    def buffer(self, data):
        rng = self.rng
        if data is not None and rng.random() < 0.15:
            for i, d in enumerate(self.m.buffers):
                if d == data and i != 0:
                    self.f("shared_buffer")
                    return i
        self.m.buffers.append(data)
        return len(self.m.buffers) - 1

    def quant(self, dtype, channels=None):
        rng = self.rng
        r = rng.random()
        if dtype not in QUANT_TYPES:
            if r < 0.1:
                self.f("min_max_without_scale")
                return {"min": [-1.0], "max": [1.0]}
            if r < 0.15:
                self.f("empty_quant_table")
                return {}
            return None
        if r < 0.1:
            return None
        n = channels if (channels and rng.random() < 0.6) else 1
        if n > 1:
            self.f("per_axis_quantisation")
        q = {"scale": [float(np.float32(rng.choice([0.5, 0.25, 0.003921, 1.0, 0.1, 2 ** -rng.randint(1, 20)]))) for _ in range(n)],
             "zp": [rng.choice([0, 0, 0, 1, -1, 127, -128, 3]) for _ in range(n)]}
        if rng.random() < 0.5:
            q["qdim"] = rng.choice([0, 3, 1]) if n > 1 else rng.choice([0, 0, 2])
            if q["qdim"]:
                self.f("quantized_dimension_nonzero")
        if rng.random() < 0.35:
            self.f("quant_min_max")
            q["min"] = [float(np.float32(-s * 128)) for s in q["scale"]]
            q["max"] = [float(np.float32(s * 127)) for s in q["scale"]]
            if rng.random() < 0.3:
                del q[rng.choice(["min", "max"])]
                self.f("quant_only_min_or_max")
        r = rng.random()
        if r < 0.08:
            del q["zp"]
            self.f("scale_without_zero_point")
        elif r < 0.12:
            del q["scale"]
            self.f("zero_point_without_scale")
        elif r < 0.15:
            q["scale"], q["zp"] = [], []
            self.f("empty_quant_vectors")
        return q

    def tensor(self, sg, shape=None, dtype=None, const=False, variable=False, channels=None, quant="auto"):
        rng = self.rng
        if dtype is None:
            dtype = rng.choice([9, 9, 9, 3, 7, 2, 0, 0, 4, 6]) if rng.random() < 0.85 else rng.choice(sorted(DTYPES))
        if shape is None:
            r = rng.random()
            if r < 0.1:
                shape = []
                self.f("scalar_tensor")
            else:
                shape = [rng.choice([1, 1, 2, 3, 4, 8]) for _ in range(rng.choice([1, 2, 3, 4, 4, 4, 5]))]
                if const and rng.random() < 0.04:
                    shape[rng.randrange(len(shape))] = 0
        buf = 0
        if const and DTYPES[dtype][1]:
            n = int(np.prod(shape)) if shape else 1
            if DTYPES[dtype][0] == "string":
                data = bytes(rng.getrandbits(8) for _ in range(rng.randint(1, 12)))
            else:
                data = bytes(rng.getrandbits(8) if rng.random() < 0.5 else 1 for _ in range(n * DTYPES[dtype][1]))
            if n == 0:
                data = b""
                self.f("empty_constant_data")
            buf = self.buffer(data)
        elif rng.random() < 0.06:
            buf = self.buffer(None if rng.random() < 0.5 else b"")
            self.f("own_empty_buffer")
        q = self.quant(dtype, channels) if quant == "auto" else quant
        t = WT(self.name(), shape, dtype, buf, q, variable)
        r = rng.random()
        if r < 0.03:
            t.name = None
            self.f("tensor_without_name")
        elif r < 0.06 and not shape:
            t.shape = None
            self.f("scalar_without_shape_vector")
        elif r < 0.09:
            t.shape_signature = list(shape)
            self.f("shape_signature")
        sg.tensors.append(t)
        self.f("dtype_" + DTYPES[dtype][0])
        return len(sg.tensors) - 1

    # ---- operators
    def pick_in(self, sg, acts):
        return self.rng.choice(acts) if acts else self.tensor(sg)

    def add_op(self, sg, acts, consts):
        rng = self.rng
        BO = _bo()
        kind = rng.choice(["binary", "binary", "unary", "unary_v", "reshape", "custom", "custom", "conv", "dw", "fc", "tconv", "softmax",
                           "concat", "split", "cast", "lstm", "svdf", "dequant", "assign", "callonce", "noout"])
        x = self.pick_in(sg, acts)
        xt = sg.tensors[x]
        out = lambda **kw: self.tensor(sg, shape=kw.pop("shape", list(xt.shape or [])), dtype=kw.pop("dtype", xt.dtype), **kw)  # noqa: E731
        if kind == "binary":
            y = self.pick_in(sg, acts + consts) if rng.random() < 0.8 else x
            if y == x:
                self.f("duplicated_operand")
            which = rng.choice(["ADD", "SUB", "MUL", "MAXIMUM"])
            opts = ("MaximumMinimumOptions", {}) if which == "MAXIMUM" else (which.capitalize() + "Options", {"FusedActivationFunction": rng.choice([0, 1, 3])})
            if rng.random() < 0.15:
                opts = None
                self.f("no_option_table")
            o = out()
            sg.ops.append(WO(self.code(getattr(BO, which), version=rng.choice([1, 1, 2, 3])), [x, y], [o], opts))
            return [o]
        if kind == "unary":
            o = out()
            sg.ops.append(WO(self.code(getattr(BO, rng.choice(["LOGISTIC", "TANH", "RELU", "ABS", "NEG", "FLOOR", "RSQRT"]))), [x], [o]))
            return [o]
        if kind == "unary_v":
            o = out()
            which = rng.choice(["QUANTIZE", "DEQUANTIZE"])
            v = rng.choice([1, 2, 3])
            self.f("same_builtin_several_versions")
            sg.ops.append(WO(self.code(getattr(BO, which), version=v), [x], [o], (which.capitalize() + "Options", {})))
            return [o]
        if kind == "dequant":
            o = out(dtype=0)
            sg.ops.append(WO(self.code(BO.DEQUANTIZE, version=rng.choice([1, 2, 5])), [x], [o], ("DequantizeOptions", {})))
            return [o]
        if kind == "reshape":
            n = int(np.prod(xt.shape or []))
            shp = [n] if rng.random() < 0.5 else [1, n]
            o = out(shape=shp)
            ins = [x]
            if rng.random() < 0.7:
                st = self.tensor(sg, shape=[len(shp)], dtype=2, const=False, quant=None)
                sg.tensors[st].buffer = self.buffer(np.array(shp, np.int32).tobytes())
                ins.append(st)
            sg.ops.append(WO(self.code(BO.RESHAPE), ins, [o], ("ReshapeOptions", {"NewShape": shp}) if rng.random() < 0.8 else None))
            return [o]
        if kind == "custom":
            cc = rng.choice([b"FooOp", b"BarOp", b"ThirdParty", b"ethos-u2", b"", "Ünï".encode(), b"foo", b"Foo"])
            self.f("third_party_custom")
            nin, nout = rng.randint(0, 4), rng.randint(0 if rng.random() < 0.2 else 1, 3)
            ins = [self.pick_in(sg, acts + consts) if rng.random() < 0.8 else -1 for _ in range(nin)]
            if -1 in ins[:-1] and any(i >= 0 for i in ins[ins.index(-1):]):
                self.f("omitted_operand_before_real_operand")
            outs = [self.tensor(sg) for _ in range(nout)]
            if nout == 0:
                self.f("operator_without_results")
            co = bytes(rng.getrandbits(8) for _ in range(rng.randint(0, 10))) if rng.random() < 0.85 else None
            if co is None:
                self.f("custom_options_absent")
            sg.ops.append(WO(self.code(BO.CUSTOM, cc if rng.random() < 0.95 else None, rng.choice([1, 1, 2])), ins, outs, None, co,
                             custom_format=0))
            return outs
        if kind in ("conv", "dw", "fc", "tconv"):
            return self.conv_like(sg, acts, kind, x)
        if kind == "softmax":
            o = out()
            sg.ops.append(WO(self.code(BO.SOFTMAX), [x], [o], ("SoftmaxOptions", {"Beta": 1.0})))
            return [o]
        if kind == "concat":
            ins = [x] + [self.pick_in(sg, acts) for _ in range(rng.randint(0, 3))]
            o = out()
            sg.ops.append(WO(self.code(BO.CONCATENATION), ins, [o], ("ConcatenationOptions", {"Axis": 0, "FusedActivationFunction": 0})))
            return [o]
        if kind == "split":
            ax = self.tensor(sg, shape=[], dtype=2, const=True, quant=None)
            outs = [out() for _ in range(rng.randint(1, 3))]
            self.f("multiple_results")
            sg.ops.append(WO(self.code(BO.SPLIT), [ax, x], outs, ("SplitOptions", {"NumSplits": len(outs)})))
            return outs
        if kind == "cast":
            o = out(dtype=rng.choice([0, 2, 4, 6, 9]), quant=None)
            opts = ("CastOptions", {"InDataType": xt.dtype, "OutDataType": sg.tensors[o].dtype}) if rng.random() < 0.7 else ("CastOptions", {})
            sg.ops.append(WO(self.code(BO.CAST), [x], [o], opts))
            return [o]
        if kind == "lstm":
            # UNIDIRECTIONAL_SEQUENCE_LSTM: 24 operands, most optional, 5 intermediates
            ins = [x] + [self.pick_in(sg, consts + acts) if rng.random() < 0.5 else -1 for _ in range(23)]
            self.f("omitted_operand_before_real_operand")
            im = [self.tensor(sg) for _ in range(rng.choice([0, 5]))]
            if im:
                self.f("intermediates")
            o = out()
            sg.ops.append(WO(self.code(BO.UNIDIRECTIONAL_SEQUENCE_LSTM), ins, [o],
                             ("UnidirectionalSequenceLSTMOptions", {"FusedActivationFunction": 4, "TimeMajor": True}), intermediates=im if im or rng.random() < 0.5 else None))
            return [o]
        if kind == "svdf":
            wf, wt_ = self.tensor(sg, const=True, dtype=xt.dtype), self.tensor(sg, const=True, dtype=xt.dtype)
            st = self.tensor(sg, variable=True, dtype=xt.dtype)
            self.f("variable_tensor")
            self.f("omitted_operand_before_real_operand")
            o = out()
            sg.ops.append(WO(self.code(BO.SVDF), [x, wf, wt_, -1, st], [o], ("SVDFOptions", {"Rank": 1, "FusedActivationFunction": 0})))
            return [o]
        if kind == "assign":
            r = self.tensor(sg, shape=[], dtype=13, quant=None)
            sg.ops.append(WO(self.code(BO.VAR_HANDLE), [], [r], ("VarHandleOptions", {"Container": b"c", "SharedName": b"v%d" % len(sg.ops)})))
            sg.ops.append(WO(self.code(BO.ASSIGN_VARIABLE), [r, x], [], ("AssignVariableOptions", {})))
            self.f("assign_variable")
            o = out()
            sg.ops.append(WO(self.code(BO.READ_VARIABLE), [r], [o], ("ReadVariableOptions", {})))
            return [o]
        if kind == "callonce":
            if len(self.m.subgraphs) < 2:
                return []
            sg.ops.append(WO(self.code(BO.CALL_ONCE), [], [], ("CallOnceOptions", {"InitSubgraphIndex": len(self.m.subgraphs) - 1})))
            self.f("call_once")
            return []
        # an operator that writes nothing / writes a tensor somebody else already wrote
        prev = [o for op in sg.ops for o in (op.outputs or []) if o >= 0]
        if prev and rng.random() < 0.5:
            self.f("two_producers_of_one_tensor")
            sg.ops.append(WO(self.code(BO.NEG), [x], [rng.choice(prev)]))
            return []
        self.f("operator_without_results")
        sg.ops.append(WO(self.code(BO.CUSTOM, b"Sink", 1), [x], [], None, b"\x01"))
        return []

    def conv_like(self, sg, acts, kind, x):
        rng = self.rng
        BO = _bo()
        xt = sg.tensors[x]
        wd = xt.dtype if xt.dtype in (9, 3, 0) else 9
        oc = rng.choice([1, 2, 4])
        if kind == "fc":
            wshape = [oc, rng.choice([1, 2, 4])]
        elif kind == "dw":
            wshape = [1, rng.choice([1, 3]), rng.choice([1, 3]), oc]
        else:
            wshape = [oc, rng.choice([1, 3]), rng.choice([1, 3]), rng.choice([1, 2])]
        r = rng.random()
        if r < 0.6:
            w = self.tensor(sg, shape=wshape, dtype=wd, const=True, channels=oc)
            self.f("constant_weights")
        elif r < 0.85:
            w = self.pick_in(sg, acts)
            self.f("dynamic_weights")
        else:
            w = self.tensor(sg, shape=wshape, dtype=wd, const=False)
            self.f("dynamic_weights")
        r = rng.random()
        bias = None
        if r < 0.5:
            bias = self.tensor(sg, shape=[oc], dtype=2 if wd != 0 else 0, const=True, channels=oc)
            self.f("constant_bias")
        elif r < 0.65:
            bias = -1
            self.f("bias_minus1")
        elif r < 0.8:
            bias = self.pick_in(sg, acts)
            self.f("dynamic_bias")
        else:
            self.f("bias_left_out")
        o = self.tensor(sg, dtype=xt.dtype)
        act = rng.choice([0, 1, 3])
        if kind == "conv":
            ins = [x, w] + ([bias] if bias is not None else [])
            sg.ops.append(WO(self.code(BO.CONV_2D, version=rng.choice([1, 3])), ins, [o], ("Conv2DOptions", dict(
                Padding=rng.choice([0, 1]), StrideW=1, StrideH=rng.choice([1, 2]), DilationWFactor=1, DilationHFactor=1, FusedActivationFunction=act))))
        elif kind == "dw":
            ins = [x, w] + ([bias] if bias is not None else [])
            sg.ops.append(WO(self.code(BO.DEPTHWISE_CONV_2D), ins, [o], ("DepthwiseConv2DOptions", dict(
                Padding=0, StrideW=1, StrideH=1, DepthMultiplier=rng.choice([1, 1, 2]), DilationWFactor=1, DilationHFactor=1, FusedActivationFunction=act))))
        elif kind == "fc":
            ins = [x, w] + ([bias] if bias is not None else [])
            sg.ops.append(WO(self.code(BO.FULLY_CONNECTED, version=rng.choice([1, 2, 4])), ins, [o], ("FullyConnectedOptions", dict(FusedActivationFunction=act))))
        else:
            osz = self.tensor(sg, shape=[4], dtype=2, const=True, quant=None)
            ins = [osz, w, x] + ([bias] if bias is not None else [])
            self.f("transpose_conv")
            sg.ops.append(WO(self.code(BO.TRANSPOSE_CONV, version=rng.choice([1, 3])), ins, [o], ("TransposeConvOptions", dict(Padding=0, StrideW=2, StrideH=2))))
        return [o]

    def subgraph(self, nops):
        rng = self.rng
        sg = WSG(rng.choice([b"main", b"sg", b"", None]))
        self.m.subgraphs.append(sg)
        acts = [self.tensor(sg) for _ in range(rng.randint(0, 3))]
        ins0 = list(acts)
        consts = [self.tensor(sg, const=True) for _ in range(rng.randint(0, 3))]
        if rng.random() < 0.25:
            v = self.tensor(sg, variable=True)
            self.f("variable_tensor")
            if rng.random() < 0.5:
                acts.append(v)
        for _ in range(rng.randint(0, 2)):
            self.tensor(sg, const=rng.random() < 0.5)
            self.f("unreferenced_tensor")
        produced = []
        for _ in range(nops):
            outs = self.add_op(sg, acts, consts)
            acts += outs
            produced += outs
        # inputs
        ins = [t for t in ins0 if rng.random() < 0.9]
        if consts and rng.random() < 0.15:
            ins.append(rng.choice(consts))
            self.f("constant_subgraph_input")
        if ins and rng.random() < 0.15:
            ins.append(rng.choice(ins))
            self.f("repeated_subgraph_input")
        rng.shuffle(ins)
        outs = [t for t in produced if rng.random() < 0.4] or produced[-1:]
        if ins and rng.random() < 0.15:
            outs.append(rng.choice(ins))
            self.f("input_is_output")
        if outs and rng.random() < 0.2:
            outs.append(rng.choice(outs))
            self.f("repeated_subgraph_output")
        if rng.random() < 0.07:
            outs = []
            self.f("empty_subgraph_outputs")
        if not ins:
            self.f("empty_subgraph_inputs")
        sg.inputs, sg.outputs = ins, outs
        return sg

    def metadata(self):
        rng = self.rng
        for _ in range(rng.choice([0, 0, 1, 2, 3])):
            name = rng.choice([b"min_runtime_version", b"OfflineMemoryAllocation", b"vela_version", b"custom_meta", None, b""])
            if name == b"OfflineMemoryAllocation":
                self.f("offline_allocation_in_input")
                data = np.array([0, 1, 2, -1, 64], np.int32).tobytes()
            elif name is None:
                self.f("metadata_without_name")
                data = b"zz"
            else:
                data = rng.choice([b"1.5.0\x00\x00\x00", b"", None, bytes(range(40))])
            if any(n == name for n, _ in self.m.metadata):
                self.f("metadata_equal_names")
            self.f("metadata_in_input")
            bi = self.buffer(data) if rng.random() < 0.9 else 0
            self.m.metadata.append((name, bi))

    def malform(self):
        """one defect that makes the reader raise"""
        rng = self.rng
        m = self.m
        sg = rng.choice(m.subgraphs)
        which = rng.choice(["tensor_index", "opcode_index", "buffer_index", "unknown_builtin", "unknown_dtype", "data_size", "io_index",
                            "no_inputs_vector", "no_outputs_vector", "meta_buffer", "produced_input", "op_no_inputs_vector",
                            "weights_minus1", "result_minus1", "weights_rank"])
        self.f("malformed_" + which)
        ops = [o for o in sg.ops]
        if which == "tensor_index" and ops:
            o = rng.choice(ops)
            if o.inputs:
                o.inputs[rng.randrange(len(o.inputs))] = rng.choice([len(sg.tensors), len(sg.tensors) + 5, -len(sg.tensors) - 1])
            else:
                o.outputs = [len(sg.tensors)]
        elif which == "opcode_index" and ops:
            rng.choice(ops).code = len(m.codes) + rng.randint(0, 2)
        elif which == "buffer_index" and sg.tensors:
            rng.choice(sg.tensors).buffer = len(m.buffers) + 1
        elif which == "unknown_builtin":
            m.codes.append((rng.choice([250, 300, 1000]), None, 1, False))
            if ops:
                rng.choice(ops).code = len(m.codes) - 1
        elif which == "unknown_dtype" and sg.tensors:
            rng.choice(sg.tensors).dtype = rng.choice([18, 19, 40])
        elif which == "data_size":
            cs = [t for t in sg.tensors if t.buffer and m.buffers[t.buffer] and DTYPES.get(t.dtype, ("", 0))[0] != "string"]
            if cs:
                t = rng.choice(cs)
                t.buffer = self.buffer(m.buffers[t.buffer] + b"\x00" * rng.choice([1, DTYPES[t.dtype][1]]))
        elif which == "io_index":
            (sg.inputs if rng.random() < 0.5 else sg.outputs).append(rng.choice([len(sg.tensors), -len(sg.tensors) - 1]))
        elif which == "no_inputs_vector":
            sg.inputs = None
        elif which == "no_outputs_vector":
            sg.outputs = None
        elif which == "meta_buffer":
            m.metadata.append((b"broken", len(m.buffers) + 3))
        elif which == "produced_input":
            prod = [o for op in sg.ops for o in (op.outputs or []) if o >= 0]
            if prod:
                sg.inputs.append(rng.choice(prod))
        elif which in ("weights_minus1", "weights_rank"):
            BO = _bo()
            x = self.tensor(sg, shape=[1, 4, 4, 2], dtype=9)
            if which == "weights_minus1":
                w = -1
            else:
                rank = rng.choice([1, 2, 3, 5])
                w = self.tensor(sg, shape=[2] * rank, dtype=9, const=True, quant=None)
            o = self.tensor(sg, shape=[1, 4, 4, 2], dtype=9)
            sg.ops.append(WO(self.code(BO.CONV_2D), [x, w], [o], ("Conv2DOptions", dict(Padding=0, StrideW=1, StrideH=1, DilationWFactor=1,
                                                                                      DilationHFactor=1, FusedActivationFunction=0))))
        elif which == "result_minus1" and ops:
            o = rng.choice(ops)
            o.outputs = list(o.outputs or []) + [-1]
        elif which == "op_no_inputs_vector" and ops:
            o = rng.choice(ops)
            if rng.random() < 0.5:
                o.inputs = None
            else:
                o.outputs = None


def random_model(rng, idx, malformed=False):
    g = G(rng, idx)
    nsg = 1 if rng.random() < 0.8 else rng.randint(2, 3)
    if nsg > 1:
        g.f("several_subgraphs")
    sizes = [rng.choice([0, 1, 2, 3, 5, 8]) for _ in range(nsg)]
    for k in range(nsg):
        g.subgraph(sizes[k])
    if nsg > 1 and rng.random() < 0.6:
        # CALL_ONCE in the main graph initialising the last subgraph
        BO = _bo()
        g.m.subgraphs[0].ops.append(WO(g.code(BO.CALL_ONCE), [], [], ("CallOnceOptions", {"InitSubgraphIndex": nsg - 1})))
        g.f("call_once")
    if rng.random() < 0.1:
        g.m.codes.append((int(_bo().MEAN), None, 1, False))
        g.f("unused_opcode_entry")
    g.metadata()
    if rng.random() < 0.1:
        g.m.description = None
    if malformed:
        g.malform()
    return g.m
