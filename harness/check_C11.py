#!/venv/bin/python
"""C11 — model interface and CPU-resident operators are preserved verbatim.

For every generated (network, configuration) that compiles: source and output file are dumped with the plain
flatbuffer walker (harness/fbwalk.py, harness/preserve_dump.py) and the Lean Spec checker
`VelaVerif.Preserve.check` gives the verdict (interface, preserved operators, coverage of the source,
topological order, well-formedness). The output file is additionally parsed with Vela's own reader in-process
and the two views of the file are compared by the Lean `reread` request. The operand-index alignment of
reader/writer is modelled in Lean (Model/OpIndices.lean), proved to round-trip over the regenerated index
tables (Props/C11.lean) and compared with the real `align_inputs_indices` on random index triples; the writer's
tensor order model is compared with Python's `sorted` on (name, index) keys."""
import base64
import os
import random
import re
import tempfile
import traceback
import zlib
from concurrent.futures import ProcessPoolExecutor
import multiprocessing

import common
import fbwalk
import pipe_common
import pipeline
from common import Check, main_wrapper

# gen2:<p> = the OUTPUT of profile <p> is compiled again (same or other options, sometimes a third time; harness/regen.py):
# interface and CPU operators of the FIRST source must still be preserved in the final file, and the Ethos-U operators of the first
# output must be passed through verbatim (Lean `ethosuverbatim`)
PROFILES = ["c11", "c11", "cpu", "c11", "mixed", "c11", "weird", "c11"]
GEN2_PROFILES = ["gen2:c11", "gen2:mixed", "gen2:c11", "gen2:cpu"]      # run in addition (n // 4), the population above is unchanged


# ------------------------------------------------------------------------------------------------
# worker: generate, compile, dump


def net_features(net):
    f = set(getattr(net, "features", ()))
    if len(net.outputs) > 1:
        f.add("multiple_outputs")
    if len(net.inputs) > 1:
        f.add("multiple_inputs")
    for o in net.ops:
        present = [i for i in o.inputs if i >= 0]
        if len(set(present)) < len(present):
            f.add("duplicated_operand")
        if o.kind == "CUSTOM":
            f.add("third_party_custom")
            if o.custom_options:
                f.add("custom_options_nonempty")
        if o.kind in ("CONV_2D", "DEPTHWISE_CONV_2D", "FULLY_CONNECTED") and len(o.inputs) > 1 and net.tensors[o.inputs[1]].data is None:
            f.add("dynamic_weights")
        if o.version > 1:
            f.add("operator_version_gt1")
        if -1 in o.inputs:
            f.add("optional_operand_minus1")
        for i in present + list(o.outputs):
            t = net.tensors[i]
            if t.dtype == "float32":
                f.add("float_tensors")
            elif t.dtype in ("int32", "int64", "bool") and t.data is None:
                f.add("unsupported_dtype_" + t.dtype)
            if len(t.shape) > 4:
                f.add("unsupported_rank_gt4")
            if len(t.shape) == 4 and t.shape[0] > 1 and t.data is None:
                f.add("unsupported_batch_gt1")
    return sorted(f)


def make_job_net(rng, idx, profile):
    import preserve_gen

    if profile == "c11":
        return preserve_gen.c11_net(rng, idx)
    return pipe_common.make_net(rng, idx, profile)


def unhex(text):
    """tensor names travel as hex through the Lean side; readable form for a message"""
    def f(m):
        try:
            return "'" + bytes.fromhex(m.group(0)).decode("utf-8") + "'"
        except Exception:  # noqa: B902
            return m.group(0)
    return re.sub(r"\b(?:[0-9a-f]{2}){4,}\b", f, text)


def plan_offsets(model_bytes):
    """arena offset per tensor index of subgraph 0, one list per OfflineMemoryAllocation entry of the file (plain walker)"""
    import struct

    m = fbwalk.parse(model_bytes)
    n = len(m["subgraphs"][0]["tensors"])
    out = []
    for name, b in m["metadata_list"]:
        if name == "OfflineMemoryAllocation":
            raw = m["buffers"][b] or b""
            vals = struct.unpack("<%di" % (len(raw) // 4), raw[:len(raw) // 4 * 4])
            out.append(list(vals[3:3 + n]))
    return out


def verbatim_line(first_out, final_out):
    """`ethosuverbatim` request: the compiled input of the later generations against the final file (same graph tokens as
    `preserve`), plus the arena offsets the two files assign"""
    import preserve_dump

    line = "ethosuverbatim" + preserve_dump.preserve_line(first_out, final_out)[0][len("preserve"):]
    sp, op = plan_offsets(first_out), plan_offsets(final_out)
    if sp:
        line += " s.plan=" + ",".join(map(str, sp[-1])) + " o.plans=" + ";".join(",".join(map(str, p)) for p in op)
    return line


def _worker(job):
    seed, idx, profile = job
    import netgen
    import preserve_dump

    gen2 = profile.startswith("gen2:")
    base = profile.split(":", 1)[1] if gen2 else profile
    rng = random.Random((seed << 20) ^ (idx * 7919) ^ zlib.crc32(base.encode()))
    out = {"idx": idx, "profile": profile, "seed": seed}
    try:
        net = make_job_net(rng, idx, base)
        if base.startswith("sweep:"):
            import sweep

            opts = sweep.config(rng, base, idx)
        else:
            opts = pipe_common.sample_config(rng, "mixed" if base == "c11" else base)
        if rng.random() < 0.1:
            opts.append("--force-symmetric-int-weights")
        for e in getattr(net, "extra_opts", []):
            # options a generated case asks for (--force-symmetric-int-weights for CPU-resident convolutions with asymmetric weights);
            # left out now and then: the same network without the option is the control
            if e not in opts and rng.random() < 0.85:
                opts.append(e)
        data = netgen.serialize(net)
        out.update(desc=net.describe(), opts=opts, features=net_features(net), src_model=data)
        import writer_stage
        import wtree

        with writer_stage.capture() as cap:      # the graph as it is right before tflite_writer.write_tflite runs
            res = pipeline.compile_net(data, opts, name=f"n{idx}", introspect=False)
        if cap.error:
            out["wdesc_error"] = cap.error
        first_out = res.out_model
        if cap.desc is not None and res.status == "ok" and res.out_model is not None:
            # writer model against the file of THIS (first) compilation
            out["wdesc"] = cap.desc
            out["wtree"] = wtree.text(wtree.walk(first_out))
        if gen2 and res.status == "ok" and res.out_model is not None:
            import regen

            # second (third) generation: `res` becomes the result of the last compilation, `first_out` stays the first output
            res = regen.recompile(out, rng, res, opts, "mixed" if base == "c11" else base, f"n{idx}", {}, introspect=False)
        out.update(status=res.status, exc=(type(res.exc).__name__ + ": " + str(res.exc))[:300] if res.exc is not None else "",
                   exc_site=pipe_common.exc_site(res.tb, res.exc), stdout_tail=res.stdout[-300:])
        if res.status == "ok" and res.out_model is not None:
            out["out_model"] = res.out_model
            line, _s, o = preserve_dump.preserve_line(data, res.out_model)
            out["line"] = line
            if gen2 and out.get("gen_count", 1) > 1:
                # the compiled input of the later generations against the final file (same graph tokens, other request)
                out["verbatim_line"] = verbatim_line(first_out, res.out_model)
            out["walker_view"] = preserve_dump.walker_view(o)
            d = tempfile.mkdtemp(prefix="velaverif_rr_")
            p = os.path.join(d, "out.tflite")
            try:
                with open(p, "wb") as f:
                    f.write(res.out_model)
                import contextlib
                import io

                with contextlib.redirect_stdout(io.StringIO()):
                    out["vela_view"] = preserve_dump.vela_view(p)
            except BaseException as e:  # noqa: B902  the reader calls sys.exit on malformed files
                out["reread_error"] = type(e).__name__ + ": " + str(e)[:200] + " | " + traceback.format_exc()[-600:]
            finally:
                import shutil

                shutil.rmtree(d, ignore_errors=True)
        pipeline.reset_process_state()
    except BaseException:  # noqa: B902
        out["harness_exception"] = traceback.format_exc()[-2000:]
    return out


def run_jobs(jobs_list):
    pipeline.load_vela()
    ctx = multiprocessing.get_context("fork")
    with ProcessPoolExecutor(min(16, os.cpu_count() or 4), mp_context=ctx) as ex:
        return list(ex.map(_worker, jobs_list, chunksize=1))


# ------------------------------------------------------------------------------------------------
# model correspondences (function level)


def align_correspondence(ck, n):
    """reader_util.align_inputs_indices vs Model/OpIndices.alignInputs on random index triples."""
    from ethosu.vela.operation import TensorIndices
    from ethosu.vela import reader_util

    rng = ck.rng
    reqs, expect = [], []

    def tri():
        k = rng.randint(0, 4)
        style = rng.random()
        if style < 0.5:
            vals = rng.sample(range(5), k)            # distinct small indices (what real tables look like)
        else:
            vals = [rng.randint(0, 5) for _ in range(k)]
        a = rng.randint(0, k)
        b = rng.randint(a, k)
        return TensorIndices(vals[:a], vals[a:b], vals[b:])

    def fmt(t):
        return "|".join("/".join(map(str, p)) for p in (t.ifms, t.weights, t.biases))

    cases = []
    for _ in range(n):
        f = tri()
        r = rng.random()
        if r < 0.3:
            t = TensorIndices(list(f.ifms), list(f.weights), list(f.biases))
        elif r < 0.75:
            flat = f.ifms + f.weights + f.biases
            rng.shuffle(flat)
            a, b = len(f.ifms), len(f.ifms) + len(f.weights)
            t = TensorIndices(flat[:a], flat[a:b], flat[b:])
        else:
            t = tri()
        cases.append((f, t, rng.randint(0, 7)))
    # the live tables, both directions, all small arities
    from ethosu.vela import tflite_mapping as tm

    seen = set()
    for _code, (op, _ser, ind) in tm.builtin_operator_map.items():
        key = (fmt(ind), fmt(op.info.indices))
        if key in seen:
            continue
        seen.add(key)
        for nn in range(0, 6):
            cases.append((ind, op.info.indices, nn))
            cases.append((op.info.indices, ind, nn))
    for f, t, nn in cases:
        reqs.append(f"alignidx from={fmt(f)} to={fmt(t)} n={nn}")
        inputs = list(range(nn))
        try:
            got = reader_util.align_inputs_indices(TensorIndices(list(f.ifms), list(f.weights), list(f.biases)),
                                                   TensorIndices(list(t.ifms), list(t.weights), list(t.biases)), inputs)
            expect.append("ok " + " ".join(map(str, got)))
        except IndexError:
            expect.append("err:index")
        except AssertionError:
            expect.append("err:assert")
    ans = ck.model(reqs, parallel=False)
    bad = [(r, e, a) for r, e, a in zip(reqs, expect, ans) if e != a]
    for e in expect:
        ck.count("align_" + e.split(" ")[0])
    ck.count("align_nonidentity", sum(1 for r, e in zip(reqs, expect) if e.startswith("ok") and e[3:] != " ".join(map(str, range(int(r.split("n=")[1]))))))
    return len(reqs), bad


def live_round_trip(ck):
    """failing-input search for `align_indices_involution`: the real reader-side then writer-side alignment on [0..n) for
    every operator type of the live tables and every small arity that has the non-bias operands; Lean judges the result."""
    from ethosu.vela.operation import TensorIndices
    from ethosu.vela import reader_util
    from ethosu.vela import tflite_mapping as tm

    def cp(t):
        return TensorIndices(list(t.ifms), list(t.weights), list(t.biases))

    reqs, meta = [], []
    for code, (op, _ser, ind) in tm.builtin_operator_map.items():
        nng, wind = op.info.indices, tm.builtin_operator_inv_map[op][2]
        need = [v for t in (ind, nng, wind) for v in t.ifms + t.weights]
        allv = [v for t in (ind, nng, wind) for v in t.ifms + t.weights + t.biases] + [0]
        for n in range(max(need, default=-1) + 1, max(allv) + 4):
            try:
                mid = reader_util.align_inputs_indices(cp(ind), cp(nng), list(range(n)))
                got = "ok," + ",".join(map(str, reader_util.align_inputs_indices(cp(nng), cp(wind), mid)))
            except IndexError:
                got = "err:index"
            except AssertionError:
                got = "err:assert"
            reqs.append(f"alignrt n={n} got={got}")
            meta.append({"builtin_code": int(code), "op": op.name, "tflite_indices": list(map(list, ind)), "op_indices": list(map(list, nng)),
                         "writer_indices": list(map(list, wind)), "operands": n, "real_result": got})
    ans = ck.model(reqs, parallel=False)
    return len(reqs), [m for m, a in zip(meta, ans) if a != "1"]


def order_correspondence(ck, n):
    """the writer's tensor order: Python sorted() on (name, enumeration index) vs Model/OpIndices.writerOrder"""
    rng = ck.rng
    reqs, expect = [], []
    alphabet = ["a", "b", "A", "_", "0", "9", "z", "é", "t_1", "t_10", "t_2", ":", "/"]
    for _ in range(n):
        k = rng.randint(1, 9)
        names = ["".join(rng.choice(alphabet) for _ in range(rng.randint(1, 3))) for _ in range(k)]
        if rng.random() < 0.4:
            names[rng.randrange(k)] = names[rng.randrange(k)]
        reqs.append("tensororder " + ",".join(nm.encode().hex() for nm in names))
        expect.append(" ".join(str(i) for _nm, i in sorted((nm, i) for i, nm in enumerate(names))))
    ans = ck.model(reqs, parallel=False)
    return len(reqs), [(r, e, a) for r, e, a in zip(reqs, expect, ans) if e != a]


# ------------------------------------------------------------------------------------------------
# classification of Spec rejections (never decides pass/fail: only maps a rejection to a known-finding key)



WRITER_READER_MODULES = {"tflite_writer", "tflite_mapping", "tflite_reader", "reader_util"}


FSYM_KEY = "force-symmetric-const-per-axis-weights-zero-points-zeroed-on-cpu"
# a CONSTANT listed as subgraph output that no written operator touches is missing from the written tensor table and output list
# (tflite_writer.serialise_subgraph collects original inputs + operands of the written operators only); repair /verif_patches/C11-60
CONST_OUT_KEY = "constant-listed-as-subgraph-output-dropped-from-the-written-output-list"


def const_outputs(src):
    """number of entries of the source output list that are constants (tensors with data); classification only"""
    sg = src["subgraphs"][0]
    n = 0
    for i in sg["outputs"]:
        t = sg["tensors"][i]
        if 0 < t["buffer"] < len(src["buffers"]) and src["buffers"][t["buffer"]]:
            n += 1
    return n


def classify(kind, detail, src, opts, out=None):
    """stable key of the known finding that explains this problem, or None (= plain violation).  Never decides pass/fail.

    One finding is open (repair proposed as /verif_patches/C11-20): with --force-symmetric-int-weights a CONV_2D /
    DEPTHWISE_CONV_2D that stays on the CPU and whose CONSTANT weights carry per-axis zero points (a vector, not all 0)
    is written with all weight zero points 0.  The key is given only for exactly that: option present, only the zero
    points of operand 1 of builtin 3 / 4 differ, the source tensor is constant with more than one zero point, the
    written vector has the same length and is all zero."""
    if kind == "interface-output-count" and out is not None:
        # exactly the constant entries are missing: source n, output n - (constant entries)
        m = re.match(r"source (\d+) output (\d+)$", detail)
        nc = const_outputs(src)
        if m and nc and int(m.group(1)) - int(m.group(2)) == nc and len(out["subgraphs"][0]["outputs"]) == int(m.group(2)):
            return CONST_OUT_KEY
        return None
    if "--force-symmetric-int-weights" not in opts or kind != "operand-quantisation" or out is None:
        return None
    m = re.match(r"operator \d+ \(builtin (3|4)\) operand 1 \(zero-point\) ([0-9a-f]*)$", detail)
    if not m:
        return None
    try:
        name = bytes.fromhex(m.group(2)).decode()
    except ValueError:
        return None

    def find(model):
        ts = [t for t in model["subgraphs"][0]["tensors"] if (t["name"] or "") == name]
        return ts[0] if len(ts) == 1 else None

    ts, to = find(src), find(out)
    if ts is None or to is None or not ts.get("quant") or not to.get("quant"):
        return None
    data = src["buffers"][ts["buffer"]] if 0 <= ts["buffer"] < len(src["buffers"]) else None
    zs, zo = list(ts["quant"]["zero_point"]), list(to["quant"]["zero_point"])
    if data and len(zs) > 1 and any(zs) and len(zo) == len(zs) and not any(zo):
        return FSYM_KEY
    return None


def replay(ck, path):
    """./check C11 --replay replays/C11-<seed>-<n>.json : recompile the recorded network and show the Lean verdict"""
    import json

    import preserve_dump

    r = json.load(open(path))["replay"]
    if r.get("stream") == "writer-function-level":
        # a case of the writer / reader function-level stream: regenerated from (seed, index) and judged again
        import writer_stage

        ck.seed = int(r.get("seed", ck.seed))
        info, _ = writer_stage.function_stage(ck, 0, 0, only=(r.get("malformed", False), r["index"]))
        print("writer-function-level case", r["index"], info)
        ck.finish({"evaluations": info["requests"], "distinct_nontrivial": info["cases"], "rule": "replay"})
    if not r.get("src_model_b64"):
        raise common.InfraError("replay file carries no source model")
    data = base64.b64decode(r["src_model_b64"])
    res = pipeline.compile_net(data, r["opts"], introspect=False)
    print("compile:", res.status, res.exc or "")
    if res.status != "ok" or res.out_model is None:
        ck.finish({"evaluations": 1, "distinct_nontrivial": 0, "rule": "replay"})
    first_out = res.out_model
    for g, gopts in enumerate((r.get("gen_opts") or [])[1:], start=2):
        # second (third) generation: the previous output is the input
        pipeline.reset_process_state()
        res = pipeline.compile_net(res.out_model, gopts, name="n_vela", introspect=False)
        print(f"generation {g}:", res.status, res.exc or "")
        if res.status != "ok" or res.out_model is None:
            ck.finish({"evaluations": 1, "distinct_nontrivial": 0, "rule": "replay"})
    if r.get("gen_opts"):
        vb = verbatim_line(first_out, res.out_model)
        vans = ck.model([vb], parallel=False)[0]
        print("ethosuverbatim:", vans)
        if vans.startswith("bad"):
            ck.violation("Ethos-U operator of the compiled input not passed through verbatim: " + vans[:300], dict(r, verdict=vans))
    line, _s, _o = preserve_dump.preserve_line(data, res.out_model)
    ans = ck.model([line], parallel=False)[0]
    print("verdict:", ans)
    if ans.startswith("bad"):
        src = fbwalk.parse(data)
        probs = [p.split("|", 1) for p in ans.split(" ", 7)[7].split(" ~ ")]
        for kind, detail in probs:
            ck.violation(f"{kind}: {detail[:200]}", dict(r, verdict=ans), key=classify(kind, detail, src, r["opts"], fbwalk.parse(res.out_model)))
    ck.finish({"evaluations": 1, "distinct_nontrivial": 1, "rule": "replay"})


def main():
    ck = Check("C11", "other")
    lean = ck.lean_stage(["VelaVerif.Props.C11", "VelaVerif.Props.C11Writer", "VelaVerif.Props.C11Roundtrip"])
    common.setup_repo_path()
    pipeline.load_vela()
    if ck.replay_arg:
        replay(ck, ck.replay_arg)

    # ---- function-level correspondences --------------------------------------------------------
    n_align, bad_align = align_correspondence(ck, 4000 if ck.thorough else 800)
    for r, e, a in bad_align[:3]:
        ck.violation(f"model of align_inputs_indices disagrees with the code: {r}: code {e} model {a}",
                     {"request": r, "code": e, "model": a}, found_input=False)
    n_rt, bad_rt = live_round_trip(ck)
    for m in bad_rt[:3]:
        ck.violation(f"reader-then-writer operand alignment is not the identity for {m['op']} (builtin {m['builtin_code']}) with "
                     f"{m['operands']} operands: {m['real_result']}", m, found_input=True)
    n_order, bad_order = order_correspondence(ck, 2000 if ck.thorough else 400)
    for r, e, a in bad_order[:3]:
        ck.violation(f"model of the writer's tensor order disagrees with sorted(): {r}: python {e} model {a}",
                     {"request": r, "python": e, "model": a}, found_input=False)

    # ---- the writer and the reader against their models, on generated files (harness/writer_stage.py) ----------
    import writer_stage

    wstats, wcases = writer_stage.function_stage(ck, 6000 if ck.thorough else 700, 1200 if ck.thorough else 150)
    n_hash = writer_stage.hashseed_stage(ck, wcases, [1, 2, 3, 4, 5, 6] if ck.thorough else [1, 2, 3], 400 if ck.thorough else 60)

    # ---- pipeline artefacts ----------------------------------------------------------------------
    n = 7000 if ck.thorough else 480
    import sweep

    # the pattern sweep first (harness/sweep.py): every named pattern under the configurations that make it bite
    jobs = [(ck.seed, i, p) for p, i in sweep.jobs(ck.thorough)]
    jobs += [(ck.seed, i, PROFILES[i % len(PROFILES)]) for i in range(n)]
    # second-generation compilations in addition (design.d/History.md), never interleaved into the rotation above
    jobs += [(ck.seed, i, GEN2_PROFILES[i % len(GEN2_PROFILES)]) for i in range(n // 4)]
    outs = run_jobs(jobs)
    lines, owners = [], []
    rr_lines, rr_owners = [], []
    for o in outs:
        if "harness_exception" in o:
            raise common.InfraError("pipeline worker failed:\n" + o["harness_exception"])
        ck.count("status_" + o["status"])
        ck.count("profile_" + o["profile"])
        if o["status"] != "ok" or "line" not in o:
            if o["status"] == "internal-exception":
                ck.count("crash_" + o["exc_site"])        # C13's subject, not C11's ...
                site_mod = o["exc_site"].split("@")[-1].split(".")[0]
                if site_mod in WRITER_READER_MODULES:
                    # ... unless the reader / writer / option serialisers themselves die: then no output is written at all
                    ck.violation(f"the TFLite reader/writer died: {o['exc_site']} {o['exc'][:160]} (network {o['idx']} {o['profile']} "
                                 f"{o['desc']['ops']} {o['opts']})", dict(replay_of(o), exception=o["exc"], site=o["exc_site"]))
            continue
        for f in o["features"]:
            ck.count("feature_" + f)
        lines.append(o["line"])
        owners.append(o)
        if "reread_error" in o:
            ck.violation(f"Vela's own reader cannot parse the file Vela wrote: {o['reread_error'][:200]} "
                         f"(network {o['idx']} {o['profile']} {o['opts']})", replay_of(o), key=None)
        else:
            rr_lines.append("reread w=" + ",".join(o["walker_view"]) + " v=" + ",".join(o["vela_view"]))
            rr_owners.append(o)
    answers = ck.model(lines)
    rr_answers = ck.model(rr_lines) if rr_lines else []
    # the output file against the writer model applied to the graph captured right before serialisation
    w_owners = [o for o in owners if "wdesc" in o]
    w_answers = ck.model([x for o in w_owners for x in ("wwrite " + o["wdesc"] + " " + o["wtree"], "wspec " + o["wdesc"] + " " + o["wtree"])])
    loop_answers = ck.model(["wloop " + o["wdesc"] for o in w_owners])
    # is the captured graph in the domain of Props/C11Writer.conforms_write (on it the Spec provably accepts the model's file)?
    for a in ck.model(["wdomain " + o["wdesc"] for o in w_owners]):
        ck.count("wpipe_domain_" + "_".join(a.split(" ")[:2]))
    for o, a in zip(w_owners, loop_answers):
        ck.count("wpipe_loop_" + ":".join(a.split(" ")[0].split(":")[:2]))
        if (a.startswith("differ") or a.startswith("err:rewrite")) and ck.counters.get("wpipe_loop_reported", 0) < 3:
            ck.count("wpipe_loop_reported")
            ck.violation(f"read_write_roundtrip fails on the models for the graph of network {o['idx']} {o['profile']}: {a[:200]}",
                         dict(replay_of(o), answer=a), found_input=False)
    for o in owners:
        if "wdesc_error" in o:
            ck.count("wpipe_undescribable")
    w_budget = {}
    for k, o in enumerate(w_owners):
        a, sp = w_answers[2 * k], w_answers[2 * k + 1]
        ck.count("wpipe_" + a.split(" ")[0])
        ck.count("wpipe_spec_" + sp.split(" ")[0])
        wkey = None
        if not sp.startswith("ok"):
            # the recorded finding: the source lists nc constants as outputs and the Spec's first complaint is that the output list of
            # subgraph 0 is nc entries short
            mk = re.match(r"bad \d+ operand-count\|subgraph_0_outputs:_graph_(\d+)_file_(\d+)( |$)", sp)
            nc = const_outputs(fbwalk.parse(o["src_model"]))
            if mk and nc and int(mk.group(1)) - int(mk.group(2)) == nc:
                wkey = CONST_OUT_KEY
                ck.count("known_" + wkey)
        if not (a.startswith("same") and sp.startswith("ok")) and wkey is None:
            cls = sp.startswith("ok")
            w_budget[cls] = w_budget.get(cls, 0) + 1
            if w_budget[cls] > 4:
                continue
        if not a.startswith("same"):
            if not sp.startswith("ok"):
                ck.violation(f"the written file does not say what the graph handed to the writer says: {sp[:200]} (model vs code: {a[:120]}; "
                             f"network {o['idx']} {o['profile']} {o['opts']})", dict(replay_of(o), spec=sp, answer=a), found_input=True, key=wkey)
            else:
                ck.violation(f"model of the TFLite writer disagrees with the file written for network {o['idx']} {o['profile']}: {a[:200]}; "
                             f"the Spec accepts the file", dict(replay_of(o), answer=a), found_input=False)
        elif not sp.startswith("ok"):
            ck.violation(f"the written file does not say what the graph handed to the writer says: {sp[:200]} (network {o['idx']} {o['profile']} "
                         f"{o['opts']})", dict(replay_of(o), spec=sp), found_input=True, key=wkey)
    # ---- second generation: Ethos-U operators of the first output passed through verbatim -------------------------------
    vb_owners = [o for o in owners if o.get("verbatim_line")]
    for o, ans in zip(vb_owners, ck.model([o["verbatim_line"] for o in vb_owners]) if vb_owners else []):
        m = re.match(r"(ok|bad|pre) ethosu_in=(\d+) ethosu_out=(\d+) new=(\d+) n=(\d+) ?(.*)", ans)
        if not m:
            raise common.InfraError("unexpected ethosuverbatim answer: " + ans[:300])
        ck.count("second_generation_files")
        if m.group(1) == "pre":
            # the compiled input keeps the duplicate tensor names of its source: operators cannot be identified by their result
            # names (the same domain restriction as `preserve`), counted and not judged
            for p in m.group(6).split(" ~ "):
                ck.count("second_generation_input_outside_domain_" + p.split("|")[0])
            continue
        ck.count("generations_%d" % o["gen_count"])
        ck.count("second_generation_ethosu_operators_passed_through", int(m.group(2)))
        ck.count("second_generation_new_ethosu_operators", int(m.group(4)))
        ck.count("second_generation_other_options" if any(g != o["gen_opts"][0] for g in o["gen_opts"][1:]) else "second_generation_same_options")
        if m.group(1) == "bad":
            probs = [p.split("|", 1) for p in m.group(6).split(" ~ ")]
            ck.violation(f"an Ethos-U operator of an already compiled model is not passed through verbatim when the model is compiled again: "
                         f"{probs[0][0]}: {unhex(probs[0][1])[:260]} (network {o['idx']} {o['profile']}, options per generation {o['gen_opts']})",
                         dict(replay_of(o), gen_opts=o["gen_opts"], verdict=ans[:1500], request=o["verbatim_line"][:6000],
                              how="compile the source with gen_opts[0], then the output with gen_opts[1] (and that output with gen_opts[2])"))
    programs = rejected = 0
    nontrivial = set()
    for o, ans, line in zip(owners, answers, lines):
        programs += 1
        m = re.match(r"(ok|bad|pre) preserved=(\d+) absorbed=(\d+) folded=(\d+) dead=(\d+) ethosu=(\d+) n=(\d+) ?(.*)", ans)
        if not m:
            raise common.InfraError("unexpected preserve answer: " + ans[:300] + " for " + line[:300])
        status, pres, absd, fold, dead, eth = m.group(1), *map(int, m.group(2, 3, 4, 5, 6))
        problems_text = m.group(8)
        ck.count("verdict_" + status)
        ck.count("ops_preserved", pres)
        ck.count("ops_absorbed", absd)
        ck.count("ops_folded", fold)
        ck.count("ops_dead", dead)
        ck.count("ethosu_ops", eth)
        if pres and eth:
            ck.count("models_mixed_cpu_npu")
        elif pres:
            ck.count("models_cpu_only")
        elif eth:
            ck.count("models_npu_only")
        if status == "pre":
            for p in problems_text.split(" ~ "):
                ck.count("source_outside_domain_" + p.split("|")[0])
            continue
        if pres >= 1:
            nontrivial.add((o["profile"], o["idx"], tuple(o["opts"])))
        if status == "bad":
            rejected += 1
            probs = [p.split("|", 1) for p in problems_text.split(" ~ ")]
            for kind, detail in probs:
                ck.count("problem_" + kind)
            src = fbwalk.parse(o["src_model"])
            outm = fbwalk.parse(o["out_model"]) if o.get("out_model") else None
            groups = {}
            for kind, detail in probs:
                groups.setdefault(classify(kind, detail, src, o["opts"], outm), []).append((kind, detail))
            for key, ps in groups.items():
                if key is not None:
                    ck.count("known_" + key)
                gen = "" if o.get("gen_count", 1) == 1 else f" [source vs the output of generation {o['gen_count']}: options per generation {o['gen_opts']}]"
                ck.violation(f"{ps[0][0]}: {ps[0][1][:200]} (network {o['idx']} {o['profile']} {o['desc']['ops']} {o['opts']}){gen}",
                             dict(replay_of(o), verdict=ans, problems=ps, request=line[:6000], gen_opts=o.get("gen_opts")), key=key)
    for o, ans in zip(rr_owners, rr_answers):
        ck.count("reread_" + ans.split(" ")[0])
        if not ans.startswith("same"):
            ck.violation(f"Vela's reader and the plain walker see different files: {ans[:200]} (network {o['idx']} {o['profile']})",
                         dict(replay_of(o), verdict=ans))
    for o, ans in list(zip(owners, answers))[:4]:
        ck.sample({"network": o["desc"], "opts": o["opts"], "features": o["features"], "verdict": ans[:200]})
    wanted = ["multiple_outputs", "duplicated_operand", "dynamic_weights", "third_party_custom", "custom_options_nonempty",
              "float_detour", "float_tensors", "unsupported_rank_gt4", "unsupported_batch_gt1", "multiple_inputs",
              "omitted_operand_before_real_operand", "quantisation_min_max", "custom_options_absent", "force_symmetric_case",
              "quantisation_extremes", "rejected_RESHAPE", "rejected_CONV_2D_GROUPS", "reshape_cpu_big", "reshape_cpu_big_minus1",
              "reshape_cpu_dyn_shape"]
    missing = [w for w in wanted if not ck.counters.get("feature_" + w)]
    ck.finish({
        "programs": programs,
        "disagreements_checked": rejected,
        "evaluations": len(outs) + n_align + n_order + n_rt + wstats["requests"] + n_hash + 2 * len(w_owners),
        "writer_function_level": wstats,
        "writer_hashseed_cases": n_hash,
        "writer_pipeline_files": len(w_owners),
        "distinct_nontrivial": len(nontrivial),
        "align_requests": n_align,
        "live_table_round_trips": n_rt,
        "tensor_order_requests": n_order,
        "reread_compared": len(rr_lines),
        "unreached_branches": ["feature:" + w for w in missing],
        "rule": "program = one compiled (network, configuration) whose source and output dumps were judged by Preserve.check; "
                "non-trivial when at least one source operator is preserved on the CPU; distinct by (profile, index, options)",
        "explanation": "level other: the verdict on every artefact is computed by the Lean Spec checker Preserve.check (soundness of its "
                       "topological, matching and coverage scans proved in Props/C11); the index-alignment round trip is proved over the "
                       "regenerated tables and the model is compared with the real function; option (de)serialisers are generated "
                       "flatbuffer code and are only exercised",
        "exhaustive": False,
    }, assumptions=["operators are identified by the names of their output tensors (source names must be unique; networks whose source "
                    "has duplicate names are counted as outside the domain)",
                    "an absent option table equals an empty one; trailing absent operands are insignificant; operators that reach no "
                    "output may disappear; SHAPE and constant-only operators may be folded into a constant of the same description; "
                    "a scale without zero-point vector means zero point 0; a quantisation table without scale and zero point means none"])


def replay_of(o):
    return {"profile": o["profile"], "seed": o["seed"], "index": o["idx"], "opts": o["opts"], "network": o["desc"],
            "features": o.get("features"), "src_model_b64": base64.b64encode(o["src_model"]).decode() if len(o["src_model"]) < 200000 else None}


main_wrapper(main)
