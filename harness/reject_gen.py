"""Operators that Vela has to leave on the CPU although their *kind* is one a later rewrite pass would touch on the NPU
(C11: "CPU-resident operators are preserved verbatim", C16: "... stay on the CPU unchanged").

Every rewrite of tflite_graph_optimiser.tflite_optimise_graph is listed in REWRITES with the operator kinds it reads;
`rejected_op(b, cur, feats, live)` appends one instance of such a kind that violates a constraint of the *supported
operator* check (not only of the semantic check, which runs earlier: a rewrite that ignores `run_on_npu` inside the
pre-processing traversal is only visible on operators that pass the semantic check) — or, for variety, of the semantic
check — and returns the tensor the chain continues with.

Also here: the `--force-symmetric-int-weights` family (`fsym_op`) and CPU-resident RESHAPE-like operators with a
dimension above 65535, `-1` in the shape operand / `new_shape` option, non-constant or absent shape operand
(`reshape_cpu`).  Networks that need an option carry it in `net.extra_opts`.
"""
import numpy as np

import netgen
from netgen import Op, T, TT

# rewrite pass -> operator kinds (TFLite names) it reads when the operator runs on the NPU
REWRITES = {
    "optimise_quantize": ["QUANTIZE"],
    "convert_shape_op_to_constant_tensor": ["SHAPE"],
    "fixup_asymmetric_weights / check_asymmetric_weights": ["CONV_2D", "DEPTHWISE_CONV_2D"],
    "fixup_pool_strides": ["AVERAGE_POOL_2D", "MAX_POOL_2D"],
    "fixup_reshape": ["RESHAPE"],
    "convert_conv_groups": ["CONV_2D"],
    "merge_dequant_lut_quant": ["DEQUANTIZE", "TANH", "LOGISTIC", "QUANTIZE"],
    "replace_dilated_convolution / fixup_dilation_gt2": ["CONV_2D", "DEPTHWISE_CONV_2D"],
    "split_pad_to_sub_pad / convert_pad_to_concat / replace_pad_by_hw_pad / convert_pad": ["PAD"],
    "add_add_op_after_concat / rewrite_concat_ops": ["CONCATENATION", "PACK"],
    "rewrite_unpack_output": ["UNPACK"],
    "rewrite_stridedslice_output": ["STRIDED_SLICE"],
    "convert_nop_split_to_identity / rewrite_split_ops / remove_SplitSliceRead": ["SPLIT", "SPLIT_V", "SLICE", "STRIDED_SLICE", "UNPACK"],
    "bypass_memory_only_ops / remove_passthrough_tensor": ["RESHAPE", "SQUEEZE", "EXPAND_DIMS"],
    "convert_ops_to_lut": ["EXP", "LOG", "SQRT", "RSQRT", "GELU"],
    "convert_squared_difference": ["SQUARED_DIFFERENCE"],
    "convert_mean_to_depthwise_conv": ["MEAN"],
    "convert_depthwise_to_conv / reorder_depthwise_weights": ["DEPTHWISE_CONV_2D"],
    "convert_conv_to_fc / fixup_strided_conv / fixup_bias_tensors / add_padding_fields": ["CONV_2D"],
    "convert_softmax": ["SOFTMAX"],
    "convert_prelu": ["PRELU"],
    "convert_mul_max_to_abs_or_lrelu": ["MUL", "MAXIMUM"],
    "convert_lrelu": ["LEAKY_RELU"],
    "convert_avg_pool_to_conv2d": ["AVERAGE_POOL_2D"],
    "convert_hardswish_to_lut": ["HARD_SWISH"],
    "rewrite_fully_connected_input / convert_batched_fc_shape": ["FULLY_CONNECTED"],
    "fixup_conv2d_backprop": ["TRANSPOSE_CONV"],
    "fixup_relus_with_differing_ifm_ofm_scaling / fuse_activation_function_with_prev": ["RELU", "RELU6", "RELU_N1_TO_1"],
    "convert_argmax_to_depthwise_conv_and_max_pool": ["ARG_MAX"],
    "fixup_resize": ["RESIZE_BILINEAR", "RESIZE_NEAREST_NEIGHBOR"],
    "convert_tanh_sigmoid_to_lut": ["TANH", "LOGISTIC"],
    "convert_quantize": ["QUANTIZE"],
    "fixup_transpose": ["TRANSPOSE"],
    "set_tensor_equivalence / elementwise": ["ADD", "SUB", "MUL", "MINIMUM", "MAXIMUM", "ABS"],
    "convert_lstm": [],      # UNIDIRECTIONAL_SEQUENCE_LSTM: not generated (24 operands; C11 has no rejected instance of it)
}

KINDS = ["RESHAPE", "SQUEEZE", "EXPAND_DIMS", "CONV_2D", "CONV_2D_GROUPS", "CONV_2D_DIL3", "CONV_2D_1x1_ON_1x1", "CONV_2D_NOBIAS",
         "DEPTHWISE_CONV_2D", "DEPTHWISE_CONV_2D_DEPTH1", "FULLY_CONNECTED", "TRANSPOSE_CONV", "PAD", "PAD_CONV", "CONCATENATION", "PACK",
         "UNPACK", "STRIDED_SLICE", "STRIDED_SLICE_SHRINK", "SPLIT", "SPLIT_1", "SPLIT_V", "SLICE", "EXP", "LOG", "SQRT", "RSQRT", "GELU",
         "SQUARED_DIFFERENCE", "MEAN", "SOFTMAX", "PRELU", "MUL_MAX", "LEAKY_RELU", "AVERAGE_POOL_2D", "MAX_POOL_2D", "HARD_SWISH",
         "RELU", "RELU6", "RELU_N1_TO_1", "ARG_MAX", "RESIZE_BILINEAR", "RESIZE_NEAREST_NEIGHBOR", "TANH", "LOGISTIC", "QUANTIZE",
         "TRANSPOSE", "DEQUANT_LUT_QUANT", "ADD", "SUB", "MUL", "MINIMUM", "ABS"]

QUANT = ("int8", "uint8", "int16")


def _wd(dt):
    return "uint8" if dt == "uint8" else "int8"


def _bias(b, oc, dt, n=1):
    return b.const([oc], "int64" if dt == "int16" else "int32", np.arange(oc) - 1, [0.001] * n, [0] * n, 0, b.fresh("b"))


def _custom(b, x, shape, dtype, scale, zp):
    """third-party operator (CPU) that brings the chain back to an ordinary quantised feature map"""
    o = b.fm(shape, dtype, scale=scale, zp=zp)
    b.net.ops.append(Op("CUSTOM", [x], [o], None, custom_code="AfterRejected", custom_options=b"\x07"))
    return o


def _simple_out(b, xt, shape=None):
    return b.fm(shape or xt.shape, xt.dtype, scale=xt.scales[0], zp=xt.zps[0])


def _build(b, kind, x, rng):
    """append operator `kind` reading x ([1,h,w,c] quantised); returns (result tensors, specific) where specific names a constraint the
    instance already violates on its own (None: a generic reason has to be applied)"""
    xt = b.t(x)
    n, h, w, c = xt.shape
    dt = xt.dtype
    ops = b.net.ops
    wq0 = 0 if _wd(dt) == "int8" else 128
    if kind == "RESHAPE":
        o = _simple_out(b, xt, [n, w, h, c])
        st = b.const([4], "int32", [n, w, h, c], name=b.fresh("shape"))
        ops.append(Op("RESHAPE", [x, st], [o], ("ReshapeOptions", dict(NewShape=[n, w, h, c]))))
        return [o], None
    if kind == "SQUEEZE":
        o = _simple_out(b, xt, [h, w, c])
        ops.append(Op("SQUEEZE", [x], [o], ("SqueezeOptions", dict(SqueezeDims=[0]))))
        return [o], None
    if kind == "EXPAND_DIMS":
        o = _simple_out(b, xt, [n, h, w, 1, c])
        ax = b.const([], "int32", [3], name=b.fresh("axis"))
        ops.append(Op("EXPAND_DIMS", [x, ax], [o], ("ExpandDimsOptions", {})))
        return [o], "rank5"
    if kind in ("CONV_2D", "CONV_2D_GROUPS", "CONV_2D_DIL3", "CONV_2D_1x1_ON_1x1", "CONV_2D_NOBIAS"):
        oc = rng.choice([2, 4])
        per_axis = _wd(dt) == "int8" and rng.random() < 0.5
        nq = oc if per_axis else 1
        ic, s, d, k = c, 4, 1, 1
        if kind == "CONV_2D_GROUPS" and c % 2 == 0:
            ic = c // 2
        if kind == "CONV_2D_DIL3":
            d, k = 3, 2
        wt = b.const([oc, k, k, ic], _wd(dt), b.rand_weights([oc, k, k, ic], _wd(dt)), [0.02 + 0.01 * i for i in range(nq)], [wq0] * nq, 0, b.fresh("w"))
        ins = [x, wt] + ([] if kind == "CONV_2D_NOBIAS" else [_bias(b, oc, dt, nq)])
        if kind == "CONV_2D_1x1_ON_1x1":
            # convert_conv_to_fc territory: 1x1 kernel on a 1x1 map; kept off the NPU by a generic reason
            p = b.fm([n, 1, 1, c], dt, scale=xt.scales[0], zp=xt.zps[0])
            ops.append(Op("MAX_POOL_2D", [x], [p], ("Pool2DOptions", dict(Padding=1, StrideW=1, StrideH=1, FilterWidth=w, FilterHeight=h, FusedActivationFunction=0))))
            ins[0], s, h, w = p, 1, 1, 1
        o = b.fm([n, -(-h // s), -(-w // s), oc], dt)
        ops.append(Op("CONV_2D", ins, [o], ("Conv2DOptions", dict(Padding=0, StrideW=s, StrideH=s, DilationWFactor=d, DilationHFactor=d,
                                                                   FusedActivationFunction=rng.choice([0, 1, 3])))))
        # stride 4 violates the stride criteria only when the OFM is higher than one row
        return [o], ("stride4" if s == 4 and -(-h // s) > 1 else None)
    if kind in ("DEPTHWISE_CONV_2D", "DEPTHWISE_CONV_2D_DEPTH1"):
        mult = 1
        if kind == "DEPTHWISE_CONV_2D_DEPTH1":
            # convert_depthwise_to_conv territory: IFM depth 1 with a depth multiplier
            p = b.fm([n, h, w, 1], dt)
            wt0 = b.const([1, 1, 1, c], _wd(dt), b.rand_weights([1, 1, 1, c], _wd(dt)), [0.02], [wq0], 0, b.fresh("w"))
            ops.append(Op("CONV_2D", [x, wt0, _bias(b, 1, dt)], [p], ("Conv2DOptions", dict(Padding=0, StrideW=1, StrideH=1, DilationWFactor=1,
                                                                                            DilationHFactor=1, FusedActivationFunction=0))))
            x, c, mult = p, 1, 4
        oc = c * mult
        wt = b.const([1, 1, 1, oc], _wd(dt), b.rand_weights([1, 1, 1, oc], _wd(dt)), [0.02], [wq0], 3, b.fresh("w"))
        o = b.fm([n, -(-h // 4), -(-w // 4), oc], dt)
        ops.append(Op("DEPTHWISE_CONV_2D", [x, wt, _bias(b, oc, dt)], [o], ("DepthwiseConv2DOptions", dict(
            Padding=0, StrideW=4, StrideH=4, DepthMultiplier=mult, DilationWFactor=1, DilationHFactor=1, FusedActivationFunction=rng.choice([0, 1])))))
        return [o], "stride4"
    if kind == "FULLY_CONNECTED":
        # batched: [h*w, c] x [oc, c]
        flat = b.reshape(x, [h * w, c])
        oc = rng.choice([2, 5])
        wt = b.const([oc, c], _wd(dt), b.rand_weights([oc, c], _wd(dt)), [0.02], [wq0], 0, b.fresh("w"))
        o = b.fm([h * w, oc], dt)
        ops.append(Op("FULLY_CONNECTED", [flat, wt, _bias(b, oc, dt)], [o], ("FullyConnectedOptions", dict(FusedActivationFunction=rng.choice([0, 1])))))
        return [o], None
    if kind == "TRANSPOSE_CONV":
        oc = 2
        wt = b.const([oc, 3, 3, c], _wd(dt), b.rand_weights([oc, 3, 3, c], _wd(dt)), [0.02], [wq0], 0, b.fresh("w"))
        os_ = b.const([4], "int32", [n, h * 3, w * 3, oc], name=b.fresh("oshape"))
        o = b.fm([n, h * 3, w * 3, oc], dt)
        ops.append(Op("TRANSPOSE_CONV", [os_, wt, x, _bias(b, oc, dt)], [o], ("TransposeConvOptions", dict(Padding=0, StrideW=3, StrideH=3,
                                                                                                      FusedActivationFunction=0))))
        return [o], "stride3"
    if kind in ("PAD", "PAD_CONV"):
        pads = [[0, 0], [1, 1], [1, 0], [0, rng.choice([0, 2])]]
        pt = b.const([4, 2], "int32", pads, name=b.fresh("pads"))
        o = _simple_out(b, xt, [d + p[0] + p[1] for d, p in zip(xt.shape, pads)])
        ops.append(Op("PAD", [x, pt], [o], ("PadOptions", {})))
        return [o], None
    if kind in ("CONCATENATION", "PACK"):
        if kind == "PACK":
            o = _simple_out(b, xt, [2, h, w, c] if n == 1 else [2] + xt.shape)
            ops.append(Op("PACK", [x, x], [o], ("PackOptions", dict(ValuesCount=2, Axis=0))))
            return [o], None
        o = _simple_out(b, xt, [n, h, w, 2 * c])
        ops.append(Op("CONCATENATION", [x, x], [o], ("ConcatenationOptions", dict(Axis=3, FusedActivationFunction=0))))
        return [o], None
    if kind == "UNPACK":
        outs = [_simple_out(b, xt, [n, h, w]) for _ in range(c)] if c <= 4 else None
        if outs is None:
            return None, None
        ops.append(Op("UNPACK", [x], outs, ("UnpackOptions", dict(Num=c, Axis=3))))
        return outs, None
    if kind in ("STRIDED_SLICE", "STRIDED_SLICE_SHRINK"):
        shrink = kind.endswith("SHRINK")
        strides = [1, 1, 1, 1] if shrink else [1, 2, 1, 1]          # stride 2: "All Strides values must be 1"
        bt = b.const([4], "int32", [0, 0, 0, 0], name=b.fresh("begin"))
        et = b.const([4], "int32", [1, h, w, c], name=b.fresh("end"))
        st = b.const([4], "int32", strides, name=b.fresh("strides"))
        o = _simple_out(b, xt, [h, w, c] if shrink else [n, -(-h // 2), w, c])
        ops.append(Op("STRIDED_SLICE", [x, bt, et, st], [o], ("StridedSliceOptions", dict(
            BeginMask=0, EndMask=0, EllipsisMask=0, NewAxisMask=0, ShrinkAxisMask=1 if shrink else 0))))
        return [o], (None if shrink else "stride2")
    if kind in ("SPLIT", "SPLIT_1"):
        num = 1 if kind == "SPLIT_1" or c % 2 else 2
        at = b.const([], "int32", [3], name=b.fresh("axis"))
        outs = [_simple_out(b, xt, [n, h, w, c // num]) for _ in range(num)]
        ops.append(Op("SPLIT", [at, x], outs, ("SplitOptions", dict(NumSplits=num))))
        return outs, None
    if kind == "SPLIT_V":
        if c < 2:
            return None, None
        sizes = b.const([2], "int32", [1, c - 1], name=b.fresh("sizes"))
        at = b.const([], "int32", [3], name=b.fresh("axis"))
        outs = [_simple_out(b, xt, [n, h, w, 1]), _simple_out(b, xt, [n, h, w, c - 1])]
        ops.append(Op("SPLIT_V", [x, sizes, at], outs, ("SplitVOptions", dict(NumSplits=2))))
        return outs, None
    if kind == "SLICE":
        # begin is a run-time tensor: "Begin and Size Input tensors must be constant"
        bt = b.net.add(T(b.fresh("input"), [4], "int32"))
        b.net.inputs.append(bt)
        sz = b.const([4], "int32", [n, max(1, h - 1), w, c], name=b.fresh("size"))
        o = _simple_out(b, xt, [n, max(1, h - 1), w, c])
        ops.append(Op("SLICE", [x, bt, sz], [o], ("SliceOptions", {})))
        return [o], "dynamic-begin"
    if kind in ("EXP", "LOG", "SQRT", "RSQRT", "HARD_SWISH", "TANH", "LOGISTIC", "ABS", "RELU", "RELU6", "RELU_N1_TO_1"):
        o = b.fm(xt.shape, dt, scale=xt.scales[0] if kind.startswith("RELU") else None, zp=xt.zps[0] if kind.startswith("RELU") else None)
        ops.append(Op(kind, [x], [o]))
        return [o], None
    if kind == "GELU":
        o = b.fm(xt.shape, dt)
        ops.append(Op("GELU", [x], [o], ("GeluOptions", dict(Approximate=rng.random() < 0.5))))
        return [o], None
    if kind in ("SQUARED_DIFFERENCE", "ADD", "SUB", "MUL", "MINIMUM"):
        lo, hi = netgen._qrange(dt)
        c2 = b.const([1, 1, 1, c], dt, [rng.randint(lo, hi) for _ in range(c)], [netgen.rand_scale(rng)], [netgen.rand_zp(rng, dt)])
        o = b.fm(xt.shape, dt) if kind != "MINIMUM" else _simple_out(b, xt)
        on = {"ADD": ("AddOptions", dict(FusedActivationFunction=0)), "SUB": ("SubOptions", dict(FusedActivationFunction=0)),
              "MUL": ("MulOptions", dict(FusedActivationFunction=0)), "MINIMUM": ("MaximumMinimumOptions", {}),
              "SQUARED_DIFFERENCE": ("SquaredDifferenceOptions", {})}[kind]
        ops.append(Op(kind, [x, c2 if kind != "MINIMUM" else x], [o], on))
        return [o], None
    if kind == "MEAN":
        ax = b.const([2], "int32", [1, 2], name=b.fresh("axes"))
        keep = rng.random() < 0.5
        o = b.fm([n, 1, 1, c] if keep else [n, c], dt)
        ops.append(Op("MEAN", [x, ax], [o], ("ReducerOptions", dict(KeepDims=keep))))
        return [o], None
    if kind == "SOFTMAX":
        o = b.fm(xt.shape, dt, scale=1.0 / 256 if dt != "int16" else 1.0 / 32768, zp={"int8": -128, "uint8": 0, "int16": 0}[dt])
        ops.append(Op("SOFTMAX", [x], [o], ("SoftmaxOptions", dict(Beta=float(rng.choice([1.0, 0.5, 2.0]))))))
        return [o], None
    if kind == "PRELU":
        lo, hi = netgen._qrange(dt)
        a = b.const([1, 1, c], dt, [rng.randint(lo, hi) for _ in range(c)], [netgen.rand_scale(rng)], [netgen.rand_zp(rng, dt)])
        o = b.fm(xt.shape, dt)
        ops.append(Op("PRELU", [x, a], [o], None))
        return [o], None
    if kind == "MUL_MAX":
        # MAXIMUM(MUL(x, alpha), x): convert_mul_max_to_abs_or_lrelu would turn the pair into LEAKY_RELU
        lo, hi = netgen._qrange(dt)
        a = b.const([1, 1, 1, 1], dt, [hi], [0.25 / max(1, hi - xt.zps[0])], [xt.zps[0]])
        m = _simple_out(b, xt)
        ops.append(Op("MUL", [x, a], [m], ("MulOptions", dict(FusedActivationFunction=0))))
        o = _simple_out(b, xt)
        ops.append(Op("MAXIMUM", [m, x], [o], ("MaximumMinimumOptions", {})))
        return [o], None
    if kind == "LEAKY_RELU":
        o = b.fm(xt.shape, dt)
        ops.append(Op("LEAKY_RELU", [x], [o], ("LeakyReluOptions", dict(Alpha=float(rng.choice([0.1, 0.01, 1.5, 0.0]))))))
        return [o], None
    if kind in ("AVERAGE_POOL_2D", "MAX_POOL_2D"):
        # stride 4 (stride height of an average pool must be <= 3; max pool: both)
        o = _simple_out(b, xt, [n, -(-h // 4), -(-w // 4), c])
        ops.append(Op(kind, [x], [o], ("Pool2DOptions", dict(Padding=0, StrideW=4, StrideH=4, FilterWidth=2, FilterHeight=2,
                                                             FusedActivationFunction=rng.choice([0, 1])))))
        return [o], "stride4"
    if kind == "ARG_MAX":
        # axis 1 (not the depth axis)
        ax = b.const([], "int32", [1], name=b.fresh("axis"))
        o = b.net.add(T(b.fresh("t"), [n, w, c], "int32"))
        ops.append(Op("ARG_MAX", [x, ax], [o], ("ArgMaxOptions", dict(OutputType=TT["int32"]))))
        return [o], "axis1"
    if kind in ("RESIZE_BILINEAR", "RESIZE_NEAREST_NEIGHBOR"):
        f = 3          # upscaling by 3 is not a power of two
        st = b.const([2], "int32", [h * f, w * f], name=b.fresh("size"))
        o = _simple_out(b, xt, [n, h * f, w * f, c])
        on = "ResizeBilinearOptions" if kind == "RESIZE_BILINEAR" else "ResizeNearestNeighborOptions"
        ops.append(Op(kind, [x, st], [o], (on, dict(AlignCorners=False, HalfPixelCenters=False))))
        return [o], "factor3"
    if kind == "QUANTIZE":
        o = b.fm(xt.shape, dt)
        ops.append(Op("QUANTIZE", [x], [o], ("QuantizeOptions", {})))
        return [o], None
    if kind == "TRANSPOSE":
        perm = rng.choice([[0, 3, 1, 2], [0, 2, 1, 3], [0, 1, 3, 2], [0, 3, 2, 1]])
        pt = b.const([4], "int32", perm, name=b.fresh("perm"))
        o = _simple_out(b, xt, [xt.shape[p] for p in perm])
        ops.append(Op("TRANSPOSE", [x, pt], [o], ("TransposeOptions", {})))
        return [o], None
    if kind == "DEQUANT_LUT_QUANT":
        # DEQUANTIZE -> float TANH/LOGISTIC -> QUANTIZE: merge_dequant_lut_quant (runs with rewrite_unsupported=True) may merge the
        # three CPU operators into one accelerated table lookup; whatever it does, names and interface must survive
        f = b.net.add(T(b.fresh("t"), xt.shape, "float32"))
        ops.append(Op("DEQUANTIZE", [x], [f], ("DequantizeOptions", {})))
        g = b.net.add(T(b.fresh("t"), xt.shape, "float32"))
        ops.append(Op(rng.choice(["TANH", "LOGISTIC"]), [f], [g]))
        o = b.fm(xt.shape, dt)
        ops.append(Op("QUANTIZE", [g], [o], ("QuantizeOptions", {})))
        return [o], "float"
    return None, None


def _to_batch2(b, x):
    xt = b.t(x)
    n, h, w, c = xt.shape
    if h % 2:
        return None
    return b.reshape(x, [2, h // 2, w, c])


def rejected_op(b, cur, feats, live, kind=None):
    """one operator of a kind some rewrite pass reads, kept off the NPU; returns the tensor the chain continues with"""
    rng = b.rng
    xt = b.t(cur)
    if not (xt.dtype in QUANT and xt.scales and len(xt.scales) == 1 and len(xt.shape) == 4 and xt.shape[0] == 1 and xt.shape[3] <= 16
            and xt.shape[1] * xt.shape[2] <= 256):
        return None
    kind = kind or rng.choice(KINDS)
    reason = rng.choice(["per_axis_out", "per_axis_out", "batch2", "noq_out", "specific", "specific"])
    x = cur
    if reason == "batch2" and kind not in ("FULLY_CONNECTED", "SOFTMAX", "RESHAPE", "SQUEEZE", "EXPAND_DIMS", "UNPACK", "PACK", "STRIDED_SLICE_SHRINK",
                                            "CONV_2D_1x1_ON_1x1", "DEPTHWISE_CONV_2D_DEPTH1", "SLICE", "SPLIT", "SPLIT_1", "SPLIT_V", "STRIDED_SLICE"):
        x2 = _to_batch2(b, cur)
        if x2 is None:
            reason = "per_axis_out"
        else:
            x = x2
    elif reason == "batch2":
        reason = "per_axis_out"
    n_before = len(b.net.ops)
    outs, specific = _build(b, kind, x, rng)
    if outs is None:
        del b.net.ops[n_before:]
        return None
    if reason == "specific" and specific is None:
        reason = "per_axis_out"
    tgt = b.net.ops[-1]
    if kind == "PAD_CONV":
        # PAD feeding a convolution (replace_pad_by_hw_pad would fuse the pair): the convolution is the rejected one
        pt = b.t(outs[0])
        oc = 2
        wt = b.const([oc, 3, 3, pt.shape[3]], _wd(pt.dtype), b.rand_weights([oc, 3, 3, pt.shape[3]], _wd(pt.dtype)), [0.02], [0 if _wd(pt.dtype) == "int8" else 128], 0, b.fresh("w"))
        o = b.fm([pt.shape[0], pt.shape[1] - 2, pt.shape[2] - 2, oc], pt.dtype)
        if o is not None and pt.shape[1] > 2 and pt.shape[2] > 2:
            b.net.ops.append(Op("CONV_2D", [outs[0], wt, _bias(b, oc, pt.dtype)], [o], ("Conv2DOptions", dict(
                Padding=1, StrideW=1, StrideH=1, DilationWFactor=1, DilationHFactor=1, FusedActivationFunction=0))))
            outs, tgt = [o], b.net.ops[-1]
    ot = b.t(outs[0])
    if reason == "per_axis_out" and kind in ("RESHAPE", "SQUEEZE", "EXPAND_DIMS") and ot.scales and rng.random() < 0.85:
        # a per-axis result on a reshape-like operator dies in the semantic check of the unchanged tree (C13 finding
        # ValueError@tensor.is_scaling_equal): mostly use a zero point that differs from the input's instead
        ot.zps = [ot.zps[0] + (1 if ot.zps[0] < 100 else -1)]
        reason = "quant_mismatch"
    if reason == "per_axis_out" and kind not in ("CONV_2D", "CONV_2D_GROUPS", "CONV_2D_DIL3", "CONV_2D_1x1_ON_1x1", "CONV_2D_NOBIAS", "DEPTHWISE_CONV_2D",
                                                   "DEPTHWISE_CONV_2D_DEPTH1", "TRANSPOSE_CONV", "PAD_CONV"):
        # "Per-axis quantization is only supported for ..." (supported-operator check): the result carries a scale per channel
        if ot.scales and len(ot.shape) >= 1 and ot.shape[-1] >= 2:
            k = ot.shape[-1]
            ot.scales, ot.zps, ot.qdim = [ot.scales[0] * (1 + 0.25 * i) for i in range(k)], [ot.zps[0]] * k, len(ot.shape) - 1
        else:
            reason = "noq_out"
    elif reason == "per_axis_out":
        reason = "noq_out" if specific is None else "specific"
    if reason == "noq_out":
        for o in outs[:1]:
            b.t(o).scales, b.t(o).zps = None, None
    feats.add("rejected_" + kind)
    feats.add("rejected_reason_" + (reason if reason != "specific" else "specific_" + str(specific)))
    b.net.desc.append(f"rejected:{kind}:{reason}:{specific}")
    for o in outs[1:]:
        live.append(o)
        b.extra_outputs = getattr(b, "extra_outputs", []) + [o]
    o = outs[0]
    ot = b.t(o)
    # back to an ordinary [1, h, w, c] per-tensor quantised feature map
    if ot.dtype not in QUANT or ot.scales is None or len(ot.scales) != 1 or len(ot.shape) != 4 or ot.shape[0] != 1:
        shape = list(ot.shape)
        while len(shape) < 4:
            shape.insert(0, 1)
        if len(shape) > 4 or shape[0] != 1:
            shape = [1, int(np.prod(shape[:-1])), 1, shape[-1]]
        o = _custom(b, o, shape, xt.dtype, xt.scales[0], xt.zps[0])
    return o


# ------------------------------------------------------------------------------------------------------------------------
# --force-symmetric-int-weights: convolutions that stay on the CPU for ANOTHER reason must keep their weight quantisation


def fsym_op(b, cur, feats, live, variant=None, zstyle=None, const=None, why=None):
    """CONV_2D / DEPTHWISE_CONV_2D / FULLY_CONNECTED with asymmetric int8 weights that is kept off the NPU by something
    else (stride 4, non-constant weights, batched input ...).  The network asks for --force-symmetric-int-weights."""
    rng = b.rng
    xt = b.t(cur)
    if not (xt.dtype in ("int8", "int16") and xt.scales and len(xt.scales) == 1 and len(xt.shape) == 4 and xt.shape[0] == 1 and xt.shape[3] <= 16):
        return None
    n, h, w, c = xt.shape
    dt = xt.dtype
    op = variant or rng.choice(["conv", "conv", "dw", "fc", "conv_shared"])
    zstyle = zstyle or rng.choice(["tensor127", "tensor-128", "tensor3", "axis", "axis", "axis_ends", "axis_one"])
    const = rng.random() < 0.6 if const is None else const
    oc = rng.choice([2, 4, 8]) if op != "dw" else c
    per_axis = zstyle.startswith("axis") and op != "fc" and oc >= 2
    nq = oc if per_axis else 1
    if not per_axis:
        wz = [{"tensor127": 127, "tensor-128": -128, "tensor3": 3}.get(zstyle, 127)]
    elif zstyle == "axis":
        wz = [rng.choice([3, -2, 5, 1, -128, 127, 0]) for _ in range(oc)]
        if not any(wz):
            wz[0] = 7
    elif zstyle == "axis_ends":
        wz = [127 if i % 2 else -128 for i in range(oc)]
    else:
        wz = [0] * oc
        wz[rng.randrange(oc)] = rng.choice([1, -1, 127])
    ws = [0.01 * (i + 1) for i in range(nq)]
    wshape = {"conv": [oc, 1, 1, c], "conv_shared": [oc, 1, 1, c], "dw": [1, 1, 1, oc], "fc": [oc, c]}[op]
    qdim = 3 if op == "dw" else 0
    if const:
        wt = b.const(wshape, "int8", b.rand_weights(wshape, "int8"), ws, wz, qdim, b.fresh("w"))
    else:
        wt = b.net.add(T(b.fresh("input"), wshape, "int8", ws, wz, qdim))
        b.net.inputs.append(wt)
    why = why or ("dyn_weights" if not const and rng.random() < 0.5 else rng.choice(["stride4", "stride4", "batch2"]))
    if why == "dyn_weights" and const:
        why = "stride4"
    if why == "stride4" and h <= 4 and op != "dw":
        why = "batch2"          # a convolution with stride 4 and a one-row OFM is accepted
    x = cur
    if why == "batch2":
        x = _to_batch2(b, cur)
        if x is None:
            if h <= 4 and op != "dw":
                return None
            x, why = cur, "stride4"
    s = 4 if why == "stride4" else 1
    xs = b.t(x).shape
    bias = _bias(b, oc, dt, nq)
    if op == "fc":
        flat = b.reshape(cur, [h * w, c])
        o = b.fm([h * w, oc], dt)
        # FULLY_CONNECTED is not an operator fixup_asymmetric_weights looks at; kept here so that it stays that way
        b.net.ops.append(Op("FULLY_CONNECTED", [flat, wt, bias], [o], ("FullyConnectedOptions", dict(FusedActivationFunction=0))))
        why = "fc"
    elif op == "dw":
        o = b.fm([xs[0], -(-xs[1] // s), -(-xs[2] // s), oc], dt)
        b.net.ops.append(Op("DEPTHWISE_CONV_2D", [x, wt, bias], [o], ("DepthwiseConv2DOptions", dict(
            Padding=0, StrideW=s, StrideH=s, DepthMultiplier=1, DilationWFactor=1, DilationHFactor=1, FusedActivationFunction=rng.choice([0, 1])))))
    else:
        o = b.fm([xs[0], -(-xs[1] // s), -(-xs[2] // s), oc], dt)
        copts = ("Conv2DOptions", dict(Padding=0, StrideW=s, StrideH=s, DilationWFactor=1, DilationHFactor=1, FusedActivationFunction=rng.choice([0, 1, 3])))
        b.net.ops.append(Op("CONV_2D", [x, wt, bias], [o], copts))
        if op == "conv_shared":
            # the same weight tensor also feeds a convolution the NPU accepts (stride 1)
            o2 = b.fm([1, h, w, oc], dt)
            b.net.ops.append(Op("CONV_2D", [cur, wt, bias], [o2], ("Conv2DOptions", dict(
                Padding=0, StrideW=1, StrideH=1, DilationWFactor=1, DilationHFactor=1, FusedActivationFunction=0))))
            live.append(o2)
            b.extra_outputs = getattr(b, "extra_outputs", []) + [o2]
    feats.add("force_symmetric_case")
    feats.add(f"fsym_{op}_{'const' if const else 'dynamic'}_{'per_axis' if per_axis else 'per_tensor'}_{why}")
    b.net.desc.append(f"fsym:{op}:{zstyle}:{'const' if const else 'dyn'}:{why}")
    b.want_fsym = True
    ot = b.t(o)
    if len(ot.shape) != 4 or ot.shape[0] != 1:
        o = _custom(b, o, [1, int(np.prod(ot.shape[:-1])), 1, ot.shape[-1]], dt, xt.scales[0], xt.zps[0])
    return o


# ------------------------------------------------------------------------------------------------------------------------
# RESHAPE-like operators on the CPU


def reshape_cpu(b, cur, feats, live, variant=None):
    """RESHAPE that stays on the CPU: a dimension above 65535, -1 in the shape operand and/or the new_shape option, a
    run-time shape operand, no shape operand at all, no option table.  Big variants work on an input of their own (a side
    branch that becomes a subgraph output)."""
    rng = b.rng
    xt = b.t(cur)
    variant = variant or rng.choice(["big", "big_minus1", "big_dyn", "dyn_shape", "minus1_quant_mismatch", "no_operand_mismatch", "no_option_mismatch",
                                     "minus1_per_axis", "big_squeeze", "big_expand"])
    dt = xt.dtype if xt.dtype in QUANT else "int8"
    feats.add("reshape_cpu_" + variant)
    b.net.desc.append("reshape_cpu:" + variant)
    if variant.startswith("big"):
        big = rng.choice([65536, 72000, 70001])
        src_shape = rng.choice([[1, big], [1, 1, 1, big], [big, 1], [1, 2, big]])
        x = b.input(src_shape, dt)
        xq = b.t(x)
        total = int(np.prod(src_shape))
        if variant == "big_squeeze":
            shp = [d for d in src_shape if d != 1]
            o = b.fm(shp, dt, scale=xq.scales[0], zp=xq.zps[0])
            b.net.ops.append(Op("SQUEEZE", [x], [o], ("SqueezeOptions", dict(SqueezeDims=[i for i, d in enumerate(src_shape) if d == 1]))))
        elif variant == "big_expand":
            shp = [1] + src_shape
            ax = b.const([], "int32", [0], name=b.fresh("axis"))
            o = b.fm(shp, dt, scale=xq.scales[0], zp=xq.zps[0])
            b.net.ops.append(Op("EXPAND_DIMS", [x, ax], [o], ("ExpandDimsOptions", {})))
        else:
            shp = rng.choice([[1, 1, total], [total], [1, total // 2, 2, 1], [total, 1]])
            operand = list(shp)
            option = list(shp)
            if variant == "big_minus1":
                k = rng.randrange(len(shp))
                operand[k] = -1
                if rng.random() < 0.5:
                    option[k] = -1
            o = b.fm(shp, dt, scale=xq.scales[0], zp=xq.zps[0])
            if variant == "big_dyn":
                st = b.net.add(T(b.fresh("input"), [len(shp)], "int32"))
                b.net.inputs.append(st)
            else:
                st = b.const([len(shp)], "int32", operand, name=b.fresh("shape"))
            b.net.ops.append(Op("RESHAPE", [x, st], [o], ("ReshapeOptions", dict(NewShape=option))))
        b.extra_outputs = getattr(b, "extra_outputs", []) + [o]
        return cur
    if not (xt.dtype in QUANT and xt.scales and len(xt.scales) == 1 and len(xt.shape) == 4):
        return None
    n, h, w, c = xt.shape
    shp = rng.choice([[n, h * w, 1, c], [n, 1, h * w, c], [n, w, h, c], [n * h * w, c]])
    operand, option = list(shp), list(shp)
    if variant.startswith("minus1"):
        k = rng.randrange(len(shp))
        operand[k] = -1
        if rng.random() < 0.5:
            option[k] = -1
    o = b.fm(shp, dt, scale=xt.scales[0], zp=xt.zps[0])
    ot = b.t(o)
    if variant == "dyn_shape":
        st = b.net.add(T(b.fresh("input"), [len(shp)], "int32"))
        b.net.inputs.append(st)
        ins, opts = [cur, st], ("ReshapeOptions", dict(NewShape=option))
    elif variant == "no_operand_mismatch":
        ins, opts = [cur], ("ReshapeOptions", dict(NewShape=option))
    elif variant == "no_option_mismatch":
        ins, opts = [cur, b.const([len(shp)], "int32", operand, name=b.fresh("shape"))], None
    else:
        ins, opts = [cur, b.const([len(shp)], "int32", operand, name=b.fresh("shape"))], ("ReshapeOptions", dict(NewShape=option))
    if variant.endswith("mismatch"):
        ot.zps = [ot.zps[0] + (1 if ot.zps[0] < 100 else -1)]          # input and output quantisation differ: stays on the CPU
    if variant == "minus1_per_axis" and shp[-1] >= 2:
        ot.scales, ot.zps, ot.qdim = [ot.scales[0]] * shp[-1], [ot.zps[0]] * shp[-1], len(shp) - 1
    b.net.ops.append(Op("RESHAPE", ins, [o], opts))
    if len(shp) != 4 or shp[0] != 1 or len(ot.scales) != 1:
        o = _custom(b, o, [1, h, w, c] if n == 1 else [1, n * h, w, c], dt, xt.scales[0], xt.zps[0])
    return o


def rejected_net(rng, idx=0):
    """one or two of the constructs above on a fresh input (C13 / C16 use; C11 embeds them in its N/C patterns)"""
    dtype = rng.choice(["int8", "int8", "uint8", "int16"])
    b = netgen.B(rng, f"rej{idx}", dtype)
    b.set_extremes(0.2)
    x = b.input([1, rng.choice([2, 4, 6, 8]), rng.randint(1, 8), rng.choice([1, 2, 4, 8, 16])])
    feats, live = set(), [x]
    cur = x
    if rng.random() < 0.3:
        cur = b.conv(x, b.t(x).shape[3], (1, 1), (1, 1), (1, 1), "SAME", per_channel=False) or x
    for _ in range(rng.randint(1, 2)):
        fn = rng.choice([rejected_op] * 6 + [fsym_op] * 2 + [reshape_cpu] * 2)
        new = fn(b, cur, feats, live)
        if new is not None:
            cur = new
            live.append(cur)
    if cur == x:
        cur = b.unary("RELU", x)
    ct = b.t(cur)
    if len(ct.shape) == 4 and ct.shape[0] == 1 and ct.shape[3] <= 16 and ct.scales and len(ct.scales) == 1 and rng.random() < 0.3:
        cur = b.conv(cur, ct.shape[3], (1, 1), (1, 1), (1, 1), "SAME", per_channel=False) or cur
    outs = [cur] + [e for e in getattr(b, "extra_outputs", []) if e != cur]
    net = b.finish(outs)
    if getattr(b, "want_fsym", False):
        net.extra_opts = ["--force-symmetric-int-weights"]
    net.features = feats
    return net
