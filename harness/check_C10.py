#!/venv/bin/python
"""C10 — splitting an operator into stripes does not change what it computes.

proofs (Props/C10.lean) over Model/Box.lean, Model/Stripes.lean, Model/Cascade.lean +
  A. correspondence of the models with the real Box.transform_with_strides_and_skirt, create_padding,
     needed_total_padding, calc_explicit_padding, calc_padding_and_skirt, calc_upscaled_padding_and_skirt,
     get_ifm_area_required, rolling_buffer_shape, addresses_for_rolling_buffer (exhaustive small scope + random),
     and the Lean Spec (Spec/Receptive.lean: receptive field, box coverage) on the IMPLEMENTATION's outputs;
  B. the real generate_high_level_commands_for_sched_op driven with mock scheduler objects: issue order ==
     Model/Cascade.cascadeOrder, and the Lean Spec (partition, rolling-buffer simulation) on the real order;
  C. compiled generated networks: every stripe of sg.high_level_command_stream → Lean Spec (partition of the
     operator's OFM, receptive field rows/columns with the padding create_padding handed to the NPU operation,
     rolling-buffer rule on the issue order) + model issue order == real issue order per cascade.
Every verdict is a Lean definition's."""
import itertools
import os
import sys

import common
import c10_lib as L
import siblings
from common import Check, main_wrapper



class PadL(list):
    """hardware padding (top, left, bottom, right) plus `.orig`, the padding the operator was specified with"""
    orig = None


def ntp(h, s, k):
    return max(k - s, 0) if h % s == 0 else max(k - (h % s), 0)


# ------------------------------------------------------------------------------------------------
# A. function level


def part_a(ck):
    from ethosu.vela import architecture_allocator, cascade_builder, graph_optimiser_util as gu
    from ethosu.vela import tflite_graph_optimiser as tgo
    from ethosu.vela.ethos_u55_regs.ethos_u55_regs import resampling_mode
    from ethosu.vela.operation import Kernel, Padding
    from ethosu.vela.shape4d import Shape4D

    rng = ck.rng
    reqs, reals, metas = [], [], []          # model correspondence
    spec, spec_meta = [], []                 # Lean Spec on implementation outputs

    def add(req, real, meta=None):
        reqs.append(req)
        reals.append(real)
        metas.append(meta)

    PM = {0: Padding.SAME, 1: Padding.VALID, 2: Padding.EXPLICIT, 3: Padding.TILE}

    def calc_pads(mode, k, s, d, H, W, ex):
        kern = Kernel(k, k, s, s, d, d)
        pad, skirt = tgo.calc_padding_and_skirt(PM[mode], kern, Shape4D([1, H, W, 8]), ex)
        kd = (k - 1) * d + 1
        add("cps %d %d %d %d %d %d %d %s" % (mode, kd, kd, s, s, H, W, " ".join(map(str, ex or (0, 0, 0, 0)))),
            " ".join(str(int(x)) for x in list(pad) + list(skirt)))
        p_ = PadL(int(x) for x in pad)
        # the operator's OUTPUT size follows from the ORIGINAL padding (PAD operator + VALID window), not from what
        # calc_explicit_padding made of it: a trailing padding it drops must show up as a Spec rejection of the last row
        p_.orig = [int(x) for x in ex] if mode == 2 else list(p_)
        return p_, [int(x) for x in skirt]

    def one_stripe(H, W, k, s, d, pad, skirt, OH, y0, y1, up, mode, w0=0, split=None, in_domain=True, tag=""):
        """one transform call, its create_padding, and the Spec lines (rows and columns).
        `split = (off_h, off_w, TH, TW)`: the operator reads the slice [off_h, off_h+H) x [off_w, off_w+W) of a TH x TW tensor."""
        kd = (k - 1) * d + 1
        po = getattr(pad, "orig", pad)
        ow_true = (W + po[1] + po[3] - kd) // s + 1 if up == 1 else W * up
        OW = max(ow_true, 1)
        concat = [0, w0, 0, 0]
        TH, TW, off_h, off_w = H, W, 0, 0
        sp = None
        if split is not None:
            off_h, off_w, TH, TW = split
            sp = ([0, off_h, off_w, 0], [1, H, W, 8])
        args = ([0, y0 + w0, 0, 0], [1, y1 + w0, OW, 8], (s, s), skirt, [1, TH, TW, 8], True, concat, kd, sp, up, False)
        real = L.real_transform(*args)
        add("box " + " ".join(L.tin_tokens(*args)), real, ("box", tag))
        if not real.startswith("ok"):
            ck.count("box_" + real)
            return
        v = list(map(int, real.split()[1:]))
        a, b, bx0, bx1, cpt, cpb = v[1], v[5], v[2], v[6], v[8], v[9]
        first, last = y0 == 0, y1 >= OH
        cp_args = (False, pad, first, last, cpt, cpb, bx0, bx1, (off_w, W) if split is not None else None, TW, False)
        rp = L.real_create_padding(*cp_args)
        add("cpad 0 %d %d %d %d %d %d %d %d %d %d %s %s %d 0" % (pad[0], pad[1], pad[2], pad[3], first, last, cpt, cpb, bx0, bx1,
                                                                  off_w if split is not None else "-", W if split is not None else "-", TW), rp, ("cpad", tag))
        if not in_domain:
            ck.count("spec_skipped_outside_reachable_domain")
            return
        t, le, bo, ri = map(int, rp.split())
        meta = dict(H=H, W=W, k=k, s=s, d=d, pad=pad, skirt=skirt, OH=OH, OW=OW, y0=y0, y1=y1, up=up, mode=mode, a=a, b=b, pt=t, pb=bo,
                    tag=tag, write_offset_h=w0, split=split, raw_pads=[cpt, cpb], ry0=y0, ry1=y1)
        spec.append(f"recv {k} {s} {d} {pad[0]} {H} {off_h} {up} {mode} {y0} {y1 - y0} {a} {b} {t} {bo}")
        spec_meta.append(dict(meta, axis="rows"))
        if up == 1 and ow_true >= 1:
            spec.append(f"recv {k} {s} {d} {pad[1]} {W} {off_w} 1 0 0 {OW} {bx0} {bx1} {le} {ri}")
            spec_meta.append(dict(meta, axis="cols", H=W, y0=0, y1=OW, OH=OW + 1, a=bx0, b=bx1, pt=le, pb=ri))

    # --- exhaustive small scope, upscaling 1 ---------------------------------------------------------
    hmax = 12
    for H in range(1, hmax + 1):
        for k in range(1, 9):
            for s in (1, 2, 3):
                for d in (1, 2):
                    kd = (k - 1) * d + 1
                    half = kd // 2
                    expl = sorted({(t, b) for t in {0, 1, half} for b in {0, 1, half} if t <= half and b <= half})
                    if not ck.thorough and kd > 5:
                        expl = [e for e in expl if e in ((0, half), (half, half), (1, 0))]
                    modes = [(0, None), (1, None)] + [(2, (t, t, b, b)) for t, b in expl]
                    for mode, ex in modes:
                        pad, skirt = calc_pads(mode, k, s, d, H, 9, ex)
                        OH = (H + pad.orig[0] + pad.orig[2] - kd) // s + 1
                        if OH < 1 or OH > hmax + 1:
                            continue
                        if mode == 2:
                            mx = half
                            if not (pad[0] == mx or mx <= s or pad[0] % s == 0):   # _leading_pad_ok: PAD is not fused otherwise
                                ck.count("explicit_leading_pad_not_fusable")
                                continue
                        for y0 in range(OH):
                            for y1 in range(y0 + 1, OH + 1):
                                if not ck.thorough and kd > 5 and (y1 - y0) not in (1, 2, 3, OH - y0):
                                    continue
                                one_stripe(H, 9, k, s, d, pad, skirt, OH, y0, y1, 1, 0, tag="small")
                        # write offsets / read offsets on a few stripes
                        if OH >= 2:
                            one_stripe(H, 9, k, s, d, pad, skirt, OH, 0, OH - 1, 1, 0, w0=3, tag="concat")
                            one_stripe(H, 9, k, s, d, pad, skirt, OH, 1, OH, 1, 0, w0=5, tag="concat")
                        # fused slice reads: the operator reads rows [off_h, off_h+H) / columns [off_w, off_w+9) of a larger tensor
                        for split in ((2, 0, H + 2, 9), (0, 3, H + 3, 14), (3, 2, H + 5, 11)):
                            stripes = [(y0, y1) for y0 in range(OH) for y1 in range(y0 + 1, OH + 1)]
                            if OH > 4 and not ck.thorough:
                                stripes = [(0, OH), (0, 1), (1, OH), (OH - 1, OH), (1, 3)]
                            for y0, y1 in stripes:
                                one_stripe(H, 9, k, s, d, pad, skirt, OH, y0, y1, 1, 0, split=split, tag="split")
    # --- upscaling 2: transpose convolution and nearest-neighbour resize ------------------------------
    for H in range(1, 7):
        for k in range(1, 9):
            for pm, mname in ((0, "SAME"), (1, "VALID")):
                pad, skirt = tgo.calc_upscaled_padding_and_skirt(PM[pm], (k, k), (1, 1, 1, 1), Shape4D([1, H, 9, 8]), 2, 2)
                add(f"cups {pm} {k} {k} 1 1 {H} 9 2 2", " ".join(str(int(x)) for x in list(pad) + list(skirt)))
                pad, skirt = [int(x) for x in pad], [int(x) for x in skirt]
                OH = H * 2 if pm == 0 else H * 2 + max(k - 2, 0)
                for y0 in range(OH):
                    for y1 in range(y0 + 1, OH + 1):
                        dom = y0 % 2 == 0 and (y1 % 2 == 0 or y1 == OH)
                        one_stripe(H, 9, k, 1, 1, pad, skirt, OH, y0, y1, 2, 2, in_domain=dom, tag="transpose")
            nn = [(1, None)] + [(2, (0, 0, b, 0)) for b in range(0, k)] + ([(0, None)] if k == 1 else [])
            for mode, ex in nn:
                pad, skirt = calc_pads(mode, k, 1, 1, H, 9, ex)
                OH = (H * 2 + pad[0] + pad[2] - k) + 1
                if OH < 1:
                    continue
                for y0 in range(OH):
                    for y1 in range(y0 + 1, OH + 1):
                        dom = y0 % 2 == 0 and (y1 % 2 == 0 or y1 == OH)
                        one_stripe(H, 9, k, 1, 1, pad, skirt, OH, y0, y1, 2, 1, in_domain=dom, tag="nearest")
    n_exh = len(reqs)
    # --- random, beyond the small scope (rows) ------------------------------------------------------
    for _ in range(2000 if not ck.thorough else 27000):
        H = rng.choice([rng.randint(1, 40), rng.randint(13, 300)])
        k, s, d = rng.randint(1, 8), rng.randint(1, 3), rng.randint(1, 2)
        kd = (k - 1) * d + 1
        mode = rng.choice([0, 0, 1, 2])
        ex = (rng.randint(0, kd // 2), 0, rng.randint(0, kd // 2), 0) if mode == 2 else None
        pad, skirt = calc_pads(mode, k, s, d, H, 9, ex)
        OH = (H + pad.orig[0] + pad.orig[2] - kd) // s + 1
        if OH < 1:
            continue
        if mode == 2 and not (pad[0] == kd // 2 or kd // 2 <= s or pad[0] % s == 0):
            continue
        y0 = rng.randrange(OH)
        y1 = rng.randint(y0 + 1, OH)
        w0_ = rng.choice([0, 0, rng.randint(0, 9)])
        sp_ = None
        if rng.random() < 0.3:
            sp_ = (rng.randint(0, 3), rng.randint(0, 3), H + 5, 14)      # fused slice read: rows [off_h, off_h+H) of a taller tensor
        one_stripe(H, 9, k, s, d, pad, skirt, OH, y0, y1, 1, 0, w0=w0_, split=sp_, tag="random")
        # history: the same operator, ONE argument of the stripe changed, right after its base (the exhaustive scopes above contain
        # every one-argument neighbour anyway; the random stream beyond the small scope did not)
        if rng.random() < 0.6:
            f = rng.choice(["y1", "y0", "w0", "skirt", "pad", "split", "split"])
            if f == "split":
                # the read offset alone changes (or appears / disappears)
                sp2 = (sp_[0] + 1, sp_[1], sp_[2], sp_[3]) if sp_ is not None and rng.random() < 0.7 else (None if sp_ is not None else (2, 1, H + 5, 14))
                one_stripe(H, 9, k, s, d, pad, skirt, OH, y0, y1, 1, 0, w0=w0_, split=sp2, tag="random-sibling")
                ck.count("A_sibling_stripes")
                continue
            if f == "y1" and OH - y0 >= 2:
                one_stripe(H, 9, k, s, d, pad, skirt, OH, y0, rng.choice([y for y in range(y0 + 1, OH + 1) if y != y1]), 1, 0, w0=w0_, split=sp_, tag="random-sibling")
            elif f == "y0" and y1 >= 2:
                one_stripe(H, 9, k, s, d, pad, skirt, OH, rng.choice([y for y in range(0, y1) if y != y0] or [y0]), y1, 1, 0, w0=w0_, split=sp_, tag="random-sibling")
            elif f == "w0":
                one_stripe(H, 9, k, s, d, pad, skirt, OH, y0, y1, 1, 0, w0=w0_ + rng.randint(1, 5), split=sp_, tag="random-sibling")
            elif f == "skirt":
                sk2 = list(skirt)
                sk2[rng.choice([0, 2])] += 1
                one_stripe(H, 9, k, s, d, pad, sk2, OH, y0, y1, 1, 0, w0=w0_, split=sp_, in_domain=False, tag="random-sibling")
            elif f == "pad" and pad[2] > 0:
                p2 = PadL(pad)
                p2[0], p2[2] = pad[0] + 1, pad[2] - 1
                p2.orig = list(p2)
                one_stripe(H, 9, k, s, d, p2, skirt, OH, y0, y1, 1, 0, w0=w0_, split=sp_, in_domain=False, tag="random-sibling")
            ck.count("A_sibling_stripes")
    # --- random, all four axes, arbitrary (also unreachable) parameters: model correspondence only ---
    for _ in range(4200 if not ck.thorough else 42000):
        ifm = [1, rng.randint(1, 20), rng.randint(1, 20), rng.choice([1, 3, 8, 16, 17])]
        bs = [0, rng.randint(0, 24), rng.randint(0, 24), rng.randint(0, 17)]
        be = [1, bs[1] + rng.randint(0, 9), bs[2] + rng.randint(0, 9), bs[3] + rng.randint(0, 17)]
        strides = rng.choice([None, (rng.randint(1, 3), rng.randint(1, 3)), (rng.randint(1, 3), rng.randint(1, 3))])
        skirt = rng.choice([None, [rng.randint(0, 4), rng.randint(0, 4), rng.randint(-1, 5), rng.randint(-1, 5)],
                            [rng.randint(0, 4), rng.randint(0, 4), rng.randint(-1, 5), rng.randint(-1, 5)]])
        concat = rng.choice([[0, 0, 0, 0], [0, rng.randint(0, 6), rng.randint(0, 6), rng.randint(0, 6)]])
        split = None
        if rng.random() < 0.3:
            off = [0, rng.randint(0, 5), rng.randint(0, 5), rng.randint(0, 5)]
            split = (off, [1, rng.randint(1, 12), rng.randint(1, 12), rng.randint(1, 12)])
        up = rng.choice([1, 1, 1, 2, 2, 4, 3]) if not (strides and skirt and rng.random() < 0.02) else 0
        args = (bs, be, strides, skirt, ifm, rng.random() < 0.5, concat, rng.randint(1, 15), split, up, rng.random() < 0.25)
        add("box " + " ".join(L.tin_tokens(*args)), L.real_transform(*args), ("box", "random4d"))
        if rng.random() < 0.5 and up != 0:
            # one-argument sibling of the call above, same process, right after it
            # (the box start may only move down and the end only up: Box() itself refuses start > end)
            alts = {0: siblings.bump_elem(0, lo=0, only=(1, 2, 3), steps=(-1, -2, -7)), 1: siblings.bump_elem(1, lo=0, only=(1, 2, 3), steps=(1, 2, 7)),
                    2: lambda r, b: None if b[2] else (r.randint(1, 3), r.randint(1, 3)),
                    3: lambda r, b: None if b[3] else [r.randint(0, 4), r.randint(0, 4), r.randint(0, 5), r.randint(0, 5)],
                    4: siblings.bump_elem(4, lo=1, only=(1, 2, 3)), 5: siblings.toggle(5), 6: siblings.bump_elem(6, lo=0, only=(1, 2, 3)),
                    7: lambda r, b: b[7] + r.choice([1, 2]),
                    8: lambda r, b: ([0, r.randint(0, 5), r.randint(0, 5), r.randint(0, 5)], [1, r.randint(1, 12), r.randint(1, 12), r.randint(1, 12)]) if b[8] is None
                    else (None if r.random() < 0.3 else ([0, b[8][0][1] + 1, b[8][0][2], b[8][0][3]], b[8][1])), 9: siblings.choice_other(9, [1, 2, 4]), 10: siblings.toggle(10)}
            for pos, a2 in siblings.derive(rng, args, alts, 1):
                add("box " + " ".join(L.tin_tokens(*a2)), L.real_transform(*a2), ("box", "random4d-sibling"))
                ck.count("A_sibling_box_arg_%d" % pos)
    # --- small functions ---------------------------------------------------------------------------------
    for h, s, k in itertools.product(range(0, 30), range(0, 5), range(0, 17)):
        try:
            r = str(int(gu.needed_total_padding(h, s, k)))
        except ZeroDivisionError:
            r = "err:value"
        add(f"ntp {h} {s} {k}", r)
    for h, s, k, b, a in itertools.product((1, 2, 5, 7, 8, 9, 12), (1, 2, 3), (1, 2, 3, 5, 7), range(0, 5), range(0, 5)):
        r = gu.calc_explicit_padding(h, s, k, b, a)
        add(f"cexp {h} {s} {k} {b} {a}", f"{int(r[0])} {int(r[1])}")
    for _ in range(1500):
        k, s, d, H, W = rng.randint(1, 8), rng.randint(1, 3), rng.randint(1, 2), rng.randint(1, 300), rng.randint(1, 300)
        mode = rng.randrange(4)
        calc_pads(mode, k, s, d, H, W, (rng.randint(0, 6), rng.randint(0, 6), rng.randint(0, 6), rng.randint(0, 6)) if mode >= 2 else None)
    for oh, ow, sy, sx, ah, aw in itertools.product((1, 2, 3, 7, 16), (1, 5), (1, 2, 3), (1, 2), (1, 2, 3, 5, 15), (1, 3)):
        for rm in (resampling_mode.NONE, resampling_mode.NEAREST, resampling_mode.TRANSPOSE):
            kern = Kernel(aw, ah, sx, sy, 1, 1)
            w, h = architecture_allocator.get_ifm_area_required(Shape4D([1, oh, ow, 8]), kern, rm)
            up = 1 if rm == resampling_mode.NONE else 2
            add(f"ifmarea {oh} {ow} {sy} {sx} {ah} {aw} {up} {int(rm == resampling_mode.NEAREST)}", f"{int(w)} {int(h)}")
    for ph, pw, pd, ch, cw in itertools.product(range(1, 13), (1, 7, 8), (1, 16, 17, 40), range(1, 13), (1, 8, 9)):
        has_over = hasattr(cascade_builder, "ifm_box_overread")     # absent before the rolling-buffer repair
        for over in ((0, 1, 2, 3) if pw == 1 and pd == 1 and has_over else (0,)):
            r = cascade_builder.rolling_buffer_shape(Shape4D([1, ph, pw, pd]), Shape4D([1, ch, cw, 3]), *([over] if has_over else []))
            add(f"rbs {ph} {pw} {pd} {ch} {cw} {over}", f"{int(r.height)} {int(r.width)} {int(r.depth)}")
    from types import SimpleNamespace as NS_
    for k_, s_, d_ in (itertools.product(range(1, 9), (1, 2, 3), (1, 2)) if hasattr(cascade_builder, "ifm_box_overread") else ()):
        for sk in (None, (0, 0), (1, 0), (0, 2), (2, 2), (1, 3), (3, 5), (0, -1)):
            cons = NS_(parent_op=NS_(attrs={"skirt": (sk[0], 9, sk[1], 9)} if sk is not None else {}), kernel=Kernel(k_, k_, s_, s_, d_, d_))
            add("overread %s %s %d %d" % (sk[0] if sk else "-", sk[1] if sk else "-", s_, (k_ - 1) * d_ + 1), str(int(cascade_builder.ifm_box_overread(cons))))
    # addresses_for_rolling_buffer on a real Tensor object
    from ethosu.vela.data_type import DataType
    from ethosu.vela.errors import UnsupportedFeatureError
    from ethosu.vela.tensor import Tensor, TensorFormat, TensorPurpose, TensorSubPurpose

    arb_cases = [(y0, y1, 0, 8, B, 8) for B in range(1, 10) for y0 in range(0, 20) for y1 in range(y0 + 1, min(y0 + 2 * B + 2, 24))]
    arb_cases += [(rng.randint(0, 30), 0, rng.randint(0, 9), 0, rng.randint(1, 12), rng.randint(1, 12)) for _ in range(800)]
    for (y0, y1, x0, x1, B, SW) in arb_cases:
        if y1 <= y0:
            y1 = y0 + rng.randint(1, 2 * B + 1)
        if x1 <= x0:
            x1 = x0 + rng.randint(1, SW + 2)
        t = Tensor([1, 64, 64, 16], DataType.int8, "t")
        t.format, t.purpose, t.sub_purpose = TensorFormat.NHWC, TensorPurpose.FeatureMap, TensorSubPurpose.RollingBufferY
        t.storage_shape = [1, B, SW, 16]
        strides = t.get_strides(Shape4D([1, 64, 64, 16]))
        sy_ = int(strides[2])
        t.address = 1000 * sy_
        try:
            h0, _h1, w0, ad = t.addresses_for_rolling_buffer([0, y0, x0, 0], [1, y1, x1, 16], strides, Shape4D([1, 64, 64, 16]))
            s0 = (int(ad[0]) - t.address - (x0 % SW) * 16) // sy_
            s2 = "-" if int(ad[2]) == 0 else str((int(ad[2]) - t.address - (x0 % SW) * 16) // sy_)
            r = f"{int(h0)} {int(w0)} {s0} {s2}"
            if y1 - y0 <= B:     # a box at most as high as the buffer: the Lean Spec judges the implementation's tiles
                spec.append(f"tiles {y0} {y1} {B} {int(h0)} {s0} {s2}")
                spec_meta.append(dict(tiles=True, y0=y0, y1=y1, B=B, x0=x0, x1=x1, SW=SW, result=r))
        except UnsupportedFeatureError:
            r = "err:unsupported"
        add(f"arb {y0} {y1} {x0} {x1} {B} {SW}", r)

    outs = ck.model(reqs)
    dis = [i for i, (m, r) in enumerate(zip(outs, reals)) if m != r]
    for rq, r in zip(reqs, reals):
        ck.count("A_req_" + rq.split(" ", 1)[0])
    sp = ck.model(spec) if spec else []
    bad = [(i, o) for i, o in enumerate(sp) if not (o.startswith("recv=1 cov=1") or (o == "1" and spec[i].startswith("tiles")))]
    return dict(reqs=reqs, reals=reals, outs=outs, dis=dis, metas=metas, spec=spec, spec_meta=spec_meta, spec_out=sp, spec_bad=bad,
                n_exhaustive=n_exh)


# ------------------------------------------------------------------------------------------------
# B. the real generator on mock scheduler objects


def rup(a, b):
    return (a + b - 1) // b * b


def part_b(ck):
    from ethosu.vela import architecture_allocator, cascade_builder, tflite_graph_optimiser as tgo
    from ethosu.vela.ethos_u55_regs.ethos_u55_regs import resampling_mode
    from ethosu.vela.operation import Kernel, Padding
    from ethosu.vela.shape4d import Shape4D

    rng = ck.rng
    reqs, reals, metas = [], [], []
    spec, spec_meta = [], []

    def run(mops, meta):
        sched_ops, schedule, pss = L.build_mock_cascade(mops)
        real = L.run_real_generator(sched_ops, schedule, pss)
        descs = [L.opdesc_token(L.opdesc(so, schedule)) for so in sched_ops]
        reqs.append("cascade " + " ".join(descs))
        reals.append(real)
        metas.append(meta)
        return real, [L.opdesc(so, schedule) for so in sched_ops]

    def conv_op(H, W, C, k, s, d, mode, step, slices, OC=None, stepw=None, pool=False, conv=True, wo=None, full=None):
        dh, dw = d if isinstance(d, tuple) else (d, d)        # d = (height dilation, width dilation)
        sy_, sx_ = s if isinstance(s, tuple) else (s, s)      # s = (vertical stride, horizontal stride)
        kern = Kernel(k, k, sx_, sy_, dw, dh)
        pad, skirt = tgo.calc_padding_and_skirt(Padding.SAME if mode == 0 else Padding.VALID, kern, Shape4D([1, H, W, C]), None)
        kd = (k - 1) * dh + 1
        OH = (H + pad[0] + pad[2] - kd) // sy_ + 1
        OW = (W + pad[1] + pad[3] - ((k - 1) * dw + 1)) // sx_ + 1
        if OH < 1 or OW < 1:
            return None
        OC = OC or C
        m = L.MockOp([1, H, W, C], [1, OH, OW, OC], k, s, d, [int(x) for x in skirt], (step, stepw or OW), slices, conv=conv, pool=pool)
        m.pad = [int(x) for x in pad]
        if wo is not None:
            m.write_offset, m.write_shape = wo, [1, OH, OW, OC]
            m.ofm_shape = full
        return m

    # --- B1: the three nested loops of a single operator -------------------------------------------------
    def slices_for(rng, d, exhaustive_i=None):
        opts = [[0, d], [0, min(16, d), d] if d > 16 else [0, d], sorted({0, d} | {rng.randrange(1, d) for _ in range(rng.randint(0, 3))} if d > 1 else {0, d})]
        return opts[exhaustive_i] if exhaustive_i is not None else rng.choice(opts)

    n_b1 = 0
    for OHt in range(1, 13):
        for step in range(1, OHt + 2):
            for (W, stepw) in ((3, 3), (3, 2), (1, 1)) if (ck.thorough or step <= 4 or step >= OHt) else ((3, 3),):
                for si in range(3):
                    d = rng.choice([8, 24, 40])
                    m = L.MockOp([1, OHt, W, 8], [1, OHt, W, d], 1, 1, 1, [0, 0, 0, 0], (step, stepw), slices_for(rng, d, si), conv=True)
                    real, ds = run([m], ("loops", OHt, step, W, stepw))
                    n_b1 += 1
                    add_partition(spec, spec_meta, real, ds[0], ("loops", OHt, step, W, stepw, ds[0]["slices"]))
    for _ in range(600 if not ck.thorough else 6000):
        OHt, W, d = rng.randint(1, 30), rng.randint(1, 9), rng.choice([1, 3, 8, 16, 24, 40, 64])
        step, stepw = rng.randint(1, OHt + 1), rng.choice([W, W, rng.randint(1, W)])
        sl = slices_for(rng, d)
        kw = {}
        r = rng.random()
        if r < 0.15:       # concat write along H / W / C into a bigger tensor
            wo = [0, rng.randint(0, 5), rng.randint(0, 3), rng.choice([0, 16])]
            full = [1, OHt + wo[1] + rng.randint(0, 3), W + wo[2], d + wo[3]]
            kw = dict(write_offset=wo, write_shape=[1, OHt, W, d])
            sl = [0, full[3]] if rng.random() < 0.7 else [0, 16, full[3]]
            m = L.MockOp([1, OHt, W, 8], full, 1, 1, 1, [0, 0, 0, 0], (step, stepw), sl, conv=True, **kw)
        elif r < 0.2:      # malformed: step 0 / unsorted slices / slices not reaching the depth
            sl = rng.choice([[0, d, max(d - 1, 0)], [d, 0], [0, max(d - 1, 1)], sl])
            m = L.MockOp([1, OHt, W, 8], [1, OHt, W, d], 1, 1, 1, [0, 0, 0, 0], (rng.choice([0, step]), rng.choice([0, stepw])), sl, conv=True)
        elif r < 0.35:     # fused slice read: a strided / padded operator over rows [off_h, off_h+H) x columns [off_w, off_w+W) of a bigger tensor
            k_, s_ = rng.choice([1, 2, 3, 5]), rng.choice([1, 2, 3])
            H_, W_ = rng.randint(k_, 14), rng.randint(k_, 9)
            mm = conv_op(H_, W_, 8, k_, s_, 1, rng.randint(0, 1), 1, [0, 8])
            if mm is None:
                continue
            off = [0, rng.randint(0, 4), rng.randint(0, 3), 0]
            mm.read_offset, mm.read_shape = off, [1, H_, W_, 8]
            mm.ifm_shape = [1, H_ + off[1] + rng.randint(0, 3), W_ + off[2] + rng.randint(0, 2), 8]
            mm.step = (rng.randint(1, mm.ofm_shape[1]), mm.ofm_shape[2])
            m = mm
            ck.count("B_fused_slice_reads")
        else:
            m = L.MockOp([1, OHt, W, 8], [1, OHt, W, d], 1, 1, 1, [0, 0, 0, 0], (step, stepw), sl, conv=rng.random() < 0.5)
        real, ds = run([m], ("loops-random",))
        n_b1 += 1
        if r >= 0.15 and r < 0.2:
            continue        # malformed inputs: model correspondence only
        add_partition(spec, spec_meta, real, ds[0], ("loops-random", ds[0]))
    # --- B2: cascades: issue order and the rolling buffer ---------------------------------------------------
    casc = []
    for H in (list(range(4, 26)) if ck.thorough else [5, 7, 8, 10, 13, 16, 19, 22, 25]):
        for p in range(1, 7):
            for q in (1, 2, 3):
                for k in (1, 2, 3, 5):
                    for s in (1, 2, 3):
                        for mode in (0, 1):
                            casc.append((H, p, q, k, s, 1, mode))
    casc += [(37, 3, 1, 3, 3, 1, 0), (40, 3, 1, 3, 3, 1, 0), (37, 4, 2, 3, 3, 1, 0), (13, 4, 1, 4, 3, 1, 1)]
    if not ck.thorough:
        extra = casc[-4:]
        casc = rng.sample(casc[:-4], 1500) + extra
    for _ in range(300 if not ck.thorough else 3000):
        casc.append((rng.randint(4, 80), rng.randint(1, 9), rng.randint(1, 5), rng.randint(1, 7), rng.randint(1, 3), rng.randint(1, 2), rng.randint(0, 1)))
    # asymmetric stride (vertical != horizontal) with consumer stripes of several rows: stripe_input / the rolling buffer need the VERTICAL stride
    for _ in range(300 if not ck.thorough else 3000):
        casc.append((rng.randint(10, 60), rng.randint(1, 6), rng.randint(2, 4), rng.choice([1, 2, 3, 3, 5]),
                     rng.choice([(3, 1), (2, 1), (1, 2), (1, 3), (3, 2), (2, 3)]), 1, rng.randint(0, 1)))
    # asymmetric dilation (height factor != width factor): the generator has to take the HEIGHT factor of attrs["dilation"]
    for _ in range(400 if not ck.thorough else 4000):
        casc.append((rng.randint(8, 60), rng.randint(1, 6), rng.randint(1, 3), rng.choice([2, 3, 3, 5]), rng.choice([1, 1, 2]),
                     rng.choice([(1, 2), (2, 1), (3, 1), (1, 3), (2, 3), (3, 2)]), rng.randint(0, 1)))
    n_b2 = 0
    for (H, p, q, k, s, d, mode) in casc:
        W, C = 4, 8
        prod_slices = rng.choice([[0, C], [0, C], [0, 4, C]])
        m0 = conv_op(H, W, C, 3, 1, 1, 0, p, prod_slices)
        m1 = conv_op(H, W, C, k, s, d, mode, q, [0, C], conv=rng.random() < 0.7)
        if m0 is None or m1 is None or p >= H or q >= m1.ofm_shape[1]:
            continue
        ops = [m0, m1]
        if rng.random() < 0.25:     # three operators
            H2 = m1.ofm_shape[1]
            m2 = conv_op(H2, m1.ofm_shape[2], C, rng.choice([1, 3]), 1, 1, 0, rng.randint(1, max(1, H2 - 1)), [0, C])
            if m2 is not None and m2.step[0] < m2.ofm_shape[1]:
                ops.append(m2)
        real, ds = run(ops, ("cascade", H, p, q, k, s, d, mode, len(ops)))
        n_b2 += 1
        if isinstance(d, tuple):
            ck.count("B_cascades_asymmetric_dilation")
        if isinstance(s, tuple):
            ck.count("B_cascades_asymmetric_stride")
        add_receptive(spec, spec_meta, real, ops)
        add_rolling(spec, spec_meta, real, ops, ds, cascade_builder, architecture_allocator, Kernel, Shape4D, resampling_mode)
    outs = ck.model(reqs)
    dis = [i for i, (m, r) in enumerate(zip(outs, reals)) if m != r]
    ck.count("B_single_op_loops", n_b1)
    ck.count("B_cascades", n_b2)
    ck.count("B_real_generator_exceptions", sum(1 for r in reals if " err:" in r))
    sp = ck.model(spec) if spec else []
    bad = [(i, o) for i, o in enumerate(sp) if not (o in ("1", "ok") or o.startswith("recv=1 cov=1"))]
    return dict(reqs=reqs, reals=reals, outs=outs, dis=dis, metas=metas, spec=spec, spec_meta=spec_meta, spec_out=sp, spec_bad=bad)


def parse_cmds(real):
    """`ok op:y0,y1,x0,x1,c0,c1:ifm8:pt:pb;…[ err:x]` → list of dicts"""
    body = real[3:]
    err = None
    if " err:" in body:
        body, err = body.rsplit(" ", 1)
    out = []
    for tok in body.split(";"):
        if not tok:
            continue
        op, ofm, ifm, pt, pb = tok.split(":")
        o = list(map(int, ofm.split(",")))
        i = list(map(int, ifm.split(",")))
        out.append(dict(op=int(op), y0=o[0], y1=o[1], x0=o[2], x1=o[3], c0=o[4], c1=o[5], ifm=i, pt=int(pt), pb=int(pb)))
    return out, err


def add_partition(spec, spec_meta, real, d, meta):
    cmds, err = parse_cmds(real)
    if err is not None:
        return
    region = [d["s"][1], d["e"][1], d["s"][2], d["e"][2], d["s"][3], d["e"][3]]
    spec.append("partition " + " ".join(map(str, region)) + " " + " ".join(f"{c['y0']} {c['y1']} {c['x0']} {c['x1']} {c['c0']} {c['c1']}" for c in cmds))
    spec_meta.append(("partition", meta))


def str_y(m):
    return m.stride[0] if isinstance(m.stride, (tuple, list)) else m.stride


def str_x(m):
    return m.stride[1] if isinstance(m.stride, (tuple, list)) else m.stride


def dil_h(m):
    return m.dilation[0] if isinstance(m.dilation, (tuple, list)) else m.dilation


def add_receptive(spec, spec_meta, real, ops):
    """Lean receptive-field Spec (rows) for every stripe the REAL generator emitted for mock operators, with the operator's true
    height dilation and original top padding; the pads are what create_padding hands on (explicit ones for a one-stripe operator)"""
    cmds, err = parse_cmds(real)
    if err is not None:
        return
    for c in cmds:
        m = ops[c["op"]]
        if getattr(m, "pad", None) is None or m.elementwise or m.pool:
            continue
        OH = m.ofm_shape[1]
        pt, pb = (m.pad[0], m.pad[2]) if (c["y0"] == 0 and c["y1"] >= OH) else (c["pt"], c["pb"])
        spec.append(f"recv {m.kernel_h} {str_y(m)} {dil_h(m)} {m.pad[0]} {m.ifm_shape[1]} 0 1 0 {c['y0']} {c['y1'] - c['y0']} {c['ifm'][1]} {c['ifm'][5]} {pt} {pb}")
        spec_meta.append(("recv", dict(op=c["op"], ifm=m.ifm_shape, ofm=m.ofm_shape, k=m.kernel_h, s=m.stride, dilation=m.dilation, pad=m.pad, skirt=m.skirt,
                                       step=m.step, stripe=[c["y0"], c["y1"]], ifm_rows=[c["ifm"][1], c["ifm"][5]], cmd_pads=[c["pt"], c["pb"]])))


def add_rolling(spec, spec_meta, real, ops, ds, cascade_builder, architecture_allocator, Kernel, Shape4D, resampling_mode):
    cmds, err = parse_cmds(real)
    if err is not None:
        return
    # storage heights: rolling buffers between consecutive operators (real rolling_buffer_shape on the real
    # stripe input requirement), the last OFM is stored in full
    stor, info = [], []
    for i in range(len(ops) - 1):
        pm, cm = ops[i], ops[i + 1]
        kd = (cm.kernel_h - 1) * dil_h(cm) + 1
        w_, h_ = architecture_allocator.get_ifm_area_required(Shape4D([1, cm.step[0], cm.step[1], 8]), Kernel(kd, kd, str_x(cm), str_y(cm), 1, 1),
                                                              resampling_mode.NONE)
        c_h = min(int(h_), cm.ifm_shape[1])
        from types import SimpleNamespace as NS_
        if hasattr(cascade_builder, "ifm_box_overread"):
            over_ = [int(cascade_builder.ifm_box_overread(NS_(parent_op=NS_(attrs={"skirt": tuple(cm.skirt)}),
                                                              kernel=Kernel(cm.kernel_h, cm.kernel_h, str_x(cm), str_y(cm), dil_h(cm), dil_h(cm)))))]
        else:       # tree without the rolling-buffer repair: the buffer it really allocates is judged by the simulation
            over_ = []
        shp = cascade_builder.rolling_buffer_shape(Shape4D([1, pm.step[0], pm.step[1], 8]), Shape4D([1, c_h, min(int(w_), cm.ifm_shape[2]), 8]), *over_)
        stor.append(int(shp.height))
        sk = cm.skirt
        info.append(dict(p=pm.step[0], c=c_h, B=int(shp.height), s=str_y(cm), kdil=kd, skirt_top=sk[0], skirt_bottom=sk[2],
                         over=str_y(cm) + sk[0] + sk[2] - kd, slack=int(shp.height) - pm.step[0] - c_h, ifm_h=cm.ifm_shape[1]))
    stor.append(ops[-1].ofm_shape[1])
    acc = []
    for c in cmds:
        m = ops[c["op"]]
        kd = (m.kernel_h - 1) * dil_h(m) + 1
        ext = (c["y1"] - c["y0"] - 1) * str_y(m) + kd - c["pt"] - c["pb"]
        a = c["ifm"][1]
        rT = c["op"]
        acc.append(f"{c['op'] + 1},{stor[c['op']]},{c['y0']},{c['y1']},{rT},{stor[c['op'] - 1] if rT else 0},{a},{max(a + ext, a)}")
    spec.append("rolling " + " ".join(acc))
    spec_meta.append(("rolling", info, [(m.ifm_shape, m.ofm_shape, m.kernel_h, m.stride, m.dilation, m.skirt, m.step) for m in ops]))


def classify_rolling(bad_line, info):
    """known-finding key for a rolling-buffer rejection of the real generator's order: none — the defects found here were repaired
    (known_findings.txt `fixed:` lines), so every rejection is a VIOLATION"""
    return None


# ------------------------------------------------------------------------------------------------
# C. compiled networks

CONV_LIKE = ("ConvolutionMxN", "ConvolutionDepthWise", "Pooling")


def stripe_requests(rec):
    """Lean Spec requests (rows, columns) for one NPU stripe record, or (None, reason)"""
    if rec["block"] not in CONV_LIKE + ("ElementWise",):
        return None, "block_" + rec["block"]
    if special(rec):
        return None, "special_addressing"
    if len(rec["ifm_box"][0]) != 4 or len(rec["ofm_box"][0]) != 4:
        return None, "non_4d_box"
    wo = rec["write_offset"] or [0, 0, 0, 0]
    off = rec["read_offset"] or [0, 0, 0, 0]
    # the slice an operator reads cannot extend past the stored tensor (a bypassed PAD leaves read_shape = padded shape)
    ifm = [min(a, b - o) for a, b, o in zip(rec["read_shape"], rec["ifm_shape"], off)] if rec["read_shape"] else rec["ifm_shape"]
    ep = rec["explicit_padding"] or [0, 0, 0, 0]
    hp = rec["hw_pad"] or [0, 0, 0, 0]
    up = 1 if rec["mode"] == 0 else 2
    kh, kw, sy, sx, dy, dx = rec["kh"], rec["kw"], rec["sy"], rec["sx"], rec["dy"], rec["dx"]
    if rec["block"] == "ElementWise":
        kh = kw = sy = sx = dy = dx = 1
        oshape = rec["write_shape"] or rec["ofm_shape"]
        if ifm[1] != oshape[1] or ifm[2] != oshape[2]:
            return None, "elementwise_broadcast"
    if inconsistent_view(rec):
        return None, "inconsistent_view"
    (os_, oe), (is_, ie) = rec["ofm_box"], rec["ifm_box"]
    rows = f"recv {kh} {sy} {dy} {ep[0]} {ifm[1]} {off[1]} {up} {rec['mode']} {os_[1] - wo[1]} {oe[1] - os_[1]} {is_[1]} {ie[1]} {hp[0]} {hp[2]}"
    cols = f"recv {kw} {sx} {dx} {ep[1]} {ifm[2]} {off[2]} {up} {rec['mode']} {os_[2] - wo[2]} {oe[2] - os_[2]} {is_[2]} {ie[2]} {hp[1]} {hp[3]}"
    return (rows, cols), None


def special(rec):
    """operators whose addressing is not the plain box model (tile padding, stride multipliers, transposed OFM)"""
    return bool(rec["orig_type"] == "Transpose" or "TILE" in rec["padding_attr"] or rec["ifm_stride_multiplier"] or rec["ofm_stride_multiplier"]
                or rec["tile_base"])


def inconsistent_view(rec):
    """the operator's tensors are reinterpreted views (softmax / argmax lowerings): kernel and shapes do not describe rows/columns"""
    if rec["mode"] != 0 or rec["block"] not in CONV_LIKE or len(rec["ofm_box"][0]) != 4:
        return False
    off = rec["read_offset"] or [0, 0, 0, 0]
    ifm = [min(a, b - o) for a, b, o in zip(rec["read_shape"], rec["ifm_shape"], off)] if rec["read_shape"] else rec["ifm_shape"]
    ep = rec["explicit_padding"] or [0, 0, 0, 0]
    oshape = rec["write_shape"] or rec["ofm_shape"]
    for ax, (k_, s_, d_, p0, p1) in ((1, (rec["kh"], rec["sy"], rec["dy"], ep[0], ep[2])), (2, (rec["kw"], rec["sx"], rec["dx"], ep[1], ep[3]))):
        if (ifm[ax] + p0 + p1 - ((k_ - 1) * d_ + 1)) // s_ + 1 < oshape[ax]:
            return True
    return False


def rows_read(rec):
    """stored rows [ra, rb) the hardware touches (implicit extent), for the rolling-buffer simulation"""
    a, b = rec["ifm_box"][0][-3] if len(rec["ifm_box"][0]) >= 3 else 0, rec["ifm_box"][1][-3] if len(rec["ifm_box"][1]) >= 3 else 1
    if rec["block"] in CONV_LIKE and rec["hw_pad"] is not None and len(rec["ofm_box"][0]) == 4 and not special(rec) and not inconsistent_view(rec):
        up = 1 if rec["mode"] == 0 else 2
        h = rec["ofm_box"][1][1] - rec["ofm_box"][0][1]
        ext = (h - 1) * rec["sy"] + (rec["kh"] - 1) * rec["dy"] + 1 - rec["hw_pad"][0] - rec["hw_pad"][2]
        return a, max(a, a + (ext + up - 1) // up)
    return a, b


def part_c(ck):
    import pipe_common

    L.install_profiles()
    pipe_common.CORPUS = [c for c in pipe_common.CORPUS if c[0] not in ("known_pad_tall", "known_odd_upscale")] + \
        [("known_pad_tall", 0, 0), ("known_odd_upscale", 0, 0)]
    n = 320 if not ck.thorough else 8000
    profiles = ["cascade_chain", "c10_pad_tall", "cascade", "c10_pool_chain", "c10_upscale", "c10_slice", "c10_dilated", "mixed",
                "cascade_chain", "elementwise", "weights", "c10_pool_chain", "c10_slice_upscale", "c10_asym_dilation", "c10_asym_dilation",
                "c10_asym_stride"]
    outs = pipe_common.run_corpus(ck, n, profiles=profiles, want={"extra": L.extract})
    if ck.replay_arg is None:
        # round 6: 2x resize -> stride {3, 2, 1} consumer in one cascade that keeps the minimal stripes (harness/gen_resizecasc.py,
        # the sweep's CASCADE_MIN configurations); in addition, the population above is unchanged
        outs += pipe_common.run_corpus(ck, 36 * (4 if ck.thorough else 1), profiles=["sweep:resize_cascade"], want={"extra": L.extract},
                                       corpus_first=False)
    reqs, owners = [], []      # Lean Spec requests on real artefacts
    corr, corr_real, corr_owner = [], [], []   # model == real (issue order, create_padding)
    n_stripes = 0
    nets_multi = set()
    for o in outs:
        ck.count("C_status_" + str(o.get("status", "harness-exception")))
        if "harness_exception" in o:
            raise common.InfraError("pipeline worker failed:\n" + o["harness_exception"])
        src_conv = {}
        for dline in ((o.get("desc") or {}).get("desc") or []):
            if isinstance(dline, str) and dline.startswith("src_conv="):
                import json as _json
                src_conv = _json.loads(dline[len("src_conv="):])
        for si, st in enumerate(o.get("extra") or []):
            recs = st["stripes"]
            for rec in recs:
                # kernel geometry of the reference = the SOURCE operator's options (not what Vela derived from them)
                sc = src_conv.get(rec.get("name")) if not rec["dma"] else None
                if sc is not None and rec["type"] in ("Conv2DBias", "DepthwiseConv2DBias", "Conv2D") and [rec["kh"], rec["kw"]] == sc[:2]:
                    if [rec["sy"], rec["sx"], rec["dy"], rec["dx"]] != sc[2:]:
                        ck.count("C_vela_kernel_differs_from_source_options")
                    rec["sy"], rec["sx"], rec["dy"], rec["dx"] = sc[2:]
                    rec["src_options"] = True
                    if sc[4] != sc[5]:
                        ck.count("C_asym_dilation_stripes")
                        if not (rec["first"] and rec["last"]):
                            ck.count("C_asym_dilation_stripes_of_striped_operator")
            byop = {}
            for ri, rec in enumerate(recs):
                if rec["dma"]:
                    continue
                n_stripes += 1
                byop.setdefault(rec["op"], []).append(rec)
                rq, why = stripe_requests(rec)
                if rq is None:
                    ck.count("C_receptive_skipped_" + why)
                else:
                    for axis, line in zip(("rows", "cols"), rq):
                        reqs.append(line)
                        owners.append(("recv", axis, o, si, ri))
                    ck.count("C_receptive_mode_%d" % rec["mode"])
                    if rec["read_offset"]:
                        ck.count("C_receptive_with_read_offset")
                    if rec["write_offset"]:
                        ck.count("C_receptive_with_write_offset")
                if rec["hw_pad"] is not None and rec["ifm_box_x"] is not None:
                    ep = rec["explicit_padding"] or [0, 0, 0, 0]
                    ro = (rec["read_offset"][2], rec["read_shape"][2]) if rec["read_offset"] is not None else ("-", "-")
                    if rec["explicit_padding"] is not None or rec["vp"]:
                        corr.append("cpad %d %d %d %d %d %d %d %d %d %d %d %s %s %d %d" % (
                            rec["vp"], ep[0], ep[1], ep[2], ep[3], rec["first"], rec["last"], rec["cmd_pad"][0], rec["cmd_pad"][1],
                            rec["ifm_box_x"][0], rec["ifm_box_x"][1], ro[0], ro[1], rec["ifm_shape"][2], int("TILE" in rec["padding_attr"])))
                        corr_real.append(" ".join(map(str, rec["hw_pad"])))
                        corr_owner.append(("cpad", o, si, ri))
            # partition of every operator's OFM
            for opi, rs in byop.items():
                r0 = rs[0]
                if len(r0["ofm_box"][0]) != 4:
                    ck.count("C_partition_skipped_non4d")
                    continue
                s0 = r0["write_offset"] or [0, 0, 0, 0]
                shp = r0["write_shape"] or r0["ofm_shape"]
                e0 = [a + b for a, b in zip(s0, shp)] if r0["write_offset"] else r0["ofm_shape"]
                reqs.append("partition %d %d %d %d %d %d " % (s0[1], e0[1], s0[2], e0[2], s0[3], e0[3]) +
                            " ".join("%d %d %d %d %d %d" % (r["ofm_box"][0][1], r["ofm_box"][1][1], r["ofm_box"][0][2], r["ofm_box"][1][2],
                                                            r["ofm_box"][0][3], r["ofm_box"][1][3]) for r in rs))
                owners.append(("partition", opi, o, si, None))
                if len(rs) > 1:
                    ck.count("C_ops_multi_stripe")
                    nets_multi.add((o["profile"], o["seed"], o["idx"]))
                else:
                    ck.count("C_ops_single_stripe")
            # rolling-buffer rule on the issue order of the whole stream
            acc = []
            for rec in recs:
                if rec["dma"]:
                    acc.append(f"{rec['w_tid']},{max(rec['w_B'], 1)},0,{rec['w_h']},0,0,0,0")
                    continue
                ra, rb = rows_read(rec)
                ob = rec["ofm_box"]
                wy0, wy1 = (ob[0][-3], ob[1][-3]) if len(ob[0]) >= 3 else (0, 1)
                if special(rec):      # interleaved / transposed writes: not row-contiguous, count the whole tensor as written
                    wy0, wy1 = 0, rec["ofm_shape"][1]
                acc.append(f"{rec['ofm_tid']},{max(rec['ofm_B'], 1)},{wy0},{wy1},{rec['ifm_tid']},{max(rec['ifm_B'], 1)},{max(ra, 0)},{max(rb, 0)}")
            if acc:
                reqs.append("rolling " + " ".join(acc))
                owners.append(("rolling", None, o, si, None))
            # issue order: model == real
            for ci, c in enumerate(st["cascades"]):
                if "error" in c:
                    ck.count("C_schedule_introspection_failed")
                    continue
                if not c["linear"] or c["memcpy"]:
                    ck.count("C_order_skipped_nonlinear_or_memcpy")
                    continue
                if c.get("up_zero"):
                    # transpose conv fused with a slice: upscaling = ofm_h // (unsliced) ifm_h = 0 as a numpy int, whose % and // by zero
                    # return 0 instead of raising; outside the model's domain (the stripes themselves are judged by the Spec above)
                    ck.count("C_order_skipped_upscaling_factor_zero")
                    continue
                corr.append("cascade " + " ".join(c["descs"]))
                corr_real.append("ok " + ";".join(c["real"]))
                corr_owner.append(("cascade", o, si, ci))
                ck.count("C_cascades_len_%d" % min(c["n"], 4))
                for bi, bf in enumerate(c["buffers"]):
                    if len(bf["stor"]) == 4 and bf["stor"][1] >= bf["full_h"]:
                        ck.count("C_buffer_stored_in_full")     # not a rolling buffer (the tensor is at most as tall as p + c)
                    elif len(bf["stor"]) == 4:
                        corr.append("rbs %d %d %d %d %d %d" % (bf["p"][0], bf["p"][1], bf["p"][2], bf["c"][0], bf["c"][1], bf["over"]))
                        corr_real.append("%d %d %d" % (bf["stor"][1], bf["stor"][2], bf["stor"][3]))
                        corr_owner.append(("rbs", o, si, ci))
    if not ck.counters.get("C_asym_dilation_stripes_of_striped_operator"):
        raise common.InfraError("no striped operator with dilation_h != dilation_w in this run (profile c10_asym_dilation is meant to provide them)")
    ans = ck.model(reqs) if reqs else []
    cm = ck.model(corr) if corr else []
    return dict(outs=outs, reqs=reqs, owners=owners, ans=ans, corr=corr, corr_real=corr_real, corr_owner=corr_owner, corr_model=cm,
                n_stripes=n_stripes, nets_multi=nets_multi)


def net_replay(o, si):
    return {"profile": o["profile"], "seed": o["seed"], "index": o["idx"], "opts": o.get("opts"), "network": o.get("desc"), "stream": si,
            "how_to_replay": "check_C10.part_c: c10_lib.install_profiles(); pipe_common._worker((seed, index, profile, {'extra': c10_lib.extract}))"}


def odd_stripe(rec):
    """an OFM stripe of an upscaling operator that starts on an odd row, or ends on one without being the last"""
    wo = rec["write_offset"] or [0, 0, 0, 0]
    y0, y1 = rec["ofm_box"][0][1] - wo[1], rec["ofm_box"][1][1] - wo[1]
    return y0 % 2 == 1 or (y1 % 2 == 1 and not rec["last"])


def classify_net_stripe(rec, axis, verdict):
    """known-finding key for a receptive/coverage rejection of a compiled stripe: none (all recorded defects were repaired)"""
    return None


def classify_net_rolling(bad_line, recs):
    import re

    m = re.match(r"bad i=(\d+) tensor=(\d+) row=(\d+) slot=(\d+) found=(\S+)", bad_line)
    if not m:
        return None, None
    i, tensor, row, found = int(m.group(1)), int(m.group(2)), int(m.group(3)), m.group(5)
    if i >= len(recs) or recs[i]["dma"]:
        return None, None
    cons = recs[i]
    info = None
    if cons["block"] in CONV_LIKE and cons["skirt"] is not None and cons["mode"] == 0:
        prods = [r for r in recs if not r["dma"] and r["ofm_tid"] == tensor]
        cstr = [r for r in recs if not r["dma"] and r["op"] == cons["op"]]
        if prods:
            p = max(r["ofm_box"][1][1] - r["ofm_box"][0][1] for r in prods)
            q = max(r["ofm_box"][1][1] - r["ofm_box"][0][1] for r in cstr)
            kdil = (cons["kh"] - 1) * cons["dy"] + 1
            c = min((q - 1) * cons["sy"] + kdil, cons["ifm_shape"][1])
            B = cons["ifm_B"]
            info = dict(p=p, q=q, c=c, B=B, s=cons["sy"], kdil=kdil, skirt_top=cons["skirt"][0], skirt_bottom=cons["skirt"][2],
                        over=cons["sy"] + cons["skirt"][0] + cons["skirt"][2] - kdil, slack=B - p - c, consumer=cons["name"])
    return None, info

def report_c(ck, Cp):
    programs, rejected, unknown = 0, 0, 0
    for (kind, x, o, si, ri), a in zip(Cp["owners"], Cp["ans"]):
        programs += 1
        recs = o["extra"][si]["stripes"]
        if kind == "recv":
            if a.startswith("recv=1 cov=1"):
                continue
            rec = recs[ri]
            key = classify_net_stripe(rec, x, a)
            rejected += 1
            unknown += key is None
            ck.count("C_receptive_reject_" + (key or "UNKNOWN"))
            ck.violation(f"Lean Spec (receptive field / box coverage, {x}) rejects a stripe of compiled network {o['idx']} ({o['profile']}, "
                         f"{o.get('opts')}): {a}; op {rec['name']} {rec['type']} k={rec['kh']}x{rec['kw']} s={rec['sy']} d={rec['dy']} "
                         f"pad={rec['explicit_padding']} ifm={rec['ifm_shape']} ofm_box={rec['ofm_box']} ifm_box={rec['ifm_box']} hw_pad={rec['hw_pad']}",
                         dict(net_replay(o, si), stripe=rec, axis=x, verdict=a, spec_request=Cp["reqs"][programs - 1]), key=key)
        elif kind == "partition":
            if a == "1":
                continue
            rejected += 1
            unknown += 1
            ck.violation(f"Lean Spec: OFM boxes of operator {x} of compiled network {o['idx']} ({o['profile']}) do not partition its output",
                         dict(net_replay(o, si), spec_request=Cp["reqs"][programs - 1][:3000]))
        else:
            if a == "ok":
                continue
            key, info = classify_net_rolling(a, recs)
            rejected += 1
            unknown += key is None
            ck.count("C_rolling_reject_" + (key or "UNKNOWN"))
            ck.violation(f"Lean rolling-buffer simulation: a stripe of compiled network {o['idx']} ({o['profile']}, {o.get('opts')}) reads a row "
                         f"that is not in its slot: {a}; buffer {info}", dict(net_replay(o, si), verdict=a, buffer=info,
                         spec_request=Cp["reqs"][programs - 1][:3000]), key=key)
    dis = [i for i, (m, r) in enumerate(zip(Cp["corr_model"], Cp["corr_real"])) if m != r]
    for i in dis:
        ck.count("C_model_disagreement_" + Cp["corr_owner"][i][0])
        if os.environ.get("C10_DEBUG"):
            print("DISAGREE", Cp["corr_owner"][i][0], Cp["corr_owner"][i][1]["profile"], Cp["corr_owner"][i][1]["idx"], "\n ", Cp["corr"][i][:1500], "\n M", Cp["corr_model"][i][:1500], "\n R", Cp["corr_real"][i][:1500])
    if dis and not unknown:
        i = min(dis, key=lambda j: len(Cp["corr"][j]))
        kind, o, si, ci = Cp["corr_owner"][i]
        ck.violation("correspondence of the models with the compiled networks broken on %d items (%s)" % (len(dis), sorted({Cp["corr_owner"][j][0] for j in dis})),
                     dict(net_replay(o, si), correspondence=kind, request=Cp["corr"][i][:3000], model=Cp["corr_model"][i][:3000],
                          implementation=Cp["corr_real"][i][:3000], n=len(dis)), found_input=False)
    return programs, rejected, dis


def classify_stripe_failure(m):
    """known-finding key for a Spec rejection of a single stripe: none (all recorded defects were repaired)"""
    return None


def report_a(ck, A):
    for i, o in A["spec_bad"][:400]:
        m = A["spec_meta"][i]
        if m.get("tiles"):
            ck.count("A_tiles_reject")
            ck.violation(f"Lean Spec (tile addressing): addresses_for_rolling_buffer does not map every row of box rows [{m['y0']},{m['y1']}) "
                         f"to slot r mod {m['B']}: returned (height0 width0 slot0 slot2) = {m['result']}",
                         {"spec_request": A["spec"][i], "case": m, "replay": "Tensor.addresses_for_rolling_buffer on a RollingBufferY tensor "
                          "with storage_shape [1,B,SW,16] (check_C10.part_a)"})
            continue
        key = classify_stripe_failure(m)
        ck.count("A_spec_reject_" + (key or "UNKNOWN"))
        ck.violation(f"Lean Spec (receptive field / box coverage) rejects the real transform_with_strides_and_skirt + create_padding "
                     f"output: {o} for {m}", {"spec_request": A["spec"][i], "verdict": o, "case": m,
                     "replay": "c10_lib.real_transform / real_create_padding with these parameters"}, key=key)
    if A["dis"]:
        i = min(A["dis"], key=lambda j: len(A["reqs"][j]))
        unknown_spec = [1 for j, _o in A["spec_bad"] if A["spec_meta"][j].get("tiles") or classify_stripe_failure(A["spec_meta"][j]) is None]
        if not unknown_spec:
            ck.violation("correspondence Model/Box.lean, Model/Cascade.lean vs real functions broken on %d inputs" % len(A["dis"]),
                         {"correspondence": A["reqs"][i].split()[0], "request": A["reqs"][i], "model": A["outs"][i],
                          "implementation": A["reals"][i], "n": len(A["dis"]),
                          "kinds": sorted({A["reqs"][j].split()[0] for j in A["dis"]})}, found_input=False)


def report_b(ck, Bp):
    for i, o in Bp["spec_bad"][:300]:
        meta = Bp["spec_meta"][i]
        if meta[0] == "rolling":
            key = classify_rolling(o, meta[1])
            ck.count("B_rolling_reject_" + (key or "UNKNOWN"))
            ck.violation(f"Lean rolling-buffer simulation rejects the issue order of the real generator: {o}; buffers {meta[1]}; ops {meta[2]}",
                         {"spec_request": Bp["spec"][i][:3000], "verdict": o, "buffers": meta[1], "ops(ifm,ofm,k,s,d,skirt,step)": meta[2],
                          "replay": "c10_lib.build_mock_cascade + run_real_generator"}, key=key)
        elif meta[0] == "recv":
            ck.count("B_receptive_reject")
            ck.violation(f"Lean Spec (receptive field / box coverage) rejects a stripe the real generator emitted for a mock operator: {o}; {meta[1]}",
                         {"spec_request": Bp["spec"][i], "verdict": o, "case": meta[1], "replay": "c10_lib.build_mock_cascade + run_real_generator"})
        else:
            ck.count("B_partition_reject")
            ck.violation(f"Lean Spec: the OFM boxes of the real generator do not partition the operator's output: {meta}",
                         {"spec_request": Bp["spec"][i][:3000], "case": meta})
    if Bp["dis"] and not any(classify_rolling(o, Bp["spec_meta"][i][1]) is None for i, o in Bp["spec_bad"] if Bp["spec_meta"][i][0] == "rolling") \
            and not any(Bp["spec_meta"][i][0] == "partition" for i, _o in Bp["spec_bad"]):
        i = min(Bp["dis"], key=lambda j: len(Bp["reqs"][j]))
        ck.violation("correspondence Model/Stripes.lean + Model/Cascade.lean (cascadeOrder) vs the real generator broken on %d inputs" % len(Bp["dis"]),
                     {"correspondence": "cascade", "request": Bp["reqs"][i], "model": Bp["outs"][i][:3000], "implementation": Bp["reals"][i][:3000],
                      "case": Bp["metas"][i], "n": len(Bp["dis"])}, found_input=False)


def replay(ck, path):
    """re-run the Lean request stored in a replay file (Spec verdict or model answer) and print both"""
    import json

    r = json.load(open(path if os.path.isabs(path) else os.path.join(common.VERIF, path)))["replay"]
    lines = [r[k] for k in ("spec_request", "request") if k in r and not r[k].endswith("…")]
    outs = ck.model(lines, parallel=False) if lines else []
    bad = False
    for ln, o in zip(lines, outs):
        print("request:", ln[:400])
        print("lean   :", o[:400])
        if "implementation" in r and ln == r.get("request"):
            print("impl   :", r["implementation"][:400])
            bad |= o != r["implementation"]
        else:
            bad |= not (o.startswith("recv=1 cov=1") or o in ("1", "ok"))
    print("how to regenerate the input:", r.get("how_to_replay") or r.get("replay"))
    sys.exit(1 if bad else 0)


def main():
    ck = Check("C10", "proof")
    ck.lean_stage(["VelaVerif.Props.C10", "VelaVerif.Props.C10Src"])
    if ck.replay_arg:
        replay(ck, ck.replay_arg)
    common.setup_repo_path()
    if os.environ.get("C10_DUMP_NETS"):
        A = Bp = None
    else:
        A = part_a(ck)
    if os.environ.get("C10_DUMP"):
        import json
        json.dump({k: A[k] for k in ("reqs", "reals", "spec", "spec_out", "spec_meta")}, open(os.environ["C10_DUMP"], "w"))
        print("dumped", len(A["reqs"]), len(A["spec"]))
        sys.exit(0)
    if A is not None:
        report_a(ck, A)
        Bp = part_b(ck)
        report_b(ck, Bp)
    Cp = part_c(ck)
    if os.environ.get("C10_DUMP_NETS"):
        import json
        nets = {}
        for o in Cp["outs"]:
            nets[f"{o['profile']}/{o['seed']}/{o['idx']}"] = {"status": o.get("status"), "opts": o.get("opts"),
                                                              "sha": [st["words_sha1"] for st in (o.get("extra") or [])], "bad": []}
        for (kind, x, o, si, ri), a in zip(Cp["owners"], Cp["ans"]):
            if not (a.startswith("recv=1 cov=1") or a in ("1", "ok")):
                nets[f"{o['profile']}/{o['seed']}/{o['idx']}"]["bad"].append(kind + ":" + a[:80])
        json.dump(nets, open(os.environ["C10_DUMP_NETS"], "w"))
        print("dumped", len(nets), "networks")
        sys.exit(0)
    programs, rejected, cdis = report_c(ck, Cp)
    # evidence ------------------------------------------------------------------------------------
    a_nontrivial = len({A["spec"][i] for i, m in enumerate(A["spec_meta"]) if m.get("tiles") or m["y1"] - m["y0"] < m["OH"]})
    b_nontrivial = len({rq for rq, rl in zip(Bp["reqs"], Bp["reals"]) if rl.count(";") >= 1})
    c_nontrivial = len({Cp["reqs"][i] for i, ow in enumerate(Cp["owners"]) if ow[0] == "recv" and not
                        (ow[2]["extra"][ow[3]]["stripes"][ow[4]]["first"] and ow[2]["extra"][ow[3]]["stripes"][ow[4]]["last"])})
    c_nontrivial += len({Cp["corr"][i] for i, ow in enumerate(Cp["corr_owner"]) if ow[0] == "cascade" and Cp["corr_real"][i].count(";") >= 1})
    for i in (0, len(A["spec"]) // 2, len(A["spec"]) - 1):
        ck.sample({"spec_request": A["spec"][i], "lean_verdict": A["spec_out"][i], "case": A["spec_meta"][i]})
    j = next((i for i, m in enumerate(Bp["metas"]) if m[0] == "cascade"), 0)
    ck.sample({"request": Bp["reqs"][j][:300], "model": Bp["outs"][j][:300], "real_generator": Bp["reals"][j][:300]})
    for i, ow in enumerate(Cp["owners"]):
        if ow[0] == "rolling" and "cascade" in (ow[2].get("features") or []):
            ck.sample({"network": ow[2]["desc"], "opts": ow[2]["opts"], "rolling_request": Cp["reqs"][i][:300], "lean_verdict": Cp["ans"][i]})
            break
    unreached = []
    if not any(r.startswith("err:assert") for r in A["reals"]):
        unreached.append("Box.__init__ assertion in transform")
    if not any(" err:value" in r for r in Bp["reals"]):
        unreached.append("range() step 0 in the generator")
    if not any(r == "err:unsupported" for r in A["reals"]):
        unreached.append("addresses_for_rolling_buffer width crossing")
    ck.finish({
        "evaluations": len(A["reqs"]) + len(A["spec"]) + len(Bp["reqs"]) + len(Bp["spec"]) + len(Cp["reqs"]) + len(Cp["corr"]),
        "distinct_nontrivial": a_nontrivial + b_nontrivial + c_nontrivial,
        "rule": "distinct request lines; non-trivial = (A) a transform + create_padding result for a stripe that is not the whole operator, "
                "judged by the Lean receptive-field/coverage Spec; (B) a run of the real generator on mock scheduler objects that emits "
                "more than one stripe; (C) a stripe of a compiled network that is not the whole operator (rows and columns judged "
                "separately) or a compiled operator group whose issue order has more than one stripe",
        "exhaustive": True,
        "exhaustive_scope": "transform_with_strides_and_skirt + create_padding: IFM height 1..12, kernel 1..8, stride 1..3, dilation 1..2, SAME / VALID / "
                            "explicit (pads in {0,1,k_dil//2}), every stripe [y0,y1) of the OFM (quick tier thins stripes for k_dil > 5), upscaling 2 "
                            "(transpose k 1..8 SAME/VALID, nearest k 1..8 VALID/explicit bottom) H 1..6 every stripe; stripe loops: OFM height 1..12 x every step; "
                            "needed_total_padding / calc_explicit_padding / rolling_buffer_shape / addresses_for_rolling_buffer on small grids",
        "A_model_requests": len(A["reqs"]), "A_exhaustive_requests": A["n_exhaustive"], "A_disagreements": len(A["dis"]),
        "A_spec_checked_real_outputs": len(A["spec"]), "A_spec_rejections": len(A["spec_bad"]),
        "B_generator_runs": len(Bp["reqs"]), "B_disagreements": len(Bp["dis"]), "B_spec_checked": len(Bp["spec"]), "B_spec_rejections": len(Bp["spec_bad"]),
        "programs": len(Cp["outs"]), "C_stripes": Cp["n_stripes"], "C_spec_requests": programs, "C_spec_rejections": rejected,
        "C_model_requests": len(Cp["corr"]), "C_model_disagreements": len(cdis), "C_networks_with_multi_stripe_operator": len(Cp["nets_multi"]),
        "disagreements_checked": len(A["spec_bad"]) + len(Bp["spec_bad"]) + rejected,
        "unreached_branches": unreached,
        "trusted_base_extra": ["hardware assumption: the NPU has no IFM-height register; a tap is padding iff it lies before the box start or at/after "
                               "(ofm_h-1)*stride + k_dil - pad_top - pad_bottom (Spec/Receptive.lean hwSrc)",
                               "IFM_UPSCALE transpose = zeros inserted after every row/column, nearest = every row/column repeated",
                               "Spec.checkPartition (inside + pairwise disjoint + volumes add up) is the executable form of Spec.Partition"],
    }, assumptions=["sequential execution in issue order for the rolling-buffer rule (ordering between hardware queues is C04's subject)",
                    "row-granular rolling-buffer simulation (columns and channels of a row are written together)",
                    "operators with tile padding, stride multipliers or transposed OFM (resize/transpose decompositions) are outside the box model: "
                    "counted as C_receptive_skipped_special_addressing",
                    "kernel, stride, dilation and original padding of compiled stripes are read from the operator (op.kernel, attrs explicit_padding)"])


if __name__ == "__main__":
    main_wrapper(main)
