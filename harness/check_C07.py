#!/venv/bin/python
"""C07 — weight compression is lossless, hardware-ordered and memory-safe.

Level: translation validation + proved parts (Props/C07.lean).  Every stream the real encoder
(`mlw_codec.encode`, `mlw_codec.reorder_encode`, `weight_compressor.encode_weights`, `api.npu_encode_weights`,
C sources rebuilt from the tree under test) produces in this run is handed to the Lean Spec checker
(`Spec/Mlw.lean`: reference decoder `Model/MlwDecode.lean` + traversal `Model/Reorder.lean` + frame rule
`Model/MlwFrame.lean`); the C decoder's answer is compared with the Lean decoder's; a subset is repeated on an
ASan+UBSan build of the extension.  The code under test runs in worker processes (harness/c07_worker.py) because
it can take the interpreter down (exit(1) in mlw_decode.c, wild writes for out-of-range weights)."""
import itertools
import json
import os
import re
import atexit
import shutil
import subprocess
import sys
import tempfile
import time
from concurrent.futures import ThreadPoolExecutor

import common
from common import Check, InfraError, main_wrapper

HERE = os.path.dirname(os.path.abspath(__file__))
WORKER = os.path.join(HERE, "c07_worker.py")
NPROC = min(16, os.cpu_count() or 4)


def report_head(report):
    return next((ln.strip() for ln in report.split("\n") if "runtime error" in ln or "ERROR: AddressSanitizer" in ln), report[:200])


def report_site(report):
    """(function, source line text) of frame #0 of a sanitizer report, read from the tree under test"""
    m = re.search(r"#0 \S+ in (\w+) (\S+?):(\d+)", report)
    if not m:
        m2 = re.search(r"(\S+\.c):(\d+):\d+: runtime error", report)
        if not m2:
            return None, ""
        m = None
        fn, path, line = None, m2.group(1), int(m2.group(2))
    else:
        fn, path, line = m.group(1), m.group(2), int(m.group(3))
    try:
        src = open(os.path.join(common.REPO, "ethosu", "mlw_codec", os.path.basename(path))).read().split("\n")[line - 1].strip()
    except (OSError, IndexError):
        src = ""
    return fn, src


# ---------------------------------------------------------------------------------------- workers
def _run_shard(jobs, ext_dir, env, timeout):
    """Feed jobs to one worker; restart behind a job that kills it. Returns one result per job."""
    results = []
    start = 0
    crashes = 0
    while start < len(jobs):
        if crashes >= 12:
            # a tree this broken has been reported a dozen times by this shard already; do not pay a process start per job
            results.extend({"skipped": True} for _ in jobs[start:])
            break
        data = "".join(json.dumps(j) + "\n" for j in jobs[start:])
        try:
            r = subprocess.run([common.PY, WORKER, ext_dir, common.REPO], input=data, capture_output=True,
                               text=True, env=env, timeout=timeout)
        except subprocess.TimeoutExpired as e:
            done = (e.stdout or b"").decode() if isinstance(e.stdout, bytes) else (e.stdout or "")
            lines = [x for x in done.split("\n") if x.strip()]
            results.extend(json.loads(x) for x in lines)
            results.append({"crash": "timeout", "stderr": ""})
            start += len(lines) + 1
            crashes += 1
            continue
        lines = [x for x in r.stdout.split("\n") if x.startswith("{")]
        got = []
        for x in lines:
            try:
                got.append(json.loads(x))
            except ValueError:
                break
        results.extend(got)
        start += len(got)
        if start < len(jobs) and (r.returncode != 0 or len(got) == 0):
            # the job at `start` took the process down
            msg = (r.stderr or "")
            # keep the sanitizer / libc report, not the interpreter's frames
            keep = [ln for ln in msg.split("\n") if ln.strip() and "/Python-3" not in ln and "Shadow byte" not in ln][:40]
            tail = [ln for ln in r.stdout.split("\n") if ln and not ln.startswith("{")][:3]
            results.append({"crash": r.returncode, "stderr": "\n".join(tail + keep)[:3000]})
            start += 1
            crashes += 1
        elif start < len(jobs):
            raise InfraError("worker stopped early without an error: " + (r.stderr or "")[-500:])
    return results


def run_jobs(jobs, ext_dir, env=None, timeout=1200, nproc=NPROC):
    """Run jobs on `nproc` worker processes, balanced by job size; results in job order."""
    if not jobs:
        return []
    env = dict(os.environ if env is None else env)
    order = sorted(range(len(jobs)), key=lambda i: -len(jobs[i].get("seq", jobs[i].get("w", ()))))
    shards = [[] for _ in range(min(nproc, len(jobs)))]
    loads = [0] * len(shards)
    for i in order:
        k = loads.index(min(loads))
        shards[k].append(i)
        loads[k] += 50 + len(jobs[i].get("seq", jobs[i].get("w", ())))
    with ThreadPoolExecutor(len(shards)) as ex:
        outs = list(ex.map(lambda idxs: _run_shard([jobs[i] for i in idxs], ext_dir, env, timeout), shards))
    res = [None] * len(jobs)
    for idxs, out in zip(shards, outs):
        for i, o in zip(idxs, out):
            res[i] = o
    return res


def retry_without_decoder(jobs, results, ext_dir):
    """a job that took the worker down is run again without the C decoder: if the encoder survives, its stream
    can still be judged by the Lean Spec (the usual cause is exit(1) in mlw_decode.c on a bad stream)"""
    bad = [i for i, r in enumerate(results) if "crash" in r][:40]
    if bad:
        again = run_jobs([dict(jobs[i], decode=False) for i in bad], ext_dir)
        for i, r in zip(bad, again):
            if "enc" in r:
                results[i] = dict(r, dec=None, decoder_crash=results[i])
    return results


def lean_parallel(lines, nproc=NPROC):
    """ck.model with shards balanced by request size (requests differ by four orders of magnitude)."""
    if len(lines) < 64:
        return common.run_model(lines)
    order = sorted(range(len(lines)), key=lambda i: -len(lines[i]))
    shards = [[] for _ in range(nproc)]
    loads = [0] * nproc
    for i in order:
        k = loads.index(min(loads))
        shards[k].append(i)
        loads[k] += 200 + len(lines[i])
    shards = [s for s in shards if s]
    with ThreadPoolExecutor(len(shards)) as ex:
        outs = list(ex.map(lambda idxs: common.run_model([lines[i] for i in idxs]), shards))
    res = [None] * len(lines)
    for idxs, out in zip(shards, outs):
        for i, o in zip(idxs, out):
            res[i] = o
    return res


def csv(xs):
    return ",".join(map(str, xs)) if len(xs) else "-"


# ------------------------------------------------------------------------------- plan observer (writer model)
SHIM_SRC = os.path.join(HERE, "c07_plan_shim.c")


def build_plan_shim():
    """Compile harness/c07_plan_shim.c, which #includes the unchanged mlw_encode.c of the tree under test, into a
    scratch directory.  Returns the executable."""
    d = tempfile.mkdtemp(prefix="velaverif_shim_")
    atexit.register(shutil.rmtree, d, True)
    enc = os.path.join(common.REPO, "ethosu", "mlw_codec", "mlw_encode.c")
    exe = os.path.join(d, "c07_plan_shim")
    cmd = ["gcc", "-O1", "-g", "-DNDEBUG", '-DMLW_ENCODE_C="%s"' % enc, "-I" + os.path.dirname(enc), SHIM_SRC, "-o", exe, "-lm"]
    r = subprocess.run(cmd, capture_output=True, text=True)
    if r.returncode != 0:
        return None, r.stderr[-1500:]
    return exe, ""


def _shim_shard(exe, seqs, timeout):
    """answers of one shim process, restarted behind a sequence that kills it"""
    out, start, crashes = [], 0, 0
    while start < len(seqs):
        if crashes >= 6:
            out.extend("skipped" for _ in seqs[start:])
            break
        data = "".join("%d %s\n" % (len(q), " ".join(map(str, q))) for q in seqs[start:])
        try:
            r = subprocess.run([exe], input=data, capture_output=True, text=True, timeout=timeout)
            lines, rc, err = r.stdout.split("\n"), r.returncode, r.stderr
        except subprocess.TimeoutExpired as e:
            so = e.stdout.decode() if isinstance(e.stdout, bytes) else (e.stdout or "")
            lines, rc, err = so.split("\n"), "timeout", ""
        if lines and lines[-1] == "":
            lines.pop()
        elif lines and rc != 0:
            lines.pop()      # a partial line of the job that died
        lines = lines[:len(seqs) - start]
        out.extend(lines)
        start += len(lines)
        if start < len(seqs):
            out.append("crash rc=%s %s" % (rc, err.strip().split("\n")[-1][:200] if err else ""))
            start += 1
            crashes += 1
    return out


def run_shim(exe, seqs, nproc=NPROC, timeout=900):
    if not seqs:
        return []
    order = sorted(range(len(seqs)), key=lambda i: -len(seqs[i]))
    shards = [[] for _ in range(min(nproc, len(seqs)))]
    loads = [0] * len(shards)
    for i in order:
        k = loads.index(min(loads))
        shards[k].append(i)
        loads[k] += 30 + len(seqs[i])
    with ThreadPoolExecutor(len(shards)) as ex:
        outs = list(ex.map(lambda idxs: _shim_shard(exe, [seqs[i] for i in idxs], timeout), shards))
    res = [None] * len(seqs)
    for idxs, o in zip(shards, outs):
        for i, x in zip(idxs, o):
            res[i] = x
    return res


def plan_counters(ck, plan):
    """which writer branches a real plan exercises"""
    if plan == "-":
        ck.count("plan_empty")
        return
    secs = plan.split("|")
    if len(secs) > 1:
        ck.count("plan_multi_section")
    for sec in secs:
        size, lut, palbits, uz, op, dofs, oz, slices = sec.split(";")
        k = 0 if lut == "-" else len(lut.split(","))
        ck.count("plan_palsize_%d" % k)
        if uz == "1":
            ck.count("plan_zero_runs")
        if oz == "1":
            ck.count("plan_only_zeros")
        if int(dofs) > 0:
            ck.count("plan_direct_offset_gt0")
        sl = slices.split("/")
        if len(sl) > 1:
            ck.count("plan_multi_slice_section")
        for x in sl:
            ln, wcfg, zcfg = map(int, x.split(":"))
            ck.count("plan_wcfg_%d" % wcfg)
            if uz == "1":
                ck.count("plan_zcfg_%d" % zcfg)
            if ln == 32767:
                ck.count("plan_slice_len_32767")


EXPECTED_PLAN_BRANCHES = (["plan_wcfg_%d" % k for k in range(13)] + ["plan_zcfg_%d" % k for k in range(4)] +
                          ["plan_palsize_%d" % k for k in [0] + list(range(2, 33))] +
                          ["plan_empty", "plan_multi_section", "plan_zero_runs", "plan_only_zeros", "plan_direct_offset_gt0",
                           "plan_multi_slice_section", "plan_slice_len_32767"])


# ------------------------------------------------------------------------------------- generators
def long_sequences(rng, thorough):
    """(label, sequence) pairs from distributions chosen to reach every coding mode of the encoder."""
    out = []

    def add(label, seq):
        out.append((label, [int(v) for v in seq]))

    def clip(v):
        return max(-255, min(255, int(v)))

    reps = 3 if not thorough else 20
    sizes = [7, 63, 64, 65, 300, 1000, 4000]
    for _ in range(reps):
        for n in sizes:
            add("uniform", [rng.randint(-255, 255) for _ in range(n)])
            add("uniform-pos", [rng.randint(0, 255) for _ in range(n)])
            sd = rng.choice([0.7, 1.5, 3, 6, 12, 25, 50, 100])
            add("gauss%g" % sd, [clip(rng.gauss(0, sd)) for _ in range(n)])
            lam = rng.choice([0.02, 0.05, 0.1, 0.3, 0.6])
            add("laplace", [clip(rng.expovariate(lam) * rng.choice([-1, 1])) for _ in range(n)])
            spars = rng.choice([0.5, 0.8, 0.9, 0.97, 0.995])
            add("sparse%g" % spars, [0 if rng.random() < spars else rng.randint(-255, 255) for _ in range(n)])
            k = rng.randint(1, 34)
            pal = rng.sample(range(-255, 256), k)
            add("alphabet%d" % k, [rng.choice(pal) for _ in range(n)])
            add("alphabet+zero-runs", [0 if rng.random() < 0.85 else rng.choice(pal) for _ in range(n)])
            add("alphabet+outliers", [rng.choice(pal) if rng.random() < 0.93 else rng.randint(-255, 255) for _ in range(n)])
            add("extremes", [rng.choice([-255, 255, -254, 254, 0, 1]) for _ in range(n)])
            add("neg255-heavy", [-255 if rng.random() < 0.4 else rng.randint(-255, 255) for _ in range(n)])
    # flat distributions over a small range: more than 32 values, quotients <= 2 for a large divisor (truncated GRC, w_cfg 9..11)
    for r in (11, 17, 20, 23, 40, 47, 63, 90):
        for n in (300, 1000):
            add("uniform-range%d" % r, [rng.randint(-r, r) for _ in range(n)])
    # exact palette sizes (uncompressed index mode needs all values inside the palette)
    for k in range(1, 35):
        pal = rng.sample(range(-255, 256), k)
        n = rng.choice([40, 200, 1500])
        add("exact-alphabet%d" % k, [pal[i % k] for i in range(n)] if rng.random() < 0.5 else [rng.choice(pal) for _ in range(n)])
        pal_nz = [v for v in pal if v != 0] or [5]
        add("exact-alphabet%d+zero-runs" % k, [0 if rng.random() < 0.9 else rng.choice(pal_nz) for _ in range(n * 3)])
    # constant sequences, all zeros (only_zeros special case), leading / trailing / very long zero runs
    for n in [1, 2, 11, 12, 13, 24, 25, 100, 5000]:
        add("all-zero", [0] * n)
        add("constant", [rng.choice([1, -1, 255, -255, 37])] * n)
    for _ in range(reps * 2):
        a, b, c = rng.randint(0, 3000), rng.randint(1, 50), rng.randint(0, 3000)
        add("zeros-value-zeros", [0] * a + [rng.randint(-255, 255) for _ in range(b)] + [0] * c)
        add("long-runs", list(itertools.chain.from_iterable(
            [0] * rng.choice([0, 1, 7, 8, 40, 500, 5000]) + [rng.choice([1, -1, 2, 100])] for _ in range(rng.randint(1, 40)))))
    # piecewise stationary: palette restarts and GRC parameter switches
    for _ in range(reps * 2):
        seq = []
        for _seg in range(rng.randint(2, 8)):
            n = rng.choice([70, 200, 600, 1100, 2500])
            kind = rng.randrange(5)
            if kind == 0:
                pal = rng.sample(range(-255, 256), rng.randint(2, 32))
                seq += [rng.choice(pal) for _ in range(n)]
            elif kind == 1:
                seq += [rng.randint(-255, 255) for _ in range(n)]
            elif kind == 2:
                sd = rng.choice([1, 4, 30])
                seq += [clip(rng.gauss(0, sd)) for _ in range(n)]
            elif kind == 3:
                seq += [0 if rng.random() < 0.95 else rng.randint(-20, 20) for _ in range(n)]
            else:
                seq += [rng.choice([3, -3])] * n
        add("piecewise", seq)
    # sections longer than the 15-bit slice length
    big = [40000, 70000] if not thorough else [33000, 40000, 70000, 140000]
    for n in big:
        pal = rng.sample(range(-255, 256), 5)
        add("long-alphabet5", [rng.choice(pal) for _ in range(n)])
        add("long-gauss", [clip(rng.gauss(0, 9)) for _ in range(n)])
    add("long-uniform", [rng.randint(-255, 255) for _ in range(34000)])
    add("long-sparse", [0 if rng.random() < 0.5 else rng.randint(1, 3) for _ in range(90000)])
    return out


def slice_counters(ck, verdict, prefix=""):
    """branch coverage of the Lean decoder, from the slice headers it reports"""
    if "slices=" not in verdict:
        return
    s = verdict.split("slices=")[1].split(" ")[0]
    if s == "-":
        ck.count(prefix + "br_no_slice")
        return
    sl = [tuple(map(int, x.split(":"))) for x in s.split(";")]
    for j, (zdiv, nvalues, wdiv, trunc, newpal, palsize, _palbits, _dirofs, nchunks, zeros, direct) in enumerate(sl):
        ck.count("br_palsize_%d" % palsize)
        ck.count("br_zdiv_%d" % zdiv)
        ck.count("br_wdiv_%d" % wdiv)
        if trunc:
            ck.count("br_wtrunc")
        if wdiv == 7:
            ck.count("br_uncompressed_palette_index" if palsize > 0 else "br_uncompressed_direct")
        if palsize > 0 and direct > 0:
            ck.count("br_palette_plus_direct")
        if palsize == 0:
            ck.count("br_direct_only")
        if newpal and j > 0:
            ck.count("br_palette_restart")
        if not newpal:
            ck.count("br_grc_parameter_switch_or_continuation")
        if nvalues == 32767 and j + 1 < len(sl) and not sl[j + 1][4]:
            ck.count("br_slice_split_at_32767")
        if zeros > 0:
            ck.count("br_zero_run_nonempty")
        if zdiv != 6 and nvalues == 1 and zeros == 0:
            ck.count("br_zero_run_mode_single_weight")
        if nchunks > 1000:
            ck.count("br_chunks_gt_1000")
    if len(sl) > 1:
        ck.count("br_multi_slice")


EXPECTED_BRANCHES = (["br_palsize_%d" % k for k in [0] + list(range(2, 33))] + ["br_zdiv_%d" % k for k in (0, 1, 2, 3, 6)] +
                     ["br_wdiv_%d" % k for k in (0, 1, 2, 3, 4, 5, 7)] +
                     ["br_wtrunc", "br_uncompressed_palette_index", "br_uncompressed_direct", "br_palette_plus_direct",
                      "br_direct_only", "br_palette_restart", "br_grc_parameter_switch_or_continuation",
                      "br_slice_split_at_32767", "br_zero_run_nonempty", "br_multi_slice"])


def sanitizer_env():
    san_dir = common.build_mlw_codec(sanitize=True)
    rt = subprocess.run(["clang", "-print-file-name=libclang_rt.asan-x86_64.so"], capture_output=True, text=True).stdout.strip()
    if not os.path.exists(rt):
        raise InfraError("asan runtime not found: " + rt)
    env = dict(os.environ, LD_PRELOAD=rt, ASAN_OPTIONS="detect_leaks=0:halt_on_error=1:allocator_may_return_null=1",
               UBSAN_OPTIONS="print_stacktrace=1:halt_on_error=1")
    return san_dir, env


def run_replay(ck, path, ext):
    """./check C07 --replay replays/C07-<seed>-<n>.json : run the recorded input again on the tree under test"""
    rec = json.load(open(path if os.path.isabs(path) else os.path.join(common.VERIF, path)))
    rp = rec["replay"]
    job = None
    sanit = False
    if str(rp.get("entry", "")).startswith("mlw_encode inside"):
        # writer-model stage: observe the plan again, let the model write, compare
        seq = rp["sequence"]
        if len(seq) != rp.get("sequence_length", len(seq)):
            print("replay: the recorded sequence was truncated (%d of %d weights)" % (len(seq), rp["sequence_length"]))
            sys.exit(2)
        shim, err = build_plan_shim()
        if shim is None:
            print("replay: plan observer does not compile:", err[-400:])
            sys.exit(1)
        o = run_shim(shim, [seq], nproc=1)[0]
        real = bytes(__import__("ethosu.mlw_codec", fromlist=["encode"]).encode(seq)).hex()
        print("observer:", o[:300])
        bad = o.count(" ") != 1 or o.startswith(("shim-error", "crash"))
        if not bad:
            plan, hx = o.split(" ")
            a = common.run_model(["mlwenc %s %s" % (plan, csv(seq))])[0]
            print("Lean writer model:", a[:300])
            bad = (hx if hx != "-" else "") != real or a != "ok planok=1 fits=1 " + (hx or "-")
        print("replay:", "REPRODUCED" if bad else "not reproduced (model, observer and extension agree on this input now)")
        sys.exit(1 if bad else 0)
    if isinstance(rp.get("job"), dict):
        job, sanit = rp["job"], "report" in rp
    elif "sequence" in rp:
        job = {"op": "encode", "seq": rp["sequence"]}
    elif "p" in rp and "weights_ohwi_row_major" in rp:
        job = {"op": "reorder", "p": rp["p"], "w": rp["weights_ohwi_row_major"], "shape": rp["shape"], "entry": rp["entry"],
               "acc": rp["acc"], "dilation": rp["dilation"], "layout": rp["layout"], "dtype": rp["dtype"]}
    if job is None:
        print("replay: nothing executable recorded in", path, "(", rec["what"][:200], ")")
        sys.exit(2)
    if sanit:
        san_dir, env = sanitizer_env()
        r = run_jobs([job], san_dir, env, nproc=1)[0]
    else:
        r = retry_without_decoder([job], run_jobs([job], ext, nproc=1), ext)[0]
    print("replay result:", json.dumps({k: (v if not isinstance(v, (list, str)) or len(v) < 300 else str(v)[:300] + "…") for k, v in r.items()}))
    bad = "crash" in r
    if "enc" in r:
        valid = all(-255 <= v <= 255 for v in job.get("seq", job.get("w")))
        line = ("mlwseq %s %s" % (csv(job["seq"]), r["enc"] or "-")) if job["op"] == "encode" else \
            ("mlwcheck %s %s %s" % (csv(job["p"]), csv(job["w"]), r["enc"] or "-"))
        v = common.run_model([line])[0]
        print("Lean Spec verdict:", v[:300])
        bad = bad or not v.startswith("ok ") or not valid
    elif "exc" in r:
        valid = all(-255 <= v <= 255 for v in job.get("seq", job.get("w")))
        bad = valid
    print("replay:", "REPRODUCED" if bad else "not reproduced (property holds on this input now)")
    sys.exit(1 if bad else 0)


# ------------------------------------------------------------------------------------------ main
def main():
    ck = Check("C07", "translation_validation")
    if ck.replay_arg:
        common.setup_repo_path()
        run_replay(ck, ck.replay_arg, common.build_mlw_codec())
    ck.lean_stage(["VelaVerif.Props.C07", "VelaVerif.Props.C07Encode"])
    common.setup_repo_path()
    ext = common.build_mlw_codec()
    from ethosu.vela.architecture_features import Accelerator, ArchitectureFeatures

    rng = ck.rng
    t_start = time.time()
    evaluations = 0
    nontrivial = set()
    spec_rejections = 0
    decoder_disagreements = []

    # ------------------------------------------------------------------ 1. plain sequences
    seq_jobs = []       # (label, seq)
    alphabets = [[0, 1, -1, 2], [0, 255, -255, 128], [3, -7, 100, -100]]
    for _ in range(1 if not ck.thorough else 24):
        alphabets.append(rng.sample(range(-255, 256), 4))
        alphabets.append([0] + rng.sample(range(-255, 256), 3))
    seq_jobs.append(("exhaustive", []))      # the shortest weight sequence
    for al in alphabets:
        for n in range(1, 7):
            for tup in itertools.product(al, repeat=n):
                seq_jobs.append(("exhaustive", list(tup)))
    n_exh = len(seq_jobs)
    seq_jobs += long_sequences(rng, ck.thorough)
    seq_res = run_jobs([{"op": "encode", "seq": s} for _l, s in seq_jobs], ext)
    seq_res = retry_without_decoder([{"op": "encode", "seq": s} for _l, s in seq_jobs], seq_res, ext)
    lines, idx = [], []
    for i, ((label, seq), r) in enumerate(zip(seq_jobs, seq_res)):
        if "enc" in r:
            lines.append("mlwseq %s %s" % (csv(seq), r["enc"] or "-"))
            idx.append(i)
    verdicts = dict(zip(idx, lean_parallel(lines)))
    seq_verdicts = verdicts
    for i, ((label, seq), r) in enumerate(zip(seq_jobs, seq_res)):
        evaluations += 1
        ck.count("seq_" + (label if label == "exhaustive" else "random"))
        replay = {"entry": "mlw_codec.encode", "label": label, "sequence": seq,
                  "replay": "mlw_codec.encode(sequence) -> ./check C07 (Lean: mlwseq <seq> <hex>)"}
        if "skipped" in r:
            ck.count("skipped_after_repeated_crashes")
            continue
        if "crash" in r:
            ck.violation(f"mlw_codec.encode took the process down (rc={r['crash']}) on a valid sequence of length {len(seq)}: {r['stderr'][:200]}",
                         dict(replay, crash=r))
            continue
        if "exc" in r:
            ck.violation(f"mlw_codec.encode rejects a valid sequence of length {len(seq)} ({label}): {r['exc']}", dict(replay, result=r))
            continue
        v = verdicts[i]
        slice_counters(ck, v)
        nontrivial.add(("seq", r["enc"]))
        if not v.startswith("ok "):
            spec_rejections += 1
            extra_note = "" if r.get("dec", 0) is not None else " (and mlw_decode.c takes the process down on it: %s)" % r["decoder_crash"]["stderr"][:80]
            ck.violation(f"Lean Spec rejects the stream mlw_codec.encode returned for a sequence of length {len(seq)} ({label}): {v[:160]}{extra_note}",
                         dict(replay, stream_hex=r["enc"][:4096], spec_verdict=v[:400]))
        else:
            extra = int(v.split("extra=")[1].split()[0])
            ck.count("extra_zeros_%s" % ("0" if extra == 0 else "gt0"))
            if r["dec"] is None:
                decoder_disagreements.append((len(seq), {"entry": "mlw_codec.decode", "sequence": seq[:400], "stream_hex": r["enc"][:4096],
                                                         "c_decoder": r["decoder_crash"], "lean_verdict": v[:200]}))
            elif r["dec"] != seq + [0] * extra:
                decoder_disagreements.append((len(seq), {"entry": "mlw_codec.decode", "sequence": seq[:400], "stream_hex": r["enc"][:4096],
                                                         "c_decoder_first": r["dec"][:50], "lean_verdict": v[:200]}))
        if i in (0, n_exh + 5):
            ck.sample({"entry": "mlw_codec.encode", "sequence": seq[:40], "stream_hex": r["enc"][:96], "lean": v[:160]})
    ck.count("exhaustive_sequences", n_exh)

    # ------------------------------------------------------------------ 2. volumes through the three entry points
    accs = list(Accelerator)
    vol_jobs, vol_meta = [], []

    def values(n, mode):
        if mode == 0:
            return [rng.randint(-255, 255) for _ in range(n)]
        if mode == 1:
            return [0 if rng.random() < 0.8 else rng.randint(-128, 127) for _ in range(n)]
        if mode == 2:
            pal = rng.sample(range(-255, 256), rng.randint(2, 20))
            return [rng.choice(pal) for _ in range(n)]
        if mode == 3:
            return [max(-255, min(255, int(rng.gauss(0, 10)))) for _ in range(n)]
        vals = list(range(-255, 256))
        rng.shuffle(vals)           # injective for volumes of at most 511 elements: pins every position
        return [vals[i % 511] for i in range(n)]

    def add_volume(acc, bits, obd_mult, kind, dil, entry, shape=None, mode=None, layout=None, dtype="int16"):
        cfg = ArchitectureFeatures.accelerator_configs[acc]
        iu, ou = cfg.ifm_ublock.depth, cfg.ofm_ublock.depth
        dw, pk = kind == "dw", kind == "pk"
        if shape is None:
            lim = 2500 if not ck.thorough else 9000
            while True:
                od = rng.choice([1, ou - 1, ou, ou + 1, 2 * ou + 3, rng.randint(1, 70)])
                kh, kw = rng.choice([(1, 1), (3, 3), (1, 7), (5, 2), (9, 9), (2, 9), (rng.randint(1, 10), rng.randint(1, 10))])
                idp = 1 if dw else rng.choice([1, 3, 8, 15, 16, 17, 31, 32, 33, rng.randint(1, 70)])
                if od * kh * kw * idp <= lim and od > 0:
                    break
        else:
            od, kh, kw, idp = shape
        obd = ou * obd_mult if obd_mult > 0 else max(ou, -(-od // ou) * ou)
        dh = ArchitectureFeatures.SubKernelMax.height // dil[1]
        dwd = ArchitectureFeatures.SubKernelMax.width // dil[0]
        n = od * kh * kw * idp
        mode = rng.randrange(5) if mode is None else mode
        if mode == 4 and n > 511:
            mode = rng.randrange(4)
        w = values(n, mode)
        if dtype == "int8":
            w = [max(-128, min(127, v)) for v in w]
        if dtype == "uint8":
            w = [abs(v) for v in w]
        p = [iu, ou, od, kh, kw, idp, obd, int(dw), int(pk), bits, dh, dwd]
        vol_jobs.append({"op": "reorder", "p": p, "w": w, "shape": [od, kh, kw, idp], "entry": entry, "acc": acc.value,
                         "dilation": list(dil), "layout": layout or rng.choice(["c", "c", "hwio_t", "f", "slice"]), "dtype": dtype})
        vol_meta.append((acc.value, bits, obd, kind, dil, entry, mode))

    dilations = [(1, 1), (2, 1), (1, 2), (2, 2)]
    entries = ["codec", "wc", "api"]
    t = 0
    for acc in accs:
        for bits in (8, 16):
            for obd_mult in (1, 2, 4, 0):
                for kind in ("df", "pk", "dw"):
                    for dil in dilations:
                        for e in (entries if ck.thorough else [entries[t % 3]]):
                            add_volume(acc, bits, obd_mult, kind, dil, e)
                        t += 1
    n_tuples = t
    # small volumes with injective values through every tuple class, all dtypes the wrapper takes
    for _ in range(60 if not ck.thorough else 1500):
        acc = rng.choice(accs)
        kind = rng.choice(["df", "pk", "dw"])
        od, kh, kw = rng.randint(1, 20), rng.randint(1, 5), rng.randint(1, 5)
        idp = 1 if kind == "dw" else rng.randint(1, 20)
        if od * kh * kw * idp > 511:
            continue
        add_volume(acc, rng.choice([8, 16]), rng.choice([1, 2, 0]), kind, rng.choice(dilations), rng.choice(entries),
                   shape=(od, kh, kw, idp), mode=4, dtype=rng.choice(["int16", "int16", "int8", "uint8"]))
    vol_res = retry_without_decoder(vol_jobs, run_jobs(vol_jobs, ext), ext)
    lines, idx = [], []
    for i, (job, r) in enumerate(zip(vol_jobs, vol_res)):
        if "enc" in r:
            lines.append("mlwcheck %s %s %s" % (csv(job["p"]), csv(job["w"]), r["enc"] or "-"))
            idx.append(i)
    verdicts = dict(zip(idx, lean_parallel(lines)))
    vol_verdicts = verdicts
    for i, (job, meta, r) in enumerate(zip(vol_jobs, vol_meta, vol_res)):
        evaluations += 1
        ck.count("vol_entry_" + job["entry"])
        ck.count("vol_kind_" + meta[3])
        ck.count("vol_layout_" + job["layout"])
        ck.count("vol_dtype_" + job["dtype"])
        replay = {k: job[k] for k in ("p", "shape", "entry", "acc", "dilation", "layout", "dtype")}
        replay["params_order"] = "ifm_ublock_depth, ofm_ublock_depth, ofm_depth, kh, kw, ifm_depth, ofm_block_depth, is_depthwise, is_partkernel, ifm_bitdepth, decomp_h, decomp_w"
        replay["weights_ohwi_row_major"] = job["w"]
        what = f"{job['entry']} acc={meta[0]} ifm_bits={meta[1]} ofm_block_depth={meta[2]} {meta[3]} dilation={meta[4]} shape={job['shape']}"
        if "skipped" in r:
            ck.count("skipped_after_repeated_crashes")
            continue
        if "crash" in r:
            ck.violation(f"encoder took the process down (rc={r['crash']}): {what}: {r['stderr'][:200]}", dict(replay, crash=r))
            continue
        if "exc" in r:
            ck.violation(f"encoder rejects a valid volume: {what}: {r['exc']}", dict(replay, result=r))
            continue
        v = verdicts[i]
        slice_counters(ck, v)
        nontrivial.add(("vol", tuple(meta[:5]), r["enc"]))
        if not v.startswith("ok "):
            spec_rejections += 1
            ck.violation(f"Lean Spec rejects the stream: {what}: {v[:160]}", dict(replay, stream_hex=r["enc"][:4096], spec_verdict=v[:400]))
        else:
            extra = int(v.split("extra=")[1].split()[0])
            ndec = int(v.split(" n=")[1].split()[0])
            ck.count("extra_zeros_%s" % ("0" if extra == 0 else "gt0"))
            if r["n"] is not None and r["n"] != ndec - extra:
                ck.violation(f"padded length returned by {job['entry']} ({r['n']}) differs from the traversal length {ndec - extra}: {what}", replay)
            if r["dec"] is None or len(r["dec"]) != ndec:
                decoder_disagreements.append((len(job["w"]), dict(replay, c_decoder_len=(len(r["dec"]) if r["dec"] is not None else r["decoder_crash"]), lean_verdict=v[:200])))
        if i in (1, n_tuples + 1):
            ck.sample({"volume": what, "stream_hex": r.get("enc", "")[:96], "lean": v[:160]})
    ck.count("config_tuples", n_tuples)

    # the C decoder against the Lean decoder on every stream of this run (weights compared, not only counts)
    dec_lines, dec_ref = [], []
    sample_streams = [(r["enc"], r["dec"]) for r in vol_res + seq_res[n_exh:] if "enc" in r and r.get("dec") is not None and r["enc"]]
    rng.shuffle(sample_streams)
    for enc, dec in sample_streams[:(300 if not ck.thorough else 3000)]:
        dec_lines.append("mlwdec " + enc)
        dec_ref.append(dec)
    for ln, out, ref in zip(dec_lines, lean_parallel(dec_lines), dec_ref):
        evaluations += 1
        got = None
        if out.startswith("ok "):
            w = out.split(" w=")[1]
            got = [] if w == "-" else list(map(int, w.split(",")))
        if got != ref:
            decoder_disagreements.append((len(ref), {"correspondence": "mlw_codec.decode vs Model/MlwDecode.lean", "stream_hex": ln[7:4096],
                                                     "lean": out[:200], "c_decoder_first": ref[:50]}))
    ck.count("decoder_streams_compared", len(dec_lines))

    # ------------------------------------------------------------------ 2b. the writer model on the real encoder's own plans
    # decode_encode_plan (Props/C07Encode.lean) proves: for every well-formed plan the reference decoder inverts Model/MlwEncode.lean.
    # What ties that theorem to mlw_encode.c is checked here: (C) the model writes the real encoder's bytes when it is given the real
    # encoder's plan, (D) every real plan satisfies PlanOk.  The plan is observed without touching the tree under test
    # (harness/c07_plan_shim.c #includes mlw_encode.c).
    wm = {"plans": 0, "plan_ok": 0, "bytes_equal": 0, "distinct_plans": 0}
    shim, shim_err = build_plan_shim()
    if shim is None:
        ck.violation("harness/c07_plan_shim.c no longer compiles together with ethosu/mlw_codec/mlw_encode.c of the tree under test "
                     "(static functions / palette_t fields the plan observer reads have changed): the correspondence between "
                     "Model/MlwEncode.lean and the encoder is unchecked", {"compiler": shim_err}, found_input=False)
    else:
        wjobs = []      # (sequence handed to mlw_encode, real stream, Lean Spec accepted the real stream)
        for i, ((label, seq), r) in enumerate(zip(seq_jobs, seq_res)):
            if "enc" in r:
                wjobs.append((seq, r["enc"], seq_verdicts[i].startswith("ok ")))
        for i, (job, r) in enumerate(zip(vol_jobs, vol_res)):
            # what mlw_encode was given by reorder_encode is the reordered volume with its padding = what the decoders return
            if "enc" in r and r.get("dec") is not None and vol_verdicts[i].startswith("ok "):
                wjobs.append((r["dec"], r["enc"], True))
        shim_out = run_shim(shim, [w[0] for w in wjobs])
        lines, lidx = [], []
        for k, (w, o) in enumerate(zip(wjobs, shim_out)):
            if o.count(" ") == 1 and not o.startswith(("shim-error", "crash", "skipped")):
                lines.append("mlwenc %s %s" % (o.split(" ")[0], csv(w[0])))
                lidx.append(k)
        lean_out = dict(zip(lidx, lean_parallel(lines)))
        plans_seen = set()
        for k, ((seq, real_hex, spec_ok), o) in enumerate(zip(wjobs, shim_out)):
            evaluations += 1
            rp = {"entry": "mlw_encode inside harness/c07_plan_shim.c", "sequence": seq, "sequence_length": len(seq),
                  "real_stream_hex": real_hex[:4096],
                  "replay": "echo '<n> v0 v1 …' | c07_plan_shim ; Lean: mlwenc <plan> <sequence csv>"}
            if k not in lean_out:
                ck.count("plan_observer_" + o.split(" ")[0])
                if o != "skipped":
                    ck.violation(f"the plan observer (c07_plan_shim.c + mlw_encode.c) fails on a sequence of length {len(seq)} that the "
                                 f"extension encodes: {o[:160]}", dict(rp, observer=o[:400]), found_input=False)
                continue
            plan, shim_hex = o.split(" ")
            shim_hex = "" if shim_hex == "-" else shim_hex
            wm["plans"] += 1
            plans_seen.add(plan)
            plan_counters(ck, plan)
            if shim_hex != real_hex:
                ck.violation(f"mlw_encode run inside the plan observer returns other bytes than the extension for the same sequence "
                             f"(length {len(seq)})", dict(rp, observer_stream_hex=shim_hex[:4096]), found_input=False)
                continue
            a = lean_out[k]
            m = re.match(r"(ok|err:\w+) planok=([01])(?: fits=([01]) (\S+))?$", a)
            if not m:
                raise InfraError("unexpected answer of mlwenc: " + a[:200])
            planok = m.group(2) == "1"
            model_hex = None if m.group(1) != "ok" else ("" if m.group(4) == "-" else m.group(4))
            if model_hex == real_hex:
                wm["max_stream_bytes_per_buffer_byte"] = max(wm.get("max_stream_bytes_per_buffer_byte", 0.0),
                                                             round(len(real_hex) / 2 / (2 * len(seq) + 1024), 4))
                if m.group(3) == "0":
                    ck.violation(f"the stream of a sequence of length {len(seq)} ({len(real_hex) // 2} bytes) is longer than the encoder's output "
                                 f"buffer inbuf_size*2+1024: bitbuf_putbit wrote past the allocation", dict(rp, plan=plan[:3000]))
            wm["plan_ok"] += planok
            wm["bytes_equal"] += model_hex == real_hex
            if not spec_ok:
                # the stream itself is reported by section 1; keep what the plan check says about it
                ck.count("plan_of_rejected_stream_planok_%d_bytes_%s" % (planok, "equal" if model_hex == real_hex else "differ"))
                continue
            if not planok:
                ck.violation(f"PlanOk (Spec/MlwPlan.lean) does not hold for a plan of the real encoder (sequence of length {len(seq)}) whose "
                             f"stream the Spec accepts: decode_encode_plan does not cover this plan", dict(rp, plan=plan[:3000], lean=a[:200]),
                             found_input=False)
            elif model_hex != real_hex:
                ck.violation(f"Model/MlwEncode.lean writes other bytes than mlw_encode for the encoder's own plan (sequence of length "
                             f"{len(seq)}; the real stream is accepted by the Spec)", dict(rp, plan=plan[:3000], model=a[:4096]),
                             found_input=False)
            if k == 7:
                ck.sample({"writer_model": {"sequence": seq[:40], "plan": plan[:300], "lean": a[:120]}})
        wm["distinct_plans"] = len(plans_seen)
        rej = {k_: v_ for k_, v_ in ck.counters.items() if k_.startswith("plan_of_rejected_stream_")}
        if rej:
            # diagnosis of the violations reported by section 1: an ill-formed plan points at the search half of the encoder,
            # a well-formed plan with other bytes than the model's at its writing half
            ck.notes.append("streams rejected by the Spec, by what the writer model says about their plan: " + json.dumps(rej))
        for pl in plans_seen:
            nontrivial.add(("plan", pl))

    # ------------------------------------------------------------------ 3. small-scope enumeration of the traversal (Lean)
    cov_lines = []
    cov_ok_expected = []
    ublocks = sorted({(c.ifm_ublock.depth, c.ofm_ublock.depth) for c in ArchitectureFeatures.accelerator_configs.values()})
    kernels = [(1, 1), (1, 2), (2, 1), (2, 2), (1, 3), (3, 1), (2, 3), (3, 3)] + ([(1, 5), (5, 1), (3, 5)] if ck.thorough else [])
    for (iu, ou) in ublocks:
        for kind in ("df", "pk", "dw"):
            for bits in (8, 16):
                for (kh, kw) in kernels:
                    for (dh, dwd) in [(8, 8), (4, 4), (2, 1), (1, 2), (2, 2)]:
                        for od in ([1, ou - 1, ou, ou + 1, 2 * ou + 1] if not ck.thorough else range(1, 2 * ou + 3)):
                            for idp in ([1] if kind == "dw" else ([1, 7, 8, 9, 16, 17] if not ck.thorough else [1, 2, 7, 8, 9, 15, 16, 17, 31, 32, 33])):
                                for obd in (ou, 2 * ou):
                                    ibd = 16 if (kind == "pk" or bits == 16) else 32
                                    length = (-(-od // ou) * ou) * (-(-kh * kw // 4) * 4) * (-(-idp // ibd) * ibd)
                                    if od * kh * kw * idp * length > 3_000_000:
                                        continue
                                    cov_lines.append("reordercovers " + csv([iu, ou, od, kh, kw, idp, obd, int(kind == "dw"), int(kind == "pk"), bits, dh, dwd]))
    cov_out = lean_parallel(cov_lines)
    cov_bad = [(ln, o) for ln, o in zip(cov_lines, cov_out)
               if not o.endswith("covers=1") or o.split(" ")[0][4:] != o.split(" ")[1][5:]]
    evaluations += len(cov_lines)
    ck.count("traversal_configs_enumerated", len(cov_lines))
    for ln, o in cov_bad[:3]:
        ck.violation(f"Model/Reorder.lean traversal is not a bijection plus padding for a valid configuration: {ln} -> {o}",
                     {"request": ln, "answer": o, "note": "the same configuration is run through the real encoder by section 2 of this check"},
                     found_input=False)

    # ------------------------------------------------------------------ 4. sanitizers (ASan + UBSan build, subset)
    san_note = None
    san_reports = 0
    try:
        san_dir, san_env = sanitizer_env()
        probe = run_jobs([{"op": "encode", "seq": [1, 2, 3]}], san_dir, san_env, nproc=1)
        if "enc" not in probe[0]:
            raise InfraError("sanitized extension does not run: " + json.dumps(probe[0])[:300])
        sub_seq = [s for _l, s in seq_jobs[:n_exh][:5460 if not ck.thorough else 5460 * 4]]
        tail = [s for _l, s in seq_jobs[n_exh:]]
        rng.shuffle(tail)
        sub_seq += tail[:(120 if not ck.thorough else 1500)]
        sub_vol = list(range(len(vol_jobs)))
        rng.shuffle(sub_vol)
        sub_vol = sub_vol[:(200 if not ck.thorough else 2000)]
        san_jobs = [{"op": "encode", "seq": s} for s in sub_seq] + [vol_jobs[i] for i in sub_vol]
        san_res = run_jobs(san_jobs, san_dir, san_env)
        for job, r in zip(san_jobs, san_res):
            evaluations += 1
            ck.count("sanitizer_jobs")
            if "skipped" in r:
                ck.count("skipped_after_repeated_crashes")
            if "crash" in r:
                san_reports += 1
                small = job
                ck.violation(f"sanitizer report in the encoder on a valid input ({job['op']}, {len(job.get('seq', job.get('w')))} weights): "
                             f"{report_head(r['stderr'])[:160]} at {report_site(r['stderr'])}",
                             {"job": small, "report": r["stderr"], "how": "ASan+UBSan build of ethosu/mlw_codec loaded with LD_PRELOAD of the asan runtime"})
        # regression inputs: the empty sequence (restart_pos[0] used to be written into malloc(0)) and palette sections consisting of
        # one zero (encode_section used to store size+1 zero runs in a buffer of size ints)
        wit = [{"op": "encode", "seq": []}, {"op": "encode", "seq": [0]},
               {"op": "encode", "seq": [1 + (i * 7 % 2) for i in range(600)] + [0]}]
        cfgw = ArchitectureFeatures.accelerator_configs[Accelerator.Ethos_U55_128]
        wv = [1 + (i * 7 % 2) for i in range(24 * 32)]
        wv[-1] = 0
        wit.append({"op": "reorder", "p": [cfgw.ifm_ublock.depth, cfgw.ofm_ublock.depth, 24, 1, 1, 32, cfgw.ofm_ublock.depth, 0, 0, 8, 8, 8],
                    "w": wv, "shape": [24, 1, 1, 32], "entry": "api", "acc": Accelerator.Ethos_U55_128.value, "dilation": [1, 1]})
        for job, r in zip(wit, run_jobs(wit, san_dir, san_env, nproc=4)):
            evaluations += 1
            if "crash" in r:
                what = "mlw_codec.encode(%s)" % (job["seq"] if len(job["seq"]) < 5 else "[1,2,…]*300+[0]") if job["op"] == "encode" else \
                    "api.npu_encode_weights(ethos-u55-128, 24x1x1x32 volume over {1,2} whose last weight is 0)"
                ck.violation(f"{what}: {report_head(r['stderr'])[:140]} at {report_site(r['stderr'])}",
                             {"job": job, "report": r["stderr"]})
    except InfraError as e:
        san_note = "sanitizer stage skipped: " + str(e)[:300]
        ck.notes.append(san_note)

    # ------------------------------------------------------------------ 5. weights outside the signed 9-bit range must be rejected
    oor_jobs, oor_meta = [], []
    acc0 = accs[rng.randrange(len(accs))]
    cfg0 = ArchitectureFeatures.accelerator_configs[acc0]
    probe_values = [256, -256, 257, -257, 300, -300, 511, -512, 1000, 32767, -32768, 255, -255]
    for val in probe_values:
        for entry in entries:
            w = [rng.randint(-3, 3) for _ in range(32)]
            w[rng.choice([0, 9, 31])] = val
            p = [cfg0.ifm_ublock.depth, cfg0.ofm_ublock.depth, 4, 1, 1, 8, cfg0.ofm_ublock.depth * 2, 0, 0, 8, 8, 8]
            oor_jobs.append({"op": "reorder", "p": p, "w": w, "shape": [4, 1, 1, 8], "entry": entry, "acc": acc0.value,
                             "dilation": [1, 1], "layout": "c", "dtype": "int16"})
            oor_meta.append((entry, val))
        oor_jobs.append({"op": "encode", "seq": [3, val, 0, 0]})
        oor_meta.append(("mlw_codec.encode", val))
    # round 6 (seeded change C07-r6m2): the same through EVERY integer container.  An unchecked cast to the codec's 16-bit type
    # (`astype(int16)`) reduces modulo 2^16, so the probes sit just outside +-255, +-2^15, +-2^16 and 2^32 (and their wrapped images
    # k, 2^16 + k, 2^32 + k with |k| <= 255), each in every dtype that can hold it; in-range controls in every dtype are counted,
    # not judged (refusing a container type is not the property's subject)
    INT_RANGES = {"int8": (-2 ** 7, 2 ** 7 - 1), "uint8": (0, 2 ** 8 - 1), "int16": (-2 ** 15, 2 ** 15 - 1), "uint16": (0, 2 ** 16 - 1),
                  "int32": (-2 ** 31, 2 ** 31 - 1), "uint32": (0, 2 ** 32 - 1), "int64": (-2 ** 63, 2 ** 63 - 1), "uint64": (0, 2 ** 64 - 1),
                  "object": (-2 ** 80, 2 ** 80)}
    wide_values = sorted({sgn * (base + d) for sgn in (1, -1) for base in (255, 2 ** 15, 2 ** 16, 2 ** 31, 2 ** 32, 2 ** 48, 2 ** 63, 2 ** 64)
                          for d in (-257, -255, -5, -1, 0, 1, 3, 5, 200, 255, 256, 257)} |
                         {65541, -65736, 131089, 2 ** 32 + 3, 2 ** 16 + 17, 3 * 2 ** 16 - 200, 2 ** 63 - 1, -2 ** 63, 2 ** 64 - 1, 2 ** 64 - 5, 2 ** 70 + 7})
    n_wide0 = len(oor_jobs)
    for dt, (lo_, hi_) in INT_RANGES.items():
        if dt == "int16":
            vals_dt = [v for v in wide_values if lo_ <= v <= hi_ and abs(v) > 255]      # the int16 probes above stay as they were
        else:
            vals_dt = [v for v in wide_values if lo_ <= v <= hi_]
        if not ck.thorough and len(vals_dt) > 40:
            keep = [v for v in vals_dt if abs(v) > 255 and ((v + 2 ** 15) % 2 ** 16) - 2 ** 15 in range(-255, 256)]     # wrap into the legal range
            rest = [v for v in vals_dt if v not in keep]
            rng.shuffle(rest)
            vals_dt = keep + rest[:max(0, 40 - len(keep))]
        for val in vals_dt + [v for v in (0, 3, 255, -255, 127) if lo_ <= v <= hi_ and dt != "int16"]:
            for entry in entries:
                w = [rng.randint(max(lo_, -3), 3) for _ in range(32)]
                w[rng.choice([0, 9, 31])] = val
                p = [cfg0.ifm_ublock.depth, cfg0.ofm_ublock.depth, 4, 1, 1, 8, cfg0.ofm_ublock.depth * 2, 0, 0, 8, 8, 8]
                oor_jobs.append({"op": "reorder", "p": p, "w": w, "shape": [4, 1, 1, 8], "entry": entry, "acc": acc0.value,
                                 "dilation": [1, 1], "layout": "c", "dtype": dt})
                oor_meta.append((entry, val))
            oor_jobs.append({"op": "encode", "seq": [3, val, 0, 0], "seq_dtype": dt})
            oor_meta.append(("mlw_codec.encode", val))
            if dt == "object":
                oor_jobs.append({"op": "encode", "seq": [3, val, 0, 0]})            # plain Python ints of any size
                oor_meta.append(("mlw_codec.encode", val))
    ck.count("range_probe_wide_dtype_jobs", len(oor_jobs) - n_wide0)
    must_accept = [x == "1" for x in common.run_model(["mlwvalid " + csv(j.get("seq", j.get("w"))) for j in oor_jobs])]
    oor_res = run_jobs(oor_jobs, ext, nproc=8)
    runs = [("", oor_jobs, oor_meta, must_accept, oor_res)]
    if san_note is None:
        sel = [i for i, m in enumerate(oor_meta) if m[0] in ("codec", "mlw_codec.encode")]
        runs.append((" (ASan+UBSan build)", [oor_jobs[i] for i in sel], [oor_meta[i] for i in sel], [must_accept[i] for i in sel],
                     run_jobs([oor_jobs[i] for i in sel], san_dir, san_env, nproc=8)))
    for tag, jobs_, meta_, acc_, res_ in runs:
        for job, (entry, val), ok_in, r in zip(jobs_, meta_, acc_, res_):
            evaluations += 1
            name = {"codec": "mlw_codec.reorder_encode", "wc": "weight_compressor.encode_weights", "api": "api.npu_encode_weights"}.get(entry, entry)
            if "crash" in r:
                ck.violation(f"{name} with the weight {val}{tag} takes the process down: {report_head(r['stderr'])[:160]}",
                             {"entry": name, "value": val, "job": job, "report": r["stderr"]})
            elif ok_in and (job.get("dtype", job.get("seq_dtype", "int16")) != "int16"):
                # in-range values in another container: either outcome is fine, an accepted one must decode to the source
                ck.count("range_probe_valid_%s_%s" % (job.get("dtype", job.get("seq_dtype")), "accepted" if "enc" in r else "rejected"))
            elif ok_in:
                ck.count("range_probe_valid_" + ("accepted" if "enc" in r else "rejected"))
                if "enc" not in r:
                    ck.violation(f"{name} rejects the valid weight {val}{tag}: {r.get('exc')}", {"entry": name, "value": val, "job": job, "result": r})
            elif "exc" in r:
                ck.count("out_of_range_rejected_" + r["exc"].split(":")[0])
                ck.count("out_of_range_rejected_dtype_" + str(job.get("dtype", job.get("seq_dtype", "list"))))
            else:
                ck.count("out_of_range_accepted")
                dec = r.get("dec") or []
                ck.violation(f"{name} accepts the weight {val} in a {job.get('dtype', job.get('seq_dtype', 'list'))} container (Lean: outside the signed 9-bit range, must be rejected){tag} and returns a "
                             f"{len(r.get('enc', '')) // 2}-byte stream that decodes to {dec[:4]}…",
                             {"entry": name, "value": val, "job": job, "result": {k: (x if k != 'dec' else x[:40]) for k, x in r.items()}})

    # ------------------------------------------------------------------ outcome
    if decoder_disagreements:
        decoder_disagreements.sort(key=lambda x: x[0])
        ck.violation("mlw_decode.c and Model/MlwDecode.lean disagree on %d streams the encoder produced (Lean Spec accepted the streams)"
                     % len(decoder_disagreements), decoder_disagreements[0][1], found_input=False)
    unreached = [b for b in EXPECTED_BRANCHES if b not in ck.counters]
    ck.finish({
        "evaluations": evaluations,
        "distinct_nontrivial": len(nontrivial),
        "rule": "one evaluation = one encoder call whose stream is judged by the Lean Spec (or one traversal configuration enumerated, "
                "or one stream decoded by both decoders, or one sanitizer job); distinct_nontrivial = distinct (entry class, configuration, "
                "stream bytes) among accepted encoder calls with a non-empty stream",
        "programs": len(seq_jobs) + len(vol_jobs),
        "disagreements_checked": len(dec_lines) + len(seq_jobs) + len(vol_jobs),
        "spec_rejections": spec_rejections,
        "decoder_disagreements": len(decoder_disagreements),
        "exhaustive": {"sequences_len_le_6_over_alphabets": [list(a) for a in alphabets], "count": n_exh,
                       "config_tuples": n_tuples, "traversal_small_scope": len(cov_lines)},
        "sanitizer": san_note or {"jobs": ck.counters.get("sanitizer_jobs", 0), "reports_on_valid_inputs": san_reports,
                                  "build": "clang -fsanitize=address,undefined -fno-sanitize-recover=undefined, LD_PRELOAD asan runtime, worker subprocess"},
        "unreached_branches": unreached,
        "writer_model": dict(wm, unreached_plan_branches=[b for b in EXPECTED_PLAN_BRANCHES if b not in ck.counters],
                             observed_by="harness/c07_plan_shim.c (#includes the tree's mlw_encode.c unchanged; encode_slice's own verbose "
                                         "line gives the slice parameters, search_palette_sections/find_palette are re-run for the palettes)"),
        "wall_validation_s": round(time.time() - t_start, 1),
    }, assumptions=[
        "the hardware's block-traversal order is the one written down in `reorder` (mlw_encode.c); Model/Reorder.lean transcribes it and "
        "Props/C07.lean proves it is a bijection plus zero padding (depth-first), the other traversals are enumerated on small scopes",
        "mlw_decode.c is the reference decoder; Model/MlwDecode.lean transcribes it and is compared with it on every stream of the run",
        "Model/MlwEncode.lean transcribes the bit-stream writing half of mlw_encode.c; it is compared byte for byte with the real encoder "
        "on the encoder's own plans of this run, and PlanOk is evaluated on each of them; that *every* plan the search can ever produce "
        "satisfies PlanOk is not proved (the search is not modelled)",
        "memory safety is observed (ASan/UBSan on the inputs of this run), not proved",
    ])


main_wrapper(main)
