"""Deterministic regression networks for C13: one minimal reproducer per crash that was found and repaired (or is being
repaired: see pending.py). Every entry is compiled on every run of check_C13 before the generated corpus; the outcome is
judged by the same Lean predicate. An entry that crashes is a plain VIOLATION unless its site is the key of a repair
that is still pending for the tree under test.

    build(name) -> (netgen.Net, [cli options])        compile_one(name) -> worker output dict (replay)

Nothing here is random: builders draw weights from a Random seeded with the entry's name.
"""
import os
import random
import traceback
import zlib

import numpy as np

import common

ACC = "ethos-u55-128"


def _b(name, dtype="int8"):
    import netgen

    return netgen.B(random.Random(zlib.crc32(name.encode())), name, dtype)


def _unary(kind, dtype, zp, in_scale=0.05, shape=(1, 4, 4, 8), opts=None):
    def f(name):
        import netgen

        b = _b(name, dtype)
        x = b.input(list(shape), scale=in_scale, zp=zp)
        o = b.fm(list(shape), dtype, scale=0.05, zp=zp)
        b.net.ops.append(netgen.Op(kind, [x], [o], opts))
        return b.finish([o]), None
    return f


def _unary_q(kind, dtype, shape, in_scale, in_zp, out_scale, out_zp):
    def f(name):
        import netgen

        b = _b(name, dtype)
        x = b.input(list(shape), scale=in_scale, zp=in_zp)
        o = b.fm(list(shape), dtype, scale=out_scale, zp=out_zp)
        b.net.ops.append(netgen.Op(kind, [x], [o]))
        return b.finish([o]), None
    return f


def _resize(kind, ishape, oshape, align, half=False, dtype="int8", pre=False, slice_=None, post=None):
    def f(name):
        import netgen

        b = _b(name, dtype)
        x = b.input(list(ishape))
        if pre:
            x = b.conv(x, ishape[3], (1, 1), (1, 1), (1, 1), "SAME")
        if slice_:
            x = b.strided_slice(x, list(slice_[0]), list(slice_[1]))
        xt = b.t(x)
        st = b.const([2], "int32", list(oshape[1:3]))
        o = b.fm(list(oshape), dtype, scale=xt.scales[0], zp=xt.zps[0])
        on = "ResizeBilinearOptions" if kind == "RESIZE_BILINEAR" else "ResizeNearestNeighborOptions"
        b.net.ops.append(netgen.Op(kind, [x, st], [o], (on, dict(AlignCorners=align, HalfPixelCenters=half))))
        return b.finish([o]), None
    return f


def _conv_peraxis(which, kind):
    def f(name):
        b = _b(name, "int8")
        x = b.input([1, 6, 5, 2])
        y = b.conv(x, 4, (1, 1), (1, 1), (1, 1), "SAME") if kind == "conv" else b.dwconv(x, (3, 3), (1, 1), (1, 1), "SAME")
        t = b.t(x if which == "ifm" else y)
        n = t.shape[3]
        t.scales, t.zps, t.qdim = [0.01 * (i + 1) for i in range(n)], [0] * n, 3
        return b.finish([y]), None
    return f


def _reshape_peraxis_fc(name):
    b = _b(name, "uint8")
    x = b.input([1, 5, 3, 4])
    t = b.t(x)
    t.scales, t.zps, t.qdim = [0.01, 0.02, 0.03, 0.04], [0, 0, 0, 0], 3
    y = b.fc(b.reshape(x, [1, 60]), 4)
    b.t(b.net.ops[0].outputs[0]).scales = [0.33]
    return b.finish([y]), None


def _transpose(dims, perm, dt):
    def f(name):
        import netgen

        b = _b(name, "int8")
        x = b.net.add(netgen.T("input_x", list(dims), dt))
        b.net.inputs.append(x)
        out = b.net.add(netgen.T("out", [dims[p] for p in perm], dt))
        pt = b.const([len(dims)], "int32", list(perm))
        b.net.ops.append(netgen.Op("TRANSPOSE", [x, pt], [out], ("TransposeOptions", {})))
        return b.finish([out]), None
    return f


def _pad_mean(shape, pads, dtype="int8", lrelu_tanh=False):
    def f(name):
        b = _b(name, dtype)
        x = b.input(list(shape), scale=0.05, zp=3 if dtype == "int8" else 128)
        cur = b.unary("LEAKY_RELU", x) if lrelu_tanh else x
        p = b.pad(cur, [list(q) for q in pads])
        m = b.mean_hw(p, True)
        if lrelu_tanh:
            m = b.unary("TANH", m)
        return b.finish([m]), None
    return f


def _conv_bias40(value):
    def f(name):
        b = _b(name, "int16")
        x = b.input([1, 8, 8, 4], scale=0.001, zp=0)
        y = b.conv(x, 4, (1, 1), (1, 1), (1, 1), "SAME")
        b.t(b.net.ops[-1].inputs[2]).data = np.array([value, 0, 1, -1], dtype=np.int64)
        return b.finish([y]), None
    return f


def _conv_groups(per_channel, groups=2, c=4, oc=4, k=1, dtype="int8", bias=True):
    def f(name):
        b = _b(name, dtype)
        x = b.input([1, 6, 6, c], scale=0.05, zp=0)
        y = b.conv(x, oc, (k, k), (1, 1), (1, 1), "SAME", per_channel=per_channel, bias=bias)
        wt = b.t(b.net.ops[-1].inputs[1])
        fd = c // groups
        wt.shape = [oc, k, k, fd]
        wt.data = np.ascontiguousarray(wt.data[..., :fd])
        return b.finish([y]), None
    return f


def _split_axis_1d(name):
    import netgen

    b = _b(name, "int8")
    x = b.input([1, 4, 4, 8])
    xt = b.t(x)
    ax = b.const([1], "int32", [3])
    outs = [b.fm([1, 4, 4, 4], "int8", scale=xt.scales[0], zp=xt.zps[0]) for _ in range(2)]
    b.net.ops.append(netgen.Op("SPLIT", [ax, x], outs, ("SplitOptions", dict(NumSplits=2))))
    return b.finish([b.unary("RELU", outs[0]), b.unary("RELU", outs[1])]), None


def _softmax16(name):
    b = _b(name, "int16")
    x = b.input([1, 16, 16, 8], scale=0.001, zp=0)
    return b.finish([b.unary("SOFTMAX", x)]), ["--accelerator-config", "ethos-u55-128", "--optimise", "Performance"]


def _mean_all_axes(name):
    import netgen

    b = _b(name, "int8")
    x = b.input([1, 1, 8, 4], scale=0.05, zp=0)
    ax = b.const([4], "int32", [0, 1, 2, 3])
    o = b.fm([1], "int8")
    b.net.ops.append(netgen.Op("MEAN", [x, ax], [o], ("ReducerOptions", dict(KeepDims=False))))
    return b.finish([o]), None


def _cpu_concat_between(name):
    b = _b(name, "int8")
    x = b.input([1, 4, 4, 8])
    x1 = b.conv(x, 8, (1, 1), (1, 1), (1, 1), "SAME", per_channel=False)
    y = b.input([1, 4, 5, 8])                      # mismatching height: the concatenation stays on the CPU
    o = b.concat([x1, y], 3)
    z = b.conv(o, 16, (1, 1), (1, 1), (1, 1), "SAME", per_channel=False)
    return b.finish([z]), None


def _add_broadcast_slice(kind, be):
    def f(name):
        b = _b(name, "int8")
        x, y = b.input([1, 4, 6, 8]), b.input([1, 4, 6, 8])
        s = b.strided_slice(y, list(be[0]), list(be[1]))
        return b.finish([b.binary(kind, x, s)]), None
    return f


def _small_arena_cache(name):
    b = _b(name, "int8")
    x = b.input([1, 8, 8, 96])
    cur = b.conv(x, 8, (1, 1), (1, 1), (1, 1), "SAME")
    cur = b.conv(cur, 128, (7, 7), (1, 2), (1, 1), "SAME", act=1)
    cur = b.conv(cur, 128, (1, 1), (2, 2), (1, 1), "SAME")
    cur = b.conv(cur, 128, (1, 1), (1, 1), (1, 1), "SAME", act=1)
    cur = b.conv(cur, 64, (1, 1), (1, 1), (1, 1), "SAME", act=1)
    return b.finish([cur]), ["--accelerator-config", "ethos-u55-256", "--optimise", "Performance", "--arena-cache-size", "4096",
                             "--tensor-allocator", "Greedy"]


def _pad0_quantize(name):
    b = _b(name, "int8")
    x = b.input([1, 1, 18, 24], scale=0.05, zp=3)
    p = b.pad(x, [[0, 0], [0, 0], [0, 0], [0, 0]])
    return b.finish([b.quantize(p, "int8")]), ["--accelerator-config", "ethos-u65-512", "--optimise", "Size"]


def _slice_window(post, k, stride, padding, shape, be, acc=ACC, pre="conv"):
    def f(name):
        b = _b(name, "int8")
        x = b.input(list(shape))
        y = b.conv(x, shape[3], (1, 1), (1, 1), (1, 1), "SAME") if pre == "conv" else x
        s = b.strided_slice(y, list(be[0]), list(be[1]))
        if post == "conv":
            z = b.conv(s, 8, (k, k), (stride, stride), (1, 1), padding)
        elif post == "dw":
            z = b.dwconv(s, (k, k), (stride, stride), (1, 1), padding)
        else:
            z = b.pool(s, "AVERAGE_POOL_2D" if post == "avg" else "MAX_POOL_2D", (k, k), (stride, stride), padding)
        return b.finish([z]), ["--accelerator-config", acc, "--optimise", "Size"]
    return f


# name -> (builder, what it guards)
ENTRIES = {
    # C13-20: LOG / SQRT tables evaluated outside the domain
    "sqrt_int8_zp0": (_unary("SQRT", "int8", 0), "C13-20"),
    "log_int8_zp0": (_unary("LOG", "int8", 0), "C13-20"),
    "sqrt_int16": (_unary("SQRT", "int16", 0), "C13-20"),
    "log_int16": (_unary("LOG", "int16", 0), "C13-20"),
    # C13-21: EXP overflow
    "exp_int16_scale003": (_unary("EXP", "int16", 0, in_scale=0.03), "C13-21"),
    "exp_int16_rank1": (_unary("EXP", "int16", 0, in_scale=0.25, shape=(13,)), "C13-21"),
    "exp_int8_scale4": (_unary("EXP", "int8", -128, in_scale=4.0), "C13-21"),
    # C13-22: constraint_resize 0/0
    "resize_bilinear_ac_h1_nan": (_resize("RESIZE_BILINEAR", (1, 1, 12, 4), (1, 1, 23, 4), True, pre=True), "C13-22"),
    "resize_bilinear_ac_h1_inf": (_resize("RESIZE_BILINEAR", (1, 1, 12, 4), (1, 2, 24, 4), True), "C13-22"),
    "resize_nn_ac_h1_nan": (_resize("RESIZE_NEAREST_NEIGHBOR", (1, 1, 12, 4), (1, 1, 23, 4), True), "C13-22"),
    # C13-23: nearest neighbour, align corners, depth > 1
    "resize_nn_ac_depth3": (_resize("RESIZE_NEAREST_NEIGHBOR", (1, 3, 3, 3), (1, 5, 5, 3), True), "C13-23"),
    "resize_nn_ac_depth8_x4": (_resize("RESIZE_NEAREST_NEIGHBOR", (1, 2, 17, 8), (1, 5, 65, 8), True), "C13-23"),
    # C13-24: per-axis quantisation on a feature map of a convolution
    "conv_peraxis_ifm": (_conv_peraxis("ifm", "conv"), "C13-24"),
    "dwconv_peraxis_ofm": (_conv_peraxis("ofm", "dw"), "C13-24"),
    # C13-25: pooling-type operation without quantisation
    "transpose_int32_rank3_noquant": (_transpose((4, 6, 8), (1, 0, 2), "int32"), "C13-25"),
    "transpose_int8_noquant": (_transpose((1, 4, 6, 8), (0, 2, 1, 3), "int8"), "C13-25"),
    # C13-26: PAD folded into the convolutions of a MEAN
    "pad_bottom_mean": (_pad_mean((1, 4, 4, 4), ((0, 0), (0, 1), (0, 0), (0, 0))), "C13-26"),
    "lrelu_pad_mean_tanh_uint8": (_pad_mean((1, 9, 10, 1), ((0, 0), (1, 2), (1, 0), (0, 0)), "uint8", True), "C13-26"),
    "pad_mean_split_70x70": (_pad_mean((1, 70, 70, 4), ((0, 0), (1, 1), (1, 1), (0, 0))), "C13-26"),
    "pad0_mean_tall_70x1": (_pad_mean((1, 70, 1, 16), ((0, 0), (0, 0), (0, 0), (0, 0))), "C13-26"),
    # C13-27: bias 2^39 (C16 finding)
    "conv_int16_bias_2p39": (_conv_bias40(1 << 39), "C13-27"),
    "conv_int16_bias_2p40m1": (_conv_bias40((1 << 40) - 1), "C13-27"),
    "conv_int16_bias_m2p39": (_conv_bias40(-(1 << 39)), "C13-27"),
    # C13-28/29/30: convolution groups
    "conv_groups_per_tensor": (_conv_groups(False), "C13-28 (+C13-29)"),
    "conv_groups_per_tensor_3x3_uint8": (_conv_groups(False, 4, 8, 8, 3, "uint8"), "C13-28 (+C13-29)"),
    "conv_groups_per_channel": (_conv_groups(True), "C13-29"),
    "split_axis_tensor_1d": (_split_axis_1d, "C13-29"),
    "conv_groups_no_bias": (_conv_groups(True, bias=False), "C13-30 (+C13-29)"),
    # C13-31: scheduler vs generator "scaled"
    "softmax_int16_u55_128": (_softmax16, "C13-31"),
    # C13-32: MEAN over every axis, OFM [1]
    "mean_all_axes_ofm1": (_mean_all_axes, "C13-32"),
    # C13-33: CPU concatenation hoisted above its producer
    "conv_cpuconcat_conv": (_cpu_concat_between, "C13-33"),
    # C13-34: slice -> half pixel bilinear resize
    "slice_resize_bilinear_hp": (_resize("RESIZE_BILINEAR", (1, 8, 4, 8), (1, 8, 8, 8), False, True, slice_=((0, 1, 0, 0), (1, 5, 4, 8))), "C13-34"),
    # C13-35: slice fused into a broadcasting elementwise operation
    "add_broadcast_slice_hw": (_add_broadcast_slice("ADD", ((0, 1, 2, 0), (1, 2, 3, 8))), "C13-35"),
    "sub_broadcast_slice_h": (_add_broadcast_slice("SUB", ((0, 1, 0, 0), (1, 2, 6, 8))), "C13-35"),
    "slice_1x1_resize_x4": (_resize("RESIZE_BILINEAR", (1, 3, 8, 4), (1, 4, 4, 2), False, slice_=((0, 2, 6, 2), (1, 3, 7, 4))), "C13-35"),
    # C13-36: fixed memory usage above the staging limit
    "convs_arena_cache_4096": (_small_arena_cache, "C13-36"),
    # C13-37: uint8 LOG / SQRT / GELU
    "sqrt_uint8": (_unary("SQRT", "uint8", 0), "C13-37"),
    "log_uint8": (_unary("LOG", "uint8", 0), "C13-37"),
    "gelu_uint8": (_unary("GELU", "uint8", 128, opts=("GeluOptions", dict(Approximate=False))), "C13-37"),
    # C13-38: == on per-axis scales
    "reshape_peraxis_ifm_fc": (_reshape_peraxis_fc, "C13-38"),
    # C13-39: NumPy-typed operand of rounding_divide_by_pot
    "hardswish_int8_tiny_scale": (_unary_q("HARD_SWISH", "int8", (1, 4, 3, 16), 1e-8, 127, 0.5, 82), "C13-39"),
    # repaired earlier by other patches; kept so that a regression is a plain VIOLATION
    "pad0_quantize_unit_height": (_pad0_quantize, "f04551a"),
    "slice_strided_conv_same": (_slice_window("conv", 1, 2, "SAME", (1, 9, 15, 4), ((0, 5, 0, 0), (1, 9, 5, 4))), "8ca1454"),
    "slice_maxpool_s3": (_slice_window("max", 1, 3, "SAME", (1, 19, 12, 16), ((0, 3, 5, 0), (1, 18, 7, 16)), "ethos-u65-512", "none"), "8ca1454"),
    "slice_dwconv_k2_s3": (_slice_window("dw", 2, 3, "SAME", (1, 12, 11, 4), ((0, 9, 7, 0), (1, 12, 9, 4)), "ethos-u65-256"), "8ca1454"),
    "slice_conv3x3": (_slice_window("conv", 3, 1, "SAME", (1, 6, 5, 16), ((0, 1, 1, 0), (1, 5, 4, 16)), "ethos-u55-32"), "8ca1454"),
}


def build(name):
    net, opts = ENTRIES[name][0](name)
    net.name = "c13reg_" + name
    return net, (opts or ["--accelerator-config", ACC])


def compile_one(name):
    """Worker: the same output fields as pipe_common._worker (what check_C13 consumes)."""
    import netgen
    import pipe_common
    import pipeline

    out = {"idx": list(ENTRIES).index(name), "profile": "c13reg:" + name, "seed": 0, "guards": ENTRIES[name][1]}
    try:
        net, opts = build(name)
        data = netgen.serialize(net)
        out.update(desc=net.describe(), opts=opts, src_ops=[o.kind for o in net.ops])
        res = pipeline.compile_net(data, opts, name=name[:40])
        out.update(status=res.status, exc=(type(res.exc).__name__ + ": " + str(res.exc))[:300] if res.exc is not None else "",
                   tb=res.tb[-1500:], ret=res.ret, exc_site=pipe_common.exc_site(res.tb, res.exc))
        out["wrote_output"] = res.out_model is not None
        out["printed_error"] = any(l.startswith("Error:") or l.startswith("'Error:") for l in res.stdout.split("\n"))
        out["stdout_tail"] = res.stdout[-400:]
        npu = [l for l in res.stdout.split("\n") if "NPU operators" in l]
        out["npu_line"] = npu[0].strip() if npu else ""
        pipeline.reset_process_state()
    except BaseException:  # noqa: B902  harness failure, reported as such
        out["harness_exception"] = traceback.format_exc()[-1500:]
    return out


def run(jobs=None):
    import multiprocessing
    from concurrent.futures import ProcessPoolExecutor

    import pipeline

    pipeline.load_vela()
    ctx = multiprocessing.get_context("fork")
    with ProcessPoolExecutor(jobs or min(16, os.cpu_count() or 4), mp_context=ctx) as ex:
        return list(ex.map(compile_one, list(ENTRIES), chunksize=1))


if __name__ == "__main__":
    import sys

    common.setup_repo_path()
    names = sys.argv[1:] or list(ENTRIES)
    import pipeline

    pipeline.load_vela()
    for nm in names:
        o = compile_one(nm)
        print(f"{nm:36s} {ENTRIES[nm][1]:18s} {o.get('status')} {o.get('exc_site', '')} {o.get('npu_line', '')} {o.get('harness_exception', '')[-300:]}")
