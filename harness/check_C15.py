#!/venv/bin/python
"""C15 — every block configuration used or offered is valid for the hardware.

Proofs: lean/VelaVerif/Props/C15.lean over Model/Shram.lean (transcription of architecture_allocator.py,
api.npu_find_block_configs, register_command_stream_generator.get_arch_block_config) and the regenerated
tables Gen/Shram.lean + Gen/Core.lean.

Correspondence / artefact validation done here (the real functions are called in-process, in worker processes):
  A  `shram`    architecture_allocator._try_block_config            (layouts, asserts, malformed granules)
  B  `trycfg`   architecture_allocator.try_block_config             (valid and invalid blocks)
  C  `findcfg`  architecture_allocator.find_block_config            (the WHC search, IEEE-double costs)
  D  `apicfg`   api.npu_find_block_configs on NpuOperations built with the extapi test helpers, then for
                EVERY offered configuration the generator's block-config path
                (get_arch_block_config + generate_block_config + generate_shram_registers on a real
                CommandStreamEmitter): `gencfg` compares layout/IFM block/ACC_FORMAT with the model,
                `regcheck` applies the Lean Spec to the emitted registers, `offerverdict` judges a refusal
  E  the full api.npu_generate_register_command_stream for a sample of (operation, offered configuration):
                registers decoded from the word stream → `regcheck`
  F  `ifmarea`  architecture_allocator.get_ifm_area_required
and the Lean Spec checker (`speccheck`) on every layout the implementation returned in B, C and D.
"""
import multiprocessing as mp
import os
import sys

import common
import siblings
from common import Check, main_wrapper

KNOWN_KEY = "npu_find_block_configs-scaled-ignores-scale_f32-none-int16"

G = {}  # repo modules, filled by load_repo() before the worker pool forks


def load_repo():
    common.setup_repo_path()
    from ethosu.vela import api, architecture_allocator as aa, register_command_stream_generator as rg
    from ethosu.vela.architecture_features import Accelerator, Block, create_default_arch
    from ethosu.vela.ethos_u55_regs.ethos_u55_regs import cmd0, resampling_mode
    from ethosu.vela.operation import Kernel, NpuBlockType
    from ethosu.vela.shape4d import Shape4D
    from ethosu.vela.test.extapi.test_extapi_generate_commands import create_feature_map

    accs = list(Accelerator)
    G.update(api=api, aa=aa, rg=rg, Accelerator=Accelerator, Block=Block, create_default_arch=create_default_arch,
             cmd0=cmd0, resampling_mode=resampling_mode, Kernel=Kernel, NpuBlockType=NpuBlockType, Shape4D=Shape4D,
             create_feature_map=create_feature_map, accs=accs,
             npu_accs=[[n for n in api.NpuAccelerator if Accelerator.from_npu_accelerator(n) == a][0] for a in accs],
             archs=[create_default_arch(a) for a in accs],
             rs_by_val={m.value: m for m in resampling_mode},
             bt_by_val={m.value: m for m in NpuBlockType},
             acc_bits=dict((k, v) for k, v in aa._AccumulatorBits.items()))


# ------------------------------------------------------------------------------------------------
# canonical printing of implementation results (same format as Handlers/Shram.lean)
# ------------------------------------------------------------------------------------------------
def ints(vals):
    """bank positions are integer-valued floats in the real layouts; anything else is printed as-is so that
    it can never compare equal to a model answer"""
    out = []
    for v in vals:
        out.append(str(int(v)) if float(v) == int(v) else repr(v))
    return " ".join(out)


def layout_str(l):
    return ints([l.ib_start, l.ib_start2, l.ib_end, l.ab_start, l.lut_start])


def exc_kind(e):
    if isinstance(e, AssertionError):
        return "err:assert"
    if isinstance(e, KeyError):
        return "err:key"
    if isinstance(e, ZeroDivisionError):
        return "err:zerodiv"
    return "err:" + type(e).__name__


# ------------------------------------------------------------------------------------------------
# A: _try_block_config
# ------------------------------------------------------------------------------------------------
def req_core(c):
    ai, ew, ofm, ifm, bits, ig, ab, ag, lut = c
    return "shram %d %d %d %d %d %d %d %d %d %d %d %d %d" % (ai, ew, *ofm, *ifm, bits, ig, ab, ag, lut)


def real_core(c):
    ai, ew, ofm, ifm, bits, ig, ab, ag, lut = c
    aa, Block = G["aa"], G["Block"]
    try:
        l = aa._try_block_config(G["archs"][ai].shram, aa.ElementwiseUsage(ew), Block(*ofm), Block(*ifm), bits, ig, ab, ag, lut)
    except Exception as e:  # noqa
        return exc_kind(e)
    return "none" if l is None else "ok " + layout_str(l)


# ------------------------------------------------------------------------------------------------
# B: try_block_config
# ------------------------------------------------------------------------------------------------
def req_try(c):
    ai, bt, blk, ofm, ifm, ifm2, scalar, bits, pk, k, lut, scaled, rs = c
    i2 = "1 %d %d %d" % tuple(ifm2) if ifm2 else "0 0 0 0"
    return "trycfg %d %d %d %d %d %d %d %d %d %d %d %s %d %d %d %s %d %d %d" % (
        ai, bt, *blk, *ofm, *ifm, i2, int(scalar), bits, int(pk), " ".join(map(str, k)), lut, int(scaled), rs)


def cfg_str(c):
    return "ok %s ifm %d %d %d acc %d pk %d bank %d" % (
        layout_str(c.layout), c.ifm_block.width, c.ifm_block.height, c.ifm_block.depth,
        G["acc_bits"][c.acc_type], int(c.is_partkernel), c.bank_size)


def real_try(c):
    ai, bt, blk, ofm, ifm, ifm2, scalar, bits, pk, k, lut, scaled, rs = c
    aa, Block = G["aa"], G["Block"]
    try:
        r = aa.try_block_config(Block(*blk), G["archs"][ai], G["bt_by_val"][bt], Block(*ofm), Block(*ifm),
                                Block(*ifm2) if ifm2 else None, bool(scalar), bits, bool(pk), G["Kernel"](*k), lut,
                                bool(scaled), G["rs_by_val"][rs])
    except Exception as e:  # noqa
        return exc_kind(e)
    return "none" if r is None else cfg_str(r)


# ------------------------------------------------------------------------------------------------
# C: find_block_config
# ------------------------------------------------------------------------------------------------
def req_find(c, cmd="findcfg"):
    ai, bt, ofm, ifm, ifm2, scalar, bits, k, lut, scaled, rs = c
    i2 = "1 %d %d %d %d" % tuple(ifm2) if ifm2 else "0 0 0 0 0"
    return "%s %d %d %d %d %d %d %d %d %d %d %s %d %d %s %d %d %d" % (
        cmd, ai, bt, *ofm, *ifm, i2, int(scalar), bits, " ".join(map(str, k)), lut, int(scaled), rs)


def real_find(c):
    ai, bt, ofm, ifm, ifm2, scalar, bits, k, lut, scaled, rs = c
    aa, S = G["aa"], G["Shape4D"]
    try:
        r = aa.find_block_config(G["archs"][ai], G["bt_by_val"][bt], S(*ofm), S(*ifm), S(*ifm2) if ifm2 else None,
                                 bool(scalar), bits, G["Kernel"](*k), lut, bool(scaled), G["rs_by_val"][rs])
    except Exception as e:  # noqa
        return exc_kind(e)
    if r is None:
        return "none"
    return "ok blk %d %d %d %s" % (r.ofm_block.width, r.ofm_block.height, r.ofm_block.depth, cfg_str(r)[3:])


# ------------------------------------------------------------------------------------------------
# D/E: public API operations
# ------------------------------------------------------------------------------------------------
KINDS = ["conv2d", "depthwise", "pooling", "reduce_sum", "elementwise"]
DTYPES = {"u8": "UINT8", "i8": "INT8", "u16": "UINT16", "i16": "INT16", "i32": "INT32"}
DT_BITS = {"u8": 8, "i8": 8, "u16": 16, "i16": 16, "i32": 32}
RS = ["NONE", "NEAREST", "TRANSPOSE"]


def op_tokens(o):
    """the 29 OP tokens of the protocol; fm = (w, h, d, quant: 0 none / 1 scale None / 2 scale present)"""
    def fm(f):
        return [f[0], f[1], f[2], int(f[3] > 0), int(f[3] > 1)]
    t = [KINDS.index(o["kind"]), int(o["pk_first"])] + fm(o["ifm"])
    t += ([1] + fm(o["ifm2"])) if o["ifm2"] else [0, 0, 0, 0, 0, 0]
    t += [int(o["scalar"])] + fm(o["ofm"]) + [RS.index(o["upscale"]), DT_BITS[o["dtype"]]]
    t += ([1] + list(o["kernel"])) if o["kernel"] else [0, 0, 0, 0, 0, 0, 0]
    t += [int(o["lut"])]
    return " ".join(map(str, t))


def build_op(o):
    api = G["api"]
    cfm = G["create_feature_map"]
    dt = getattr(api.NpuDataType, DTYPES[o["dtype"]])

    def quant(q, scale):
        return None if q == 0 else api.NpuQuantization(scale_f32=None if q == 1 else scale, zero_point=0)

    def fm(f, addr, scale):
        w, h, d, q = f
        return cfm(api.NpuShape3D(height=h, width=w, depth=d), 1, addr, dtype=dt, quant=quant(q, scale))

    kind = o["kind"]
    if kind == "conv2d":
        op = api.NpuConv2DOperation()
        op.block_traversal = api.NpuBlockTraversal.PART_KERNEL_FIRST if o["pk_first"] else api.NpuBlockTraversal.DEPTH_FIRST
    elif kind == "depthwise":
        op = api.NpuConvDepthWiseOperation()
    elif kind == "pooling":
        op = api.NpuPoolingOperation(getattr(api.NpuPoolingOp, o["sub"]))
    elif kind == "reduce_sum":
        op = api.NpuPoolingOperation(api.NpuPoolingOp.REDUCE_SUM)
    else:
        op = api.NpuElementWiseOperation(getattr(api.NpuElementWiseOp, o["sub"]))
    op.ifm = fm(o["ifm"], 0x0, 0.0078125)
    op.ofm = fm(o["ofm"], 0x400000, 0.25)
    if o["ifm2"]:
        op.ifm2 = fm(o["ifm2"], 0x800000, 0.015625)
    if o["scalar"]:
        op.ifm2_scalar = 0.03
    if o["kernel"]:
        op.kernel = api.NpuKernel(*o["kernel"])
    op.padding = api.NpuPadding(top=0, left=0, right=0, bottom=0)
    if kind in ("conv2d", "depthwise"):
        op.weights = [api.NpuAddressRange(region=0, address=0, length=1024)]
        op.biases = [api.NpuAddressRange(region=0, address=0x10000, length=160)]
    if o["lut"]:
        op.activation = api.NpuActivation(api.NpuActivationOp.TABLE_LOOKUP)
        op.activation.lookup_table_index = 0
    elif o["act"]:
        op.activation = api.NpuActivation(api.NpuActivationOp.NONE_OR_RELU)
    op.ifm_upscale = getattr(api.NpuResamplingMode, o["upscale"])
    return op


BLK_REGS = None


def decode_regs(words):
    """cmd0 SET registers of interest from a register command stream (list of 32-bit words)"""
    cmd0 = G["cmd0"]
    want = {cmd0.NPU_SET_OFM_BLK_HEIGHT_M1.value: "bh", cmd0.NPU_SET_OFM_BLK_WIDTH_M1.value: "bw",
            cmd0.NPU_SET_OFM_BLK_DEPTH_M1.value: "bd", cmd0.NPU_SET_IFM_IB_END.value: "ib_end",
            cmd0.NPU_SET_AB_START.value: "ab_start", cmd0.NPU_SET_IFM2_IB_START.value: "ib2",
            cmd0.NPU_SET_ACC_FORMAT.value: "fmt"}
    regs = {}
    i = 0
    while i < len(words):
        w = words[i]
        code = w & 0xFFFF
        if code & 0x4000:
            i += 2
            continue
        name = want.get(code & 0x3FF)
        if name:
            regs[name] = w >> 16
        i += 1
    return regs


def regs_str(regs):
    return "regs %d %d %d %d %d %s %d" % (regs["bh"] + 1, regs["bw"] + 1, regs["bd"] + 1, regs["ib_end"], regs["ab_start"],
                                          regs.get("ib2", "-"), regs["fmt"])


def real_api(job):
    """(case, n_full) → dict: offered (list | error kind), per-config generator outcome, sampled full streams"""
    o, full_idx = job
    api, rg = G["api"], G["rg"]
    ai = o["acc"]
    res = {"offered": None, "gen": [], "full": {}}
    try:
        op = build_op(o)
    except Exception as e:  # noqa
        res["offered"] = "build:" + exc_kind(e)
        return res
    try:
        cfgs = api.npu_find_block_configs(op, G["npu_accs"][ai])
    except Exception as e:  # noqa
        res["offered"] = exc_kind(e)
        return res
    res["offered"] = [(c.height, c.width, c.depth) for c in cfgs]
    arch = G["archs"][ai]
    trav = op.block_traversal if o["kind"] == "conv2d" else api.NpuBlockTraversal.DEPTH_FIRST
    for c in cfgs:
        op.block_config = c
        try:
            abc = rg.get_arch_block_config(op, trav, arch)
            emit = rg.CommandStreamEmitter()
            rg.generate_block_config(emit, op.block_config)
            rg.generate_shram_registers(emit, op, abc)
            regs = decode_regs(emit.to_list())
            res["gen"].append("ok %s ifm %d %d %d fmt %d|%s" % (
                layout_str(abc.layout), abc.ifm_block.width, abc.ifm_block.height, abc.ifm_block.depth,
                rg.acc_format_map[abc.acc_type], regs_str(regs)))
        except Exception as e:  # noqa
            res["gen"].append(exc_kind(e) + ":" + str(e)[:80])
    for j in full_idx:
        if j >= len(cfgs):
            continue
        op.block_config = cfgs[j]
        try:
            words = api.npu_generate_register_command_stream([op], G["npu_accs"][ai])
            res["full"][j] = regs_str(decode_regs(words))
        except AssertionError as e:
            import traceback
            tb = traceback.extract_tb(e.__traceback__)[-1]
            res["full"][j] = "err:assert:" + (str(e)[:80] or "@%s: %s" % (tb.name, (tb.line or "")[:60]))
        except Exception as e:  # noqa
            res["full"][j] = "other:" + type(e).__name__ + ":" + str(e)[:60]
    return res


def view_tokens(usage, equal_depth, bits, ifm_depth, pk, k, rs, ofm_h, lut):
    up = 1 if rs == 0 else 2
    return "%d %d %d %d %d %s %d %d %d %d" % (usage, int(equal_depth), bits, ifm_depth, int(pk), " ".join(map(str, k)),
                                               up, int(rs == 1), ofm_h, int(lut))


def real_area(c):
    ofm_w, ofm_h, k, rs = c
    w, h = G["aa"].get_ifm_area_required(G["Block"](ofm_w, ofm_h, 1), G["Kernel"](*k), G["rs_by_val"][rs])
    return "%d %d" % (w, h)


def _run(args):
    fn, chunk = args
    return [fn(c) for c in chunk]


def pmap(pool, fn, cases, chunk=64):
    chunks = [cases[i:i + chunk] for i in range(0, len(cases), chunk)]
    out = []
    for r in pool.imap(_run, [(fn, c) for c in chunks]):
        out.extend(r)
    return out


# ------------------------------------------------------------------------------------------------
def main():
    ck = Check("C15", "proof")
    ck.lean_stage(["VelaVerif.Props.C15", "VelaVerif.Props.C15Src"])
    load_repo()
    rng = ck.rng
    T = ck.thorough
    NpuBlockType = G["NpuBlockType"]
    BT = {n: getattr(NpuBlockType, n).value for n in
          ("Default", "ConvolutionMxN", "VectorProduct", "Pooling", "ConvolutionDepthWise", "ElementWise", "ReduceSum")}
    EQUAL_DEPTH = {BT["Pooling"], BT["ConvolutionDepthWise"], BT["ElementWise"]}
    archs = G["archs"]
    nacc = len(archs)

    def ublock(ai):
        u = archs[ai].ofm_ublock
        return (u.width, u.height, u.depth)

    def rand_dim(small=40):
        r = rng.random()
        if r < 0.70:
            return rng.randint(1, small)
        if r < 0.85:
            return rng.choice([1, 2, 31, 32, 33, 63, 64, 65, 127, 128, 129])
        return rng.randint(41, 400)

    def rand_depth():
        r = rng.random()
        if r < 0.5:
            return rng.randint(1, 40)
        if r < 0.85:
            return rng.choice([1, 3, 4, 7, 8, 9, 15, 16, 17, 24, 31, 32, 33, 46, 48, 64, 96, 127, 128, 129, 130, 256])
        return rng.randint(41, 1100)

    def rand_kernel(bt):
        if bt == BT["ElementWise"]:
            return (1, 1, 1, 1, 1, 1)
        big = rng.random() < 0.08
        kw = rng.randint(9, 40) if big else rng.randint(1, 8)
        kh = rng.randint(9, 25) if big and rng.random() < 0.5 else rng.randint(1, 8)
        dil = (rng.randint(1, 2), rng.randint(1, 2)) if bt in (BT["ConvolutionMxN"], BT["ConvolutionDepthWise"]) else (1, 1)
        return (kw, kh, rng.randint(1, 3), rng.randint(1, 3), dil[0], dil[1])

    def rand_block(ai, valid_p=0.85):
        uw, uh, ud = ublock(ai)
        if rng.random() < valid_p:
            return (uw * rng.randint(1, 64 // uw), uh * rng.randint(1, 32 // uh), ud * rng.randint(1, 128 // ud))
        b = [uw * rng.randint(1, 64 // uw), uh * rng.randint(1, 32 // uh), ud * rng.randint(1, 128 // ud)]
        i = rng.randrange(3)
        b[i] = rng.choice([0, b[i] + 1, [64, 32, 128][i] + [uw, uh, ud][i], 1, 3])
        return tuple(b)

    pool = mp.get_context("fork").Pool(min(8, os.cpu_count() or 2))

    # ---- history: every stream is run as FAMILIES (base case, then cases that differ from it in exactly one argument), each
    # family inside one worker process and in this order; the Lean model is history-free, so state that leaks from one call
    # of the real functions into the next (a memo table whose key forgets an argument) shows as model != real on the sibling
    def with_siblings(name, cases, alts, p, k=1):
        fams = []
        for c in cases:
            sibs = siblings.derive(rng, c, alts, k) if rng.random() < p else []
            for pos, s_ in sibs:
                ck.count("sibling:%s:%s" % (name, pos))
                if isinstance(s_, dict):
                    s_["history_field"] = pos
            fams.append([c] + [s_ for _, s_ in sibs])
        return fams

    def flat(fams):
        return [c for f in fams for c in f]

    co = siblings.choice_other

    # -------- A: _try_block_config -----------------------------------------------------------------
    core_cases = []
    gran = {}
    for ai in range(nacc):
        a = archs[ai]
        gran[ai] = (sorted(set(a.ifm_bank_granules.values()) | set(a.ifm_ew_bank_granules.values())),
                    sorted(set(a.accumulator_granules.values())))
    R = bool(ck.replay_arg)      # replay mode: only the recorded input is run
    n_core = 0 if R else (240000 if T else 7500)      # bases; 70 % bring one sibling
    for _ in range(n_core):
        ai = rng.randrange(nacc)
        ew = rng.choice([0, 0, 1, 2])
        ofm = (rng.randint(1, 64), rng.randint(1, 32), rng.choice([4, 8, 16, 24, 32, 64, 128, rng.randint(1, 130)]))
        ifm = (rng.randint(1, 140), rng.randint(1, 80), rng.choice([4, 8, 16, 32, rng.randint(1, 130)]))
        bits = rng.choice([8, 16, 32])
        ig = rng.choice(gran[ai][0])
        ab = rng.choice([16, 32, 40])
        ag = rng.choice(gran[ai][1])
        lut = rng.choice([0, 2, 2, rng.randint(-1, 30)])
        if rng.random() < 0.04:  # malformed stream
            which = rng.randrange(5)
            if which == 0:
                ig = 0
            elif which == 1:
                ag = 0
            elif which == 2:
                ab = 0
            elif which == 3:
                bits = rng.choice([0, 4, 12, 20])
            else:
                ofm = (0, ofm[1], ofm[2])
        core_cases.append((ai, ew, ofm, ifm, bits, ig, ab, ag, lut))
    core_fams = with_siblings("_try_block_config", core_cases, {
        0: co(0, range(nacc)), 1: co(1, [0, 1, 2]), 2: siblings.bump_elem(2), 3: siblings.bump_elem(3), 4: co(4, [8, 16, 32]),
        5: lambda r, b: r.choice([g_ for g_ in gran[b[0]][0] if g_ != b[5]]), 6: co(6, [16, 32, 40]),
        7: lambda r, b: r.choice([g_ for g_ in gran[b[0]][1] if g_ != b[7]]), 8: co(8, [0, 2])}, 0.7)
    core_cases = flat(core_fams)
    core_req = [req_core(c) for c in core_cases]
    core_real = flat(siblings.run_families(pool, real_core, core_fams, 256))

    # -------- B: try_block_config ------------------------------------------------------------------
    try_cases = []
    n_try = 0 if R else (360000 if T else 12000)      # bases; 70 % bring one sibling
    bts_try = [BT["ConvolutionMxN"]] * 4 + [BT["ConvolutionDepthWise"]] * 2 + [BT["Pooling"]] * 2 + [BT["ElementWise"]] * 3 + \
        [BT["ReduceSum"], BT["VectorProduct"], BT["Default"]]
    for _ in range(n_try):
        ai = rng.randrange(nacc)
        bt = rng.choice(bts_try)
        blk = rand_block(ai)
        ofm = (rand_dim(), rng.choice([1, 1, rand_dim()]) if rng.random() < 0.2 else rand_dim(), rand_depth())
        k = rand_kernel(bt)
        if rng.random() < 0.15:
            k = (k[0], 1) + k[2:]
        ifm_d = ofm[2] if bt in EQUAL_DEPTH else rand_depth()
        ifm = (rand_dim(60), rand_dim(60), ifm_d)
        ifm2, scalar = None, False
        if bt == BT["ElementWise"]:
            m = rng.random()
            if m < 0.35:
                ifm2 = ifm
            elif m < 0.6:
                ifm2 = (rng.choice([1, ifm[0]]), rng.choice([1, ifm[1]]), rng.choice([1, ifm[2]]))
            elif m < 0.8:
                ifm2, scalar = (1, 1, 1), True
        elif rng.random() < 0.03:
            ifm2 = (rand_dim(60), rand_dim(60), rand_depth())      # non-elementwise with an IFM2: correspondence only
            scalar = rng.random() < 0.5
        bits = rng.choice([8, 8, 16, 16, 32] if bt in (BT["ElementWise"], BT["ReduceSum"]) else [8, 8, 16])
        if rng.random() < 0.01:
            bits = rng.choice([4, 12, 24, 64])
        lut = rng.choice([0, 0, 2, 2, rng.choice([1, 3, 4, 30])]) if rng.random() < 0.1 else rng.choice([0, 2])
        rs = rng.choice([0, 0, 1, 2])
        try_cases.append((ai, bt, blk, ofm, ifm, ifm2, scalar, bits, rng.random() < 0.4, k, lut, rng.random() < 0.7, rs))
    try_alts = {
        0: co(0, range(nacc)), 1: co(1, sorted(set(bts_try))), 2: siblings.bump_elem(2, steps=(8, -8, 16, -16, 4, -4)),
        3: siblings.bump_elem(3), 4: siblings.bump_elem(4), 5: lambda r, b: None if b[5] else b[4], 6: siblings.toggle(6),
        7: co(7, [8, 16, 32]), 8: siblings.toggle(8), 9: siblings.bump_elem(9, steps=(1, -1, 2)), 10: co(10, [0, 2]),
        11: siblings.toggle(11), 12: co(12, [0, 1, 2])}
    try_fams = with_siblings("try_block_config", try_cases, try_alts, 0.7)
    try_cases = flat(try_fams)
    try_req = [req_try(c) for c in try_cases]
    try_real = flat(siblings.run_families(pool, real_try, try_fams, 128))

    # -------- C: find_block_config -----------------------------------------------------------------
    find_cases = []
    n_find = 0 if R else (75000 if T else 3200)      # bases; 60 % bring one sibling
    bts_find = [BT["ConvolutionMxN"]] * 4 + [BT["ConvolutionDepthWise"]] * 2 + [BT["Pooling"]] * 2 + [BT["ElementWise"]] * 3 + \
        [BT["ReduceSum"], BT["VectorProduct"]]
    # dense part: all accelerators x op kinds x bits x lut x upscaling on a few small shapes
    dense_shapes = [(1, 1, 8), (1, 1, 1001), (3, 5, 16), (8, 8, 32), (16, 9, 20), (33, 2, 64)] if not T else \
        [(w, h, d) for w in (1, 2, 3, 8, 17, 33) for h in (1, 2, 5, 16, 40) for d in (1, 8, 16, 20, 64, 130)]
    for ai in range(0 if R else nacc):
        for bt in sorted(set(bts_find)):
            for bits in ((8, 16, 32) if bt in (BT["ElementWise"], BT["ReduceSum"]) else (8, 16)):
                for lut in (0, 2):
                    for rs in (0, 1, 2):
                        for (w, h, d) in (dense_shapes if T else [dense_shapes[rng.randrange(len(dense_shapes))]]):
                            k = (1, 1, 1, 1, 1, 1) if bt == BT["ElementWise"] else rng.choice([(1, 1, 1, 1, 1, 1), (3, 3, 1, 1, 1, 1), (3, 3, 2, 2, 1, 1), (5, 1, 1, 1, 2, 1), (2, 7, 1, 3, 1, 1)])
                            ifm_d = d if bt in EQUAL_DEPTH else rng.choice([3, 8, 16, 32, 40])
                            up = 1 if rs == 0 else 2
                            ifm = (1, max(1, ((h - 1) * k[3] + (k[1] - 1) * k[5] + 1 + up - 1) // up),
                                   max(1, ((w - 1) * k[2] + (k[0] - 1) * k[4] + 1 + up - 1) // up), ifm_d)
                            find_cases.append((ai, bt, (1, h, w, d), ifm, None, False, bits, k, lut, rng.random() < 0.7, rs))
    while len(find_cases) < n_find:
        ai = rng.randrange(nacc)
        bt = rng.choice(bts_find)
        ofm = (rng.choice([1, 1, 1, 1, 2, 3]), rand_dim(), rand_dim(), rand_depth())
        k = rand_kernel(bt)
        if rng.random() < 0.15:
            k = (k[0], 1) + k[2:]
            if rng.random() < 0.7:
                ofm = (ofm[0], 1, ofm[2], ofm[3])
        ifm_d = ofm[3] if bt in EQUAL_DEPTH else rand_depth()
        rs = rng.choice([0, 0, 1, 2])
        if rng.random() < 0.6:
            up = 1 if rs == 0 else 2
            ifm = (ofm[0], max(1, ((ofm[1] - 1) * k[3] + (k[1] - 1) * k[5] + 1 + up - 1) // up),
                   max(1, ((ofm[2] - 1) * k[2] + (k[0] - 1) * k[4] + 1 + up - 1) // up), ifm_d)
        else:
            ifm = (ofm[0], rand_dim(60), rand_dim(60), ifm_d)
        ifm2, scalar = None, False
        if bt == BT["ElementWise"]:
            ifm = ofm if rng.random() < 0.7 else ifm
            m = rng.random()
            if m < 0.35:
                ifm2 = ifm
            elif m < 0.6:
                ifm2 = (1, rng.choice([1, ifm[1]]), rng.choice([1, ifm[2]]), rng.choice([1, ifm[3]]))
            elif m < 0.8:
                ifm2, scalar = (1, 1, 1, 1), True
            if ifm2 and rng.random() < 0.2:
                ifm, ifm2 = ifm2, ifm      # the larger-volume correction
        bits = rng.choice([8, 8, 16, 16, 32] if bt in (BT["ElementWise"], BT["ReduceSum"]) else [8, 8, 16])
        if rng.random() < 0.02:     # nothing fits: 32-bit IFM, deep, large dilated kernel
            bt, bits = BT["ReduceSum"], 32
            k = (rng.randint(4, 8), rng.randint(4, 8), rng.randint(1, 3), rng.randint(1, 3), 2, 2)
            ifm, ifm2, scalar = (ofm[0], rand_dim(60), rand_dim(60), rng.choice([16, 32, 64])), None, False
        find_cases.append((ai, bt, ofm, ifm, ifm2, scalar, bits, k, rng.choice([0, 2]), rng.random() < 0.7, rs))
    find_alts = {
        0: co(0, range(nacc)), 1: co(1, sorted(set(bts_find))), 2: siblings.bump_elem(2, only=(1, 2, 3)),
        3: siblings.bump_elem(3, only=(1, 2, 3)), 4: lambda r, b: None if b[4] else b[3], 5: siblings.toggle(5),
        6: co(6, [8, 16, 32]), 7: siblings.bump_elem(7, steps=(1, -1, 2)), 8: co(8, [0, 2]), 9: siblings.toggle(9), 10: co(10, [0, 1, 2])}
    find_fams = with_siblings("find_block_config", find_cases, find_alts, 0.6)
    find_cases = flat(find_fams)
    find_req = [req_find(c) for c in find_cases]
    find_real = flat(siblings.run_families(pool, real_find, find_fams, 16))

    # -------- D/E: API operations -------------------------------------------------------------------
    op_cases = []
    n_ops = 0 if R else (15000 if T else 1700)      # bases; 60 % bring one sibling

    def mk_op(ai, kind, dtype, lut, upscale, quants, ofm, k=None, ifm_d=None, ew_mode=None, pk_first=None):
        w, h, d = ofm
        o = {"acc": ai, "kind": kind, "dtype": dtype, "lut": lut, "upscale": upscale, "act": rng.random() < 0.3,
             "pk_first": (rng.random() < 0.5) if pk_first is None else pk_first, "scalar": False, "ifm2": None, "sub": None}
        if kind == "elementwise":
            o["kernel"] = None
            mode = ew_mode or rng.choice(["unary", "same", "broadcast", "broadcast", "scalar"])
            o["sub"] = rng.choice(["ABS", "LRELU", "CLZ"]) if mode == "unary" else rng.choice(["ADD", "SUB", "MUL", "MIN", "MAX", "SHR", "SHL"])
            o["ifm"] = (w, h, d, quants[0])
            if mode == "same":
                o["ifm2"] = (w, h, d, quants[1])
            elif mode == "broadcast":
                b = (rng.choice([1, w]), rng.choice([1, h]), rng.choice([1, d]))
                if rng.random() < 0.15:      # primary input is the broadcast one (larger-volume correction; not generatable as a full stream)
                    o["ifm"], o["ifm2"] = (b[0], b[1], b[2], quants[0]), (w, h, d, quants[1])
                else:
                    o["ifm2"] = (b[0], b[1], b[2], quants[1])
            elif mode == "scalar":
                o["ifm2"], o["scalar"] = (1, 1, 1, quants[1]), True
            o["ew_mode"] = mode
        else:
            k = k or rand_kernel(BT["ConvolutionMxN"] if kind in ("conv2d", "depthwise") else BT["Pooling"])
            if rng.random() < 0.04:
                k = None if rng.random() < 0.5 else k
            o["kernel"] = k
            kk = k or (1, 1, 1, 1, 1, 1)
            up = 1 if upscale == "NONE" else 2
            if rng.random() < 0.75:
                iw = max(1, ((w - 1) * kk[2] + (kk[0] - 1) * kk[4] + 1 + up - 1) // up)
                ih = max(1, ((h - 1) * kk[3] + (kk[1] - 1) * kk[5] + 1 + up - 1) // up)
            else:
                iw, ih = rand_dim(60), rand_dim(60)
            if kind == "pooling":
                o["sub"] = rng.choice(["MAX", "AVERAGE"])
            idepth = d if kind in ("depthwise", "pooling") else (ifm_d or rand_depth())
            o["ifm"] = (iw, ih, idepth, quants[0])
        o["ofm"] = (w, h, d, quants[2])
        return o

    def rand_quants(dtype):
        r = rng.random()
        if r < 0.62:
            return (2, 2, 2)
        if r < 0.80:      # quantization objects present, some scale_f32 None
            q = [rng.choice([1, 2]) for _ in range(3)]
            if all(x == 2 for x in q):
                q[rng.randrange(3)] = 1
            return tuple(q)
        if r < 0.9:
            return (1, 1, 1)
        q = [rng.choice([0, 1, 2]) for _ in range(3)]
        return tuple(q)

    def rand_dtype(kind):
        if kind in ("elementwise", "reduce_sum"):
            return rng.choice(["u8", "i8", "i16", "i16", "i32"])
        return rng.choice(["u8", "i8", "i16", "i16", "u16"]) if rng.random() < 0.9 else "i16"

    # dense grid over the discrete axes, small shapes
    small_shapes = [(w, h, d) for w in (1, 2, 5, 8, 13, 21, 34, 40) for h in (1, 2, 3, 7, 16, 22, 36, 40) for d in (1, 8, 16, 24, 40)]
    for ai in range(0 if R else nacc):
        for kind in KINDS:
            for dtype in (("i8", "i16", "i32") if kind in ("elementwise", "reduce_sum") else ("i8", "i16")):
                for lut in (False, True):
                    for upscale in RS:
                        if kind == "elementwise":
                            for mode in ("unary", "same", "broadcast", "scalar"):
                                op_cases.append(mk_op(ai, kind, dtype, lut, upscale, rand_quants(dtype),
                                                      rng.choice(small_shapes), ew_mode=mode))
                        else:
                            ofm = rng.choice(small_shapes)
                            if kind == "reduce_sum":
                                ofm = (ofm[0], ofm[1], 1)
                            op_cases.append(mk_op(ai, kind, dtype, lut, upscale, rand_quants(dtype), ofm))
    # the measured finding of DESIGN.md section 8 #12 (first case = the exact witness) and its neighbourhood
    near = [(2, (34, 20))] + [(rng.randrange(nacc), (rng.randint(8, 40), rng.randint(8, 40))) for _ in range(600 if T else 40)]
    for n, (ai, ofm_wh) in enumerate([] if R else near):
        o = mk_op(ai, "conv2d", "i16", False, "NONE", (1, 1, 1), (ofm_wh[0], ofm_wh[1], 16),
                  k=(3, 3, 1, 1, 1, 1), ifm_d=16, pk_first=False)
        if n == 0:
            o["ifm"] = (36, 22, 16, 1)
        op_cases.append(o)
    while len(op_cases) < n_ops:
        ai = rng.randrange(nacc)
        kind = rng.choice(["conv2d"] * 4 + ["depthwise"] * 2 + ["pooling"] * 2 + ["reduce_sum"] + ["elementwise"] * 4)
        dtype = rand_dtype(kind)
        ofm = (rand_dim(), rand_dim(), 1 if kind == "reduce_sum" else rand_depth())
        if rng.random() < 0.16:
            # one-row / one-column feature maps with a long other axis: the Conv1D accumulator rule looks at the OFM *height*,
            # so width and height must not be confused anywhere between the query and the generator
            long_ = rng.choice([16, 24, 32, 40, 63, 64, 128])
            ofm = (1, long_, ofm[2]) if rng.random() < 0.5 else (long_, 1, ofm[2])
            if rng.random() < 0.6 and kind != "reduce_sum":
                ofm = (ofm[0], ofm[1], rng.choice([64, 96, 128, 130, 256, 276, 390]))
            if rng.random() < 0.6 and kind in ("conv2d", "depthwise", "pooling"):
                dtype = "i16"
        if rng.random() < 0.01:     # malformed: an empty axis
            z = rng.randrange(3)
            ofm = tuple(0 if i == z else v for i, v in enumerate(ofm))
        o = mk_op(ai, kind, dtype, rng.random() < 0.35, rng.choice(["NONE", "NONE", "NEAREST", "TRANSPOSE"]), rand_quants(dtype), ofm)
        if o["kernel"] and rng.random() < 0.01:   # malformed: zero stride / dilation
            kk = list(o["kernel"])
            kk[rng.choice([2, 3, 4, 5])] = 0
            o["kernel"] = tuple(kk)
        op_cases.append(o)
    # excluded points of `offered_accepted` (a non-elementwise operation carrying a *scalar* IFM2): api.py passes the
    # IFM2 Block, the generator passes None (theorem offered_needs_ifm2_witness).  Outside the property's quantifier
    # ("scalar/broadcast elementwise"); run on the real code and reported in the evidence, not as violations.
    n_excl = 300 if T else 25
    for n in range(0 if R else n_excl):
        ai = 2 if n == 0 else rng.randrange(nacc)
        ofm = (16, 8, 16) if n == 0 else (rng.randint(8, 40), rng.randint(4, 32), rng.choice([8, 16, 32]))
        o = mk_op(ai, "conv2d", "i8", False, "NONE", (2, 2, 2), ofm, k=(1, 1, 1, 1, 1, 1), ifm_d=32, pk_first=False)
        o["ifm"] = (ofm[0], ofm[1], 32, 2)
        o["ifm2"], o["scalar"], o["excluded"] = (32, 32, 8, 2), True, True
        op_cases.append(o)
    n_full = 6 if T else 3

    def api_real_str(r):
        if r["offered"] == "build:err:assert":
            return "err:assert"      # NpuKernel itself refuses a zero stride/dilation: nothing reaches the query
        if isinstance(r["offered"], list):
            return "ok " + " ".join("%d %d %d" % c for c in r["offered"])
        return r["offered"]

    disagreements = []      # (stream, request, model, implementation)
    stats = {"gen": 0, "gen_ok": set(), "reg": 0, "full": 0, "full_other": 0, "refused": 0, "excluded_refused": 0,
             "reg_fail": 0, "evals": 0}
    unexplained = []
    reg_fail_all = []
    samples_api = []

    def compare(name, reqs, ms, reals):
        for rq, m, r in zip(reqs, ms, reals):
            ck.count("%s:%s" % (name, r.split()[0].split(":")[0] + (":" + r.split(":")[1].split()[0] if r.startswith("err") else "")))
            if name == "get_arch_block_config" and r.startswith("err:assert"):
                r = "err:assert"
            if m != r:
                disagreements.append((name, rq, m, r))

    def op_alts():
        def dtype(r, b):
            pool_ = ("u8", "i8", "i16", "i32") if b["kind"] in ("elementwise", "reduce_sum") else ("u8", "i8", "i16", "u16")
            return r.choice([d_ for d_ in pool_ if d_ != b["dtype"]])

        def fm(key):
            def f(r, b):
                t = b[key]
                if t is None:
                    raise KeyError(key)
                idx = [3]
                if b["kind"] != "elementwise":
                    idx += [0, 1]
                    if b["kind"] in ("conv2d", "reduce_sum") and not (key == "ofm" and b["kind"] == "reduce_sum"):
                        idx.append(2)
                i = r.choice(idx)
                n = list(t)
                n[i] = r.choice([q_ for q_ in (0, 1, 2) if q_ != t[3]]) if i == 3 else max(1, t[i] + r.choice([1, -1, 2, 8, 16]))
                return tuple(n)
            return f

        def pk(r, b):
            if b["kind"] != "conv2d":
                raise KeyError("pk_first")
            return not b["pk_first"]

        def kern(r, b):
            if not b["kernel"]:
                raise KeyError("kernel")
            return siblings.bump_elem("kernel", steps=(1, -1, 2))(r, b)

        def sub(r, b):
            groups = [["MAX", "AVERAGE"], ["ABS", "LRELU", "CLZ"], ["ADD", "SUB", "MUL", "MIN", "MAX", "SHR", "SHL"]]
            if b["kind"] == "reduce_sum" or b["sub"] is None:
                raise KeyError("sub")
            g_ = [x for x in groups if b["sub"] in x][0 if b["kind"] == "pooling" else -1]
            return r.choice([x for x in g_ if x != b["sub"]])

        return {"acc": co("acc", range(nacc)), "dtype": dtype, "lut": siblings.toggle("lut"), "upscale": co("upscale", RS),
                "act": siblings.toggle("act"), "pk_first": pk, "ifm": fm("ifm"), "ofm": fm("ofm"), "ifm2": fm("ifm2"), "kernel": kern, "sub": sub}

    def run_ops(fams):
        batch = flat(fams)
        jfams = [[(o, sorted({0, rng.randrange(400), rng.randrange(60), rng.randrange(12)})[:n_full]) for o in fam] for fam in fams]
        api_real = flat(siblings.run_families(pool, real_api, jfams, 4))
        api_req = ["apicfg %d %s" % (o["acc"], op_tokens(o)) for o in batch]
        gen_req, gen_real = [], []                      # one per offered config
        reg_req, reg_ref = [], []                       # Spec on emitted registers (D and E)
        verdict_req, verdict_ref = [], []
        for oi, (o, r) in enumerate(zip(batch, api_real)):
            if not isinstance(r["offered"], list):
                continue
            toks = op_tokens(o)
            kind = o["kind"]
            usage = 0 if kind != "elementwise" else (1 if (o["ifm2"] and not o["scalar"]) else 2)
            kk = o["kernel"] or (1, 1, 1, 1, 1, 1)
            pk = kind == "conv2d" and o["pk_first"]
            view = view_tokens(usage, kind in ("depthwise", "pooling", "elementwise"), DT_BITS[o["dtype"]], o["ifm"][2], pk, kk,
                               RS.index(o["upscale"]), o["ofm"][1], o["lut"])
            for ci, (cfg, g) in enumerate(zip(r["offered"], r["gen"])):
                gen_req.append("gencfg %d %s %d %d %d" % (o["acc"], toks, *cfg))
                gen_real.append(g.split("|")[0] if g.startswith("ok") else g.split(":")[0] + ":" + g.split(":")[1])
                accepted = g.startswith("ok")
                if accepted:
                    rs_ = g.split("|")[1].split()      # regs bh bw bd ib_end ab_start ib2|- fmt
                    has2 = rs_[6] != "-"
                    reg_req.append("regcheck %d %s %s %s %s %s %s %s %d %s" % (o["acc"], view, rs_[2], rs_[1], rs_[3], rs_[7], rs_[4],
                                                                              rs_[5], int(has2), rs_[6] if has2 else "0"))
                    reg_ref.append((oi, ci, "block-config path", g, cfg))
                else:
                    verdict_req.append("offerverdict %d %s %d %d %d 0" % (o["acc"], toks, *cfg))
                    verdict_ref.append((oi, ci, g))
            for j_, s_ in r["full"].items():
                if s_.startswith("regs"):
                    rs_ = s_.split()
                    has2 = rs_[6] != "-"
                    reg_req.append("regcheck %d %s %s %s %s %s %s %s %d %s" % (o["acc"], view, rs_[2], rs_[1], rs_[3], rs_[7], rs_[4],
                                                                              rs_[5], int(has2), rs_[6] if has2 else "0"))
                    reg_ref.append((oi, j_, "full stream", s_, r["offered"][j_]))
        reqs = api_req + gen_req + reg_req + verdict_req
        outs = ck.model(reqs)
        stats["evals"] += len(reqs)
        api_m = outs[:len(api_req)]
        gen_m = outs[len(api_req):len(api_req) + len(gen_req)]
        reg_m = outs[len(api_req) + len(gen_req):len(api_req) + len(gen_req) + len(reg_req)]
        verdict_m = outs[len(api_req) + len(gen_req) + len(reg_req):]
        compare("npu_find_block_configs", api_req, api_m, [api_real_str(r) for r in api_real])
        compare("get_arch_block_config", gen_req, gen_m, gen_real)
        stats["gen"] += len(gen_req)
        stats["gen_ok"].update(r for r, x in zip(gen_req, gen_real) if x.startswith("ok"))
        stats["reg"] += len(reg_req)
        if gen_req and len(samples_api) < 2:
            samples_api.append({"request": gen_req[0], "model": gen_m[0], "implementation": gen_real[0]})
            samples_api.append({"request": reg_req[0], "spec": reg_m[0]})
        # Lean Spec on the registers the real generator emitted
        for (oi, ci, where, s_, cfg), v in zip(reg_ref, reg_m):
            if v != "1":
                stats["reg_fail"] += 1
                reg_fail_all.append(v)
                if stats["reg_fail"] <= 4:
                    op = batch[oi]
                    hist = "" if not op.get("history_base") else (" - HISTORY: generated in the same process right after an operation that "
                                                                  "differs only in field '%s'" % op.get("history_field"))
                    ck.violation("Lean Spec (%s) rejects the SHRAM registers the generator emitted (%s) for offered block config h,w,d=%s%s"
                                 % (v, where, cfg, hist), {"operation": op, "accelerator": G["accs"][op["acc"]].value,
                                                    "block_config_hwd": cfg, "emitted": s_, "spec_verdict": v, "how": where})
        # offered configurations the generator refuses: the verdict (and its explanation) is Lean's
        for (oi, ci, g), v in zip(verdict_ref, verdict_m):
            op = batch[oi]
            cfg = api_real[oi]["offered"][ci]
            if op.get("excluded") and v == "rejected:ifm2-shape-derivation":
                stats["excluded_refused"] += 1
                ck.count("excluded_point_refused_on:" + G["accs"][op["acc"]].value)
                continue
            stats["refused"] += 1
            ck.count("offered_refused:" + v)
            ck.count("offered_refused_on:" + G["accs"][op["acc"]].value)
            what = ("api.npu_find_block_configs offers block config h,w,d=%s on %s for %s %s ifm(w,h,d,q)=%s ofm=%s kernel=%s, "
                    "register_command_stream_generator refuses it: %s [%s]" % (cfg, G["accs"][op["acc"]].value, op["dtype"], op["kind"],
                                                                              op["ifm"], op["ofm"], op["kernel"], g, v))
            replay = {"operation": op, "accelerator": G["accs"][op["acc"]].value, "block_config_hwd": cfg, "generator": g,
                      "lean_verdict": v, "replay": "./check C15 --replay <this file>  (build_op(operation); api.npu_find_block_configs; "
                      "op.block_config = NpuShape3D(*block_config_hwd); api.npu_generate_register_command_stream([op], acc))"}
            if v == "rejected:api-acc40-generator-acc32":
                ck.violation(what, replay, found_input=True, key=KNOWN_KEY)
            else:
                unexplained.append(what)
                ck.violation(what, replay, found_input=True)
        # full-stream sample: the registers must be those of the block-config path
        for oi, r in enumerate(api_real):
            o = batch[oi]
            for j_, s_ in r["full"].items():
                stats["full"] += 1
                ck.count("full_stream:" + ("regs" if s_.startswith("regs") else s_[:48]))
                g = r["gen"][j_]
                if s_.startswith("err:assert") and "does not fit" in s_:
                    if g.startswith("ok"):
                        ck.violation("full stream generation refuses an offered config that the block-config path accepted: " + s_,
                                     {"operation": o, "block_config_hwd": r["offered"][j_]})
                elif s_.startswith("regs"):
                    if g.startswith("ok") and g.split("|")[1] != s_:
                        ck.violation("full stream registers differ from the block-config path: %s vs %s" % (s_, g),
                                     {"operation": o, "block_config_hwd": r["offered"][j_]})
                else:
                    stats["full_other"] += 1
            ck.count("op_kind:" + o["kind"])
            ck.count("op_acc:" + G["accs"][o["acc"]].value)
            ck.count("op_dtype:" + o["dtype"])
            ck.count("op_upscale:" + o["upscale"])
            ck.count("op_lut:%d" % o["lut"])
            ck.count("op_quant:%s" % ("all-scaled" if all(f is None or f[3] == 2 for f in (o["ifm"], o["ifm2"], o["ofm"])) else
                                      "quant-missing" if any(f is not None and f[3] == 0 for f in (o["ifm"], o["ifm2"], o["ofm"])) else "scale-none"))
            if o["kind"] == "elementwise":
                ck.count("op_ew:" + o["ew_mode"])
            if isinstance(r["offered"], list):
                ck.count("offered_configs", len(r["offered"]))

    if ck.replay_arg:
        import json
        rp = json.load(open(ck.replay_arg))["replay"]
        if "operation" in rp:
            o = rp["operation"]
            hb = o.get("history_base")
            for o_ in (o, hb):
                for f in ("ifm", "ifm2", "ofm", "kernel"):
                    if o_ is not None:
                        o_[f] = tuple(o_[f]) if o_.get(f) else None
            # a sibling is replayed with its history: the base operation first, in the same worker
            run_ops([[hb, o]] if hb else [[o]])
        elif rp.get("function", "").endswith("try_block_config"):
            c = tuple(tuple(x) if isinstance(x, list) else x for x in rp["arguments"])
            try_cases[:] = [c]
            core_cases[:], find_cases[:], area_cases = [], [], []
        elif rp.get("function", "").endswith("find_block_config"):
            c = tuple(tuple(x) if isinstance(x, list) else x for x in rp["arguments"])
            find_cases[:] = [c]
            core_cases[:], try_cases[:], area_cases = [], [], []
        if "operation" in rp or "function" not in rp:
            core_cases[:], try_cases[:], find_cases[:] = [], [], []
        op_cases = []
        core_req, try_req, find_req = [req_core(c) for c in core_cases], [req_try(c) for c in try_cases], [req_find(c) for c in find_cases]
        core_real, try_real, find_real = [real_core(c) for c in core_cases], [real_try(c) for c in try_cases], [real_find(c) for c in find_cases]
    # families: base operation, then (60 %) one operation that differs from it in exactly one field, same worker, in this order
    op_fams = with_siblings("operation", op_cases, op_alts(), 0.6) if not ck.replay_arg else []
    op_fams = [f if not f[0].get("excluded") else f[:1] for f in op_fams]
    for f in op_fams:
        for s_ in f[1:]:
            s_["history_base"] = {k_: v_ for k_, v_ in f[0].items() if k_ != "history_base"}
    B = 900
    for b0 in range(0, len(op_fams), B):
        run_ops(op_fams[b0:b0 + B])
    op_cases = flat(op_fams)

    # -------- F: get_ifm_area_required ----------------------------------------------------------------
    area_cases = []
    for _ in range(0 if ck.replay_arg else (40000 if T else 3000)):
        k = rand_kernel(BT["ConvolutionMxN"])
        area_cases.append((rand_dim(), rand_dim(), k, rng.choice([0, 1, 2])))
    area_req = ["ifmarea %d %d %s %d" % (c[0], c[1], " ".join(map(str, c[2])), c[3]) for c in area_cases]
    area_real = pmap(pool, real_area, area_cases, 1024)
    pool.close()
    pool.join()

    # =================================================================================================
    # A, B, C, F: model answers, Spec on the implementation's layouts
    # =================================================================================================
    spec_req, spec_ref = [], []
    for c, real in zip(try_cases, try_real):
        ai, bt, blk, ofm, ifm, ifm2, scalar, bits, pk, k, lut, scaled, rs = c
        if not real.startswith("ok") or lut not in (0, 2) or (ifm2 and bt != BT["ElementWise"]):
            continue
        t = real.split()
        usage = 0 if bt != BT["ElementWise"] else (1 if (ifm2 and not scalar) else 2)
        view = view_tokens(usage, bt in EQUAL_DEPTH, bits, ifm[2], pk, k, rs, ofm[1], lut == 2)
        spec_req.append("speccheck %d %s %d %d %d %s %s" % (ai, view, *blk, t[11], " ".join(t[1:6])))
        spec_ref.append(("try_block_config", c, real))
    for c, real in zip(find_cases, find_real):
        ai, bt, ofm, ifm, ifm2, scalar, bits, k, lut, scaled, rs = c
        if not real.startswith("ok"):
            continue
        t = real.split()      # ok blk W H D l1..l5 ifm W H D acc A pk P bank B
        usage = 0 if bt != BT["ElementWise"] else (1 if (ifm2 and not scalar) else 2)
        eff = ifm
        if ifm2 and ifm2[0] * ifm2[1] * ifm2[2] * ifm2[3] > ifm[0] * ifm[1] * ifm[2] * ifm[3]:
            eff = ifm2
        view = view_tokens(usage, bt in EQUAL_DEPTH, bits, eff[3], t[17] == "1", k, rs, ofm[1], lut == 2)
        spec_req.append("speccheck %d %s %s %s %s %s %s" % (ai, view, t[2], t[3], t[4], t[15], " ".join(t[5:10])))
        spec_ref.append(("find_block_config", c, real))

    find_req_q = [req_find(c, "findcfgq") for c in find_cases]
    all_req = core_req + try_req + find_req + area_req + find_req_q + spec_req
    outs = ck.model(all_req)
    stats["evals"] += len(all_req)
    pos = 0

    def take(n):
        nonlocal pos
        r = outs[pos:pos + n]
        pos += n
        return r

    core_m, try_m, find_m, area_m, find_q, spec_m = (take(len(x)) for x in (core_req, try_req, find_req, area_req, find_req_q, spec_req))
    compare("_try_block_config", core_req, core_m, core_real)
    compare("try_block_config", try_req, try_m, try_real)
    compare("find_block_config", find_req, find_m, find_real)
    compare("get_ifm_area_required", area_req, area_m, area_real)
    spec_fail = [(ref, o) for ref, o in zip(spec_ref, spec_m) if o != "1"]
    for (fn, c, real), o in spec_fail[:4]:
        ck.violation("Lean Spec (%s) rejects the layout returned by %s: %s" % (o, fn, real),
                     {"function": "architecture_allocator." + fn, "accelerator": G["accs"][c[0]].value, "arguments": c,
                      "implementation_result": real, "spec_verdict": o, "request": req_try(c) if fn == "try_block_config" else req_find(c)})
    if disagreements and not (spec_fail or stats["reg_fail"] or unexplained):
        # failing-input search came back empty: the Spec accepted every implementation output above
        name, rq, m, r = min(disagreements, key=lambda d: len(d[1]))
        ck.violation("correspondence Model/Shram.lean vs %s broken on %d inputs (%s)" % (
            name, len(disagreements), ", ".join(sorted({d[0] for d in disagreements}))),
            {"correspondence": name, "request": rq, "model": m[:600], "implementation": r[:600],
             "searched": "Lean Spec on %d implementation layouts and %d emitted register sets: no rejection" % (len(spec_req), stats["reg"])},
            found_input=False)

    # =================================================================================================
    # evidence
    # =================================================================================================
    for c in try_cases:
        ck.count("try_kind:%d" % c[1])
    for c, real, q in zip(find_cases, find_real, find_q):
        ck.count("find_acc:%s" % G["accs"][c[0]].value)
        if real != q:
            ck.count("find_float_choice_differs_from_exact_rational")
        if real.startswith("ok"):
            t = real.split()
            if c[2][1] == 1 and c[7][1] == 1 and ublock(c[0])[1] == 2:
                ck.count("find_conv1d_fit_applied")
            if t[15] == "40":
                ck.count("find_acc40")
    branches = {"_try_block_config:none", "_try_block_config:ok", "_try_block_config:err:assert", "try_block_config:none",
                "try_block_config:ok", "try_block_config:err:key", "find_block_config:ok", "find_block_config:none",
                "npu_find_block_configs:ok", "npu_find_block_configs:err:assert", "get_arch_block_config:ok",
                "find_conv1d_fit_applied", "find_acc40", "find_float_choice_differs_from_exact_rational"}
    unreached = [] if ck.replay_arg else sorted(b for b in branches if b not in ck.counters)
    if KNOWN_KEY not in ck.known_hits and not stats["refused"] and not ck.replay_arg:
        unreached.append("offered-config-refused (none seen: api and generator derive the same arguments on this tree)")
    nontrivial = len({r for r, x in zip(core_req, core_real) if x.startswith("ok")}) + \
        len({r for r, x in zip(try_req, try_real) if x.startswith("ok")}) + \
        len({r for r, x in zip(find_req, find_real) if x.startswith("ok")}) + len(stats["gen_ok"])
    if find_req:
        ck.sample({"request": find_req[-1], "model": find_m[-1], "implementation": find_real[-1]})
    for s_ in samples_api:
        ck.sample(s_)
    if spec_req:
        ck.sample({"request": spec_req[0], "spec": spec_m[0]})
    ck.finish({
        "evaluations": stats["evals"],
        "distinct_nontrivial": nontrivial,
        "rule": "case = one call of _try_block_config / try_block_config / find_block_config / (operation, offered block config) "
                "through get_arch_block_config+generate_block_config+generate_shram_registers; non-trivial when a layout / config is "
                "returned; distinct by request line",
        "operations": len(op_cases),
        "offered_configs_checked_against_generator": stats["gen"],
        "full_streams_generated": stats["full"],
        "full_streams_unrelated_errors": stats["full_other"],
        "spec_checked_layouts": len(spec_req),
        "spec_checked_register_sets": stats["reg"],
        "spec_rejections": len(spec_fail) + stats["reg_fail"],
        "offered_but_refused": stats["refused"],
        "excluded_points_refused": stats["excluded_refused"],
        "excluded_points_note": "conv2d carrying a scalar IFM2 (outside the property's quantifier): api.py passes the IFM2 Block, the "
                                "generator passes None; refusals there are explained by theorem offered_needs_ifm2_witness",
        "disagreements": len(disagreements),
        "disagreement_examples": [list(d) for d in disagreements[:3]],
        "unreached_branches": unreached,
        "exhaustive": False,
        "trusted_base_extra": ["harness/tables/shram.py observes api.npu_find_block_configs' `scaled` criterion by wrapping "
                               "architecture_allocator.try_block_config on three probe operations",
                               "Lean `Float` (IEEE binary64, native) for the cost comparisons of the WHC search in the driver; "
                               "the theorems hold for every cost arithmetic"],
    }, assumptions=[
        "shape dimensions, kernel sizes and bank counts are non-negative (negative values are outside the model's domain)",
        "integers handed to the float cost arithmetic stay below 2^53 (enforced by the handler: dims <= 4096, batch <= 8)",
        "hardware facts taken from the code comments: IFM starts after the reserved output banks, Conv1D optimisation needs "
        "accumulators for one row only, the IFM block is the receptive field of the first 8x8 sub-kernel",
    ])


main_wrapper(main)
