#!/venv/bin/python
"""Scheduler-bookkeeping stage of C12 on its own (development aid; `./check C12` runs the same stage).
Evidence and replays are written under the id C12-sched so that evidence/C12.json is left alone."""
import common
import pipeline
import sched_lib
from common import Check, main_wrapper


def main():
    ck = Check("C12", "translation_validation")
    ck.pid = "C12-sched"
    ck.lean_stage(["VelaVerif.Props.C12Sched"])
    pipeline.load_vela()
    sched_lib.install()
    outs = sched_lib.corpus(ck, 1500 if ck.thorough else 150)
    outs += sched_lib.stub_fast(ck.rng, 4000 if ck.thorough else 600)
    outs += sched_lib.stub_builder(ck.rng, 6000 if ck.thorough else 800)
    outs += sched_lib.stub_tusage(ck.rng, 3000 if ck.thorough else 400)
    st = sched_lib.stage(ck, outs)
    ck.finish(dict(st, evaluations=st["sched_model_requests"] + st["sched_spec_requests"], distinct_nontrivial=st["sched_distinct_nontrivial"],
                   programs=len(outs),
                   rule="request = one call of a modelled scheduler function on a compiled network (model = real) or one Lean Spec "
                        "verdict on the real values; non-trivial = build_cascades calls that create a cascade, fast-storage calls "
                        "above the limit, optimize_sub_schedule calls"))


main_wrapper(main)
