#!/venv/bin/python
"""C18 — system configuration and memory mode resolve as documented.

Proofs: lean/VelaVerif/Props/C18.lean over Model/Config.lean (transcription of _read_config,
_get_vela_config, ArchitectureFeatures.__init__, vela.main's argument handling) and Spec/Config.lean
(the rules of OPTIONS.md written independently).

Correspondence, every run, on generated .ini files x selections x CLI overrides x working directories:
  * `_read_config` called directly                      vs  readConfig            (cfgread)
  * `ArchitectureFeatures(...)` / `Imx93ArchitectureFeatures(...)` vs archFeatures (cfgaf)
  * `vela.main(argv)` with `vela.process` intercepted   vs  mainArch              (cfgmain)
  * os.path.normpath / float() / int()                  vs  the glue functions    (cfgnorm/cfgfloat/cfgint)
Failing-input search: the Lean Spec (documented rules) judges every outcome of the *implementation*
(cfgspecread / cfgspecaf / cfgspecmain).  Python only canonicalises and chooses inputs.
"""
import configparser
import contextlib
import io
import json
import math
import os
import re
import shutil
import sys
import tempfile

import common
from common import Check, InfraError, main_wrapper

# ------------------------------------------------------------------------------------------------
# protocol helpers


def enc(s):
    out = []
    for ch in s:
        if ch.isalnum() or ch in "_-./:,+~()[]{}@!?*'\"<>|^&$#;=":
            out.append(ch)
        else:
            out.append("".join("%%%02x" % b for b in ch.encode("utf-8")) if ord(ch) < 128 else "%3f")
    return "=" + "".join(out)


def opt(s):
    return "-" if s is None else enc(s)


def opt_int(v):
    return "-" if v is None else str(int(v))


def enc_ini(ini):
    toks = [str(len(ini))]
    for sec, opts in ini:
        toks += [enc(sec), str(len(opts))]
        for k, v in opts:
            toks += [enc(k), enc(v)]
    return toks


def enc_env(bundled, cwd, files):
    """files: dict abs path -> parsed ini (list) or None (unparsable)"""
    toks = [enc(bundled), enc(cwd), str(len(files))]
    for p in sorted(files):
        toks.append(enc(p))
        if files[p] is None:
            toks.append("U")
        else:
            toks.append("P")
            toks += enc_ini(files[p])
    return toks


def parse_text(text):
    """ConfigParser's view of a file: [(section, [(key, value)])] or None when it cannot be parsed"""
    cp = configparser.ConfigParser()
    try:
        cp.read_string(text)
    except configparser.Error:
        return None
    return [(s, [(k, cp.get(s, k, raw=True)) for k in cp.options(s)]) for s in cp.sections()]


def dy(x):
    x = float(x)
    if x == 0:
        return "0:0:0"
    m, e = math.frexp(abs(x))
    mi = int(m * (1 << 53))
    ei = e - 53
    while mi % 2 == 0:
        mi //= 2
        ei += 1
    return "%d:%d:%d" % (1 if x < 0 else 0, mi, ei)


def canon_arch(a):
    from ethosu.vela.tensor import BandwidthDirection

    rows = []
    for i in range(6):
        rows.append("%s,%d,%d,%d" % (dy(a.memory_clock_scales[i]), int(a.memory_burst_length[i]),
                                      int(a.memory_latency[i][BandwidthDirection.Read]),
                                      int(a.memory_latency[i][BandwidthDirection.Write])))
    return ("ok cc=%s a0=%d a1=%d tab=%s cp=%d ap=%d kp=%d sz=%d pa=%d fa=%d ka=%d" % (
        dy(a.core_clock), int(a.axi0_port), int(a.axi1_port), ";".join(rows),
        a.const_mem_area.value - 1, a.arena_mem_area.value - 1, a.cache_mem_area.value - 1,
        int(a.arena_cache_size), int(a.permanent_storage_mem_area), int(a.feature_map_storage_mem_area),
        int(a.fast_storage_mem_area)))


def classify_vela_msg(msg):
    m = re.search(r"Incorrect argument to CLI option (--[\w-]+)=", msg)
    if m:
        return "err:cli-" + m.group(1)[2:]
    m = re.search(r"Invalid configuration of (\w+)=", msg)
    if m:
        o = m.group(1)
        if o == "arena_cache_size":
            return "err:cfg-arena_cache_size-" + ("big" if "out of bounds" in msg else "neg")
        return "err:cfg-" + o
    if "Reading input file" in msg:
        return "err:input-file"
    return "err:vela-other:" + msg[:60]


def classify_exc(e):
    from ethosu.vela.errors import VelaError

    if isinstance(e, VelaError):
        return classify_vela_msg(e.data)
    if isinstance(e, configparser.Error):
        return "err:ini-parse"
    if isinstance(e, RecursionError):
        return "err:recursion"
    if isinstance(e, KeyError):
        return "err:key"
    if isinstance(e, IndexError):
        return "err:index"
    if isinstance(e, OverflowError):
        return "err:overflow"
    if isinstance(e, ValueError):
        return "err:value"
    if isinstance(e, AttributeError):
        return "err:attr"
    if isinstance(e, SystemExit):
        return "err:argparse" if e.code == 2 else "err:exit-%s" % e.code
    return "err:other:" + type(e).__name__


def obs_tokens(outcome):
    return "err" if outcome.startswith("err") else outcome


# ------------------------------------------------------------------------------------------------
# generators

AREAS = ["Sram", "Dram", "OnChipFlash", "OffChipFlash"]
ODD_AREAS = ["Unknown", "Shram", "Size"]
BAD_AREAS = ["sram", "Flash", "", "SRAM", "Axi0"]
CLOCKS = ["1e9", "500e6", "200e6", "1", "0.5", "123456789", "1e+9", "2.5e8", "1000000000.0", "7", "3.3e6", "1E9"]
BAD_FLOATS = ["fast", "", "1e", "0x10", "1,5", "--1", "1.2.3", "e9", "."]
SCALES = ["1.0", "0.75", "0.125", "0.0625", "0.234375", "0.46875", "1", "0.1", "0.3", "2", ".5", "1.", "1e-1", "0.333333333333333333333"]
INTS = ["32", "128", "1", "64", "0", "-1", "+16", "007", "500", "250", "4096"]
BAD_INTS = ["32.0", "", "abc", "1e3", "0x20", "3 2", "--4"]
BIG_INTS = ["9223372036854775807", "9223372036854775808", "-9223372036854775808", "-9223372036854775809"]
PORTS = ["Axi0", "Axi1"]
BAD_PORTS = ["axi0", "Axi2", "", "Sram"]
SIZES = ["393216", "524288", "0", "1", "4294967295", "4294967296", "4294967297", "1099511627776", "1099511627777",
         "-1", "2097152", "+5", "65536"]
BAD_SIZES = ["", "1e6", "12.5", "big"]
ACCS = ["ethos-u55-32", "ethos-u55-64", "ethos-u55-128", "ethos-u55-256", "ethos-u65-256", "ethos-u65-512"]


def key_case(rng, k):
    r = rng.random()
    if r < 0.85:
        return k
    if r < 0.93:
        return k.lower()
    return k.upper()


def pick(rng, good, bad, p_bad):
    return rng.choice(bad) if rng.random() < p_bad else rng.choice(good)


def gen_sections(rng, p_bad):
    """a forest of sections with inherit links; returns ordered dict name -> list of (key, value)"""
    nsys = rng.choice([1, 1, 2, 3, 4, 6])
    nmem = rng.choice([1, 1, 2, 3, 4, 6])
    names = ["System_Config.S%d" % i for i in range(nsys)] + ["Memory_Mode.M%d" % i for i in range(nmem)]
    secs = {n: [] for n in names}
    # most scenarios follow a legal template so that deep chains resolve to accepted configurations
    tmpl = None
    if rng.random() < 0.75:
        nons = rng.choice(["Dram", "Dram", "OffChipFlash", "OnChipFlash"])
        sw = rng.random() < 0.3
        sp, np_ = ("Axi0", "Axi1") if not sw else ("Axi1", "Axi0")
        mode = rng.choice(["shared", "dedicated", "sramonly"])
        tmpl = {"axi0_port": "Sram" if not sw else nons, "axi1_port": nons if not sw else "Sram",
                "const_mem_area": sp if mode == "sramonly" else np_, "arena_mem_area": np_ if mode == "dedicated" else sp,
                "cache_mem_area": sp}
    for part, n in (("System_Config.S", nsys), ("Memory_Mode.M", nmem)):
        # chains: section i inherits from i+1 with high probability -> depth up to n-1 (0..5)
        for i in range(n):
            me = "%s%d" % (part, i)
            r = rng.random()
            if i + 1 < n and r < 0.7:
                secs[me].append(("inherit", "%s%d" % (part, i + 1)))
            elif 0.7 <= r < 0.7 + p_bad * 0.5:
                kind = rng.choice(["self", "missing", "cycle", "cross"])
                if kind == "self":
                    secs[me].append(("inherit", me))
                elif kind == "missing":
                    secs[me].append(("inherit", part + "Nope"))
                elif kind == "cycle":
                    secs[me].append(("inherit", "%s%d" % (part, rng.randrange(0, i + 1) if i else 0)))
                else:
                    secs[me].append(("inherit", rng.choice(names)))
    for n in names:
        opts = secs[n]
        if n.startswith("System_Config"):
            if rng.random() < 0.6:
                opts.append(("core_clock", pick(rng, CLOCKS, BAD_FLOATS, p_bad * 0.3)))
            for ax in ("axi0_port", "axi1_port"):
                if rng.random() < 0.65:
                    r = rng.random()
                    v = rng.choice(BAD_AREAS) if r < p_bad * 0.2 else rng.choice(ODD_AREAS) if r < p_bad * 0.5 else rng.choice(AREAS)
                    if tmpl and rng.random() < 0.85:
                        v = tmpl[ax]
                    opts.append((ax, v))
            for area in AREAS + (ODD_AREAS[:2] if rng.random() < 0.1 else []):
                if rng.random() < 0.5:
                    continue
                for suffix, good, bad in (("_clock_scale", SCALES, BAD_FLOATS), ("_burst_length", INTS, BAD_INTS + BIG_INTS),
                                          ("_read_latency", INTS, BAD_INTS + BIG_INTS), ("_write_latency", INTS, BAD_INTS)):
                    if rng.random() < 0.6:
                        opts.append((key_case(rng, area + suffix), pick(rng, good, bad, p_bad * 0.15)))
        else:
            for k in ("const_mem_area", "arena_mem_area", "cache_mem_area"):
                if rng.random() < 0.7:
                    v = pick(rng, PORTS, BAD_PORTS, p_bad * 0.2)
                    if tmpl and rng.random() < 0.85:
                        v = tmpl[k]
                    opts.append((k, v))
            if rng.random() < 0.5:
                opts.append(("arena_cache_size", pick(rng, SIZES, BAD_SIZES, p_bad * 0.3)))
        rng.shuffle(opts)
    return secs


def render(secs, names):
    out = []
    for n in names:
        out.append("[%s]" % n)
        for k, v in secs[n]:
            out.append("%s=%s" % (k, v))
        out.append("")
    return "\n".join(out) + "\n"


def valid_pair_sections(rng):
    """a system config / memory mode pair that is legal, with a parent each"""
    nonsram = rng.choice(["Dram", "OffChipFlash", "OnChipFlash"])
    swap = rng.random() < 0.3
    a0, a1 = ("Sram", nonsram) if not swap else (nonsram, "Sram")
    sp, np_ = ("Axi0", "Axi1") if not swap else ("Axi1", "Axi0")
    mode = rng.choice(["shared", "dedicated", "sramonly"])
    if mode == "shared":
        mem = dict(const_mem_area=np_, arena_mem_area=sp, cache_mem_area=sp)
    elif mode == "dedicated":
        if nonsram != "Dram":
            nonsram = "Dram"
            a0, a1 = ("Sram", nonsram) if not swap else (nonsram, "Sram")
        mem = dict(const_mem_area=np_, arena_mem_area=np_, cache_mem_area=sp)
    else:
        mem = dict(const_mem_area=sp, arena_mem_area=sp, cache_mem_area=sp)
    secs = {
        "System_Config.Base": [("core_clock", rng.choice(CLOCKS)), ("axi0_port", a0), ("axi1_port", a1)]
        + [(a + s, rng.choice(v)) for a in (a0, a1) for s, v in (("_clock_scale", SCALES), ("_burst_length", INTS), ("_read_latency", INTS), ("_write_latency", INTS))],
        "System_Config.Child": [("inherit", "System_Config.Base")] + ([("core_clock", rng.choice(CLOCKS))] if rng.random() < 0.6 else [])
        + ([(nonsram + "_clock_scale", rng.choice(SCALES))] if rng.random() < 0.6 else []),
        "Memory_Mode.Base": list(mem.items()) + ([("arena_cache_size", rng.choice(SIZES[:9]))] if rng.random() < 0.7 else []),
        "Memory_Mode.Child": [("inherit", "Memory_Mode.Base")] + ([("arena_cache_size", rng.choice(SIZES[:9]))] if rng.random() < 0.6 else []),
    }
    return secs


# ------------------------------------------------------------------------------------------------


def import_vela():
    common.setup_repo_path()
    sys.path.insert(0, common.HERE)
    from tables.config import import_vela as _imp

    vela = _imp()
    from ethosu.vela import architecture_features

    if not os.path.abspath(vela.__file__).startswith(os.path.abspath(common.REPO)):
        raise InfraError("ethosu.vela was imported from %s, not from %s" % (vela.__file__, common.REPO))
    return vela, architecture_features


class World:
    """a scratch directory tree with a fake bundled config directory and several working directories"""

    def __init__(self):
        self.root = os.path.realpath(tempfile.mkdtemp(prefix="velaverif_c18_"))
        self.bundled = os.path.join(self.root, "pkg", "config_files")
        self.dirs = [os.path.join(self.root, d) for d in ("w0", "w1", "w1/sub", "pkg/config_files", "pkg")]
        self.files = {}   # abs path -> text
        for d in self.dirs:
            os.makedirs(d, exist_ok=True)

    def reset(self):
        for p in list(self.files):
            try:
                os.unlink(p)
            except OSError:
                pass
        self.files = {}

    def write(self, rel, text):
        p = os.path.normpath(os.path.join(self.root, rel))
        os.makedirs(os.path.dirname(p), exist_ok=True)
        with open(p, "w") as f:
            f.write(text)
        self.files[p] = text
        return p

    def close(self):
        shutil.rmtree(self.root, True)


def main():
    ck = Check("C18", "proof")
    if ck.replay_arg:
        return replay(ck)
    ck.lean_stage(["VelaVerif.Props.C18"])
    vela, af = import_vela()
    run_checks(ck, vela, af)


def call_quiet(fn):
    """run fn() with stdout/stderr captured; returns (result or None, exception or None, stdout text)"""
    buf = io.StringIO()
    err = io.StringIO()
    cwd = os.getcwd()
    reclimit = sys.getrecursionlimit()
    try:
        with contextlib.redirect_stdout(buf), contextlib.redirect_stderr(err):
            try:
                return fn(), None, buf
            except BaseException as e:  # noqa: BLE001 - SystemExit from argparse included
                if isinstance(e, KeyboardInterrupt):
                    raise
                return None, e, buf
    finally:
        os.chdir(cwd)
        sys.setrecursionlimit(reclimit)


class Runner:
    def __init__(self, vela, af):
        self.vela = vela
        self.af = af
        self.captured = None
        self.orig_process = vela.process
        self.orig_bundled = vela.CONFIG_FILES_PATH

        def fake_process(input_name, enable_debug_db, arch, *a, **k):
            self.captured = arch
            return None

        vela.process = fake_process

    def restore(self):
        self.vela.process = self.orig_process
        self.vela.CONFIG_FILES_PATH = self.orig_bundled

    def run_main(self, argv, cwd, bundled):
        self.captured = None
        self.vela.CONFIG_FILES_PATH = bundled

        def go():
            os.chdir(cwd)
            return self.vela.main(argv)

        rc, exc, buf = call_quiet(go)
        self.vela.CONFIG_FILES_PATH = self.orig_bundled
        if exc is not None:
            return classify_exc(exc)
        if rc == 0 and self.captured is not None:
            return canon_arch(self.captured)
        if rc == 1:
            lines = [ln for ln in buf.getvalue().split("\n") if ln.startswith("Error: ")]
            if lines:
                return classify_vela_msg(lines[-1])
        return "err:unexpected-rc-%r" % (rc,)

    def run_af(self, cls, files, acc, sysc, mem, cli, cwd):
        def go():
            os.chdir(cwd)
            return cls(files, acc, sysc, mem, 3, False, cli)

        a, exc, _ = call_quiet(go)
        if exc is not None:
            return classify_exc(exc)
        return canon_arch(a)

    def run_read(self, text, sec, key):
        cp = configparser.ConfigParser()
        cp.read_string(text)
        obj = self.af.ArchitectureFeatures.__new__(self.af.ArchitectureFeatures)
        obj.vela_config = cp
        r, exc, _ = call_quiet(lambda: obj._read_config(sec, key, None))
        if exc is not None:
            return classify_exc(exc)
        return "ok -" if r is None else "ok " + enc(r)


# passResolved, cliDefault, imxMode, accelerator default; the documented behaviour is (1, None, 0, <OPTIONS.md default>)
KEYS = {
    "raw": "main-passes-args.config-instead-of-resolved-config_files",
    "clidefault": "arena-cache-size-parser-default-overrides-file-and-documented-default",
    "imx-u55": "main-no-config-ethos-u55-gets-imx93-u65-system-config",
    "imx-u65": "main-no-config-ethos-u65-default-is-high-end-not-documented-client-server",
    "accdefault": "accelerator-config-parser-default-differs-from-documented-default",
}


def run_checks(ck, vela, af):
    rng = ck.rng
    world = World()
    runner = Runner(vela, af)
    try:
        _run_checks(ck, vela, af, rng, world, runner)
    finally:
        runner.restore()
        world.close()


def _run_checks(ck, vela, af, rng, world, runner):
    thorough = ck.thorough
    live_cli_default, live_acc_default, doc_acc_default = _live_cli_defaults()
    doc_variant = (1, None, 0, doc_acc_default)
    reqs = []          # model request lines
    reals = []         # implementation outcomes
    meta = []          # dict per request (kind, replay info, spec request)
    spec_reqs = []

    def add(kind, line, real, replay, spec_line=None, extra=None):
        reqs.append(line)
        reals.append(real)
        replay = dict(replay, root=world.root)
        m = {"kind": kind, "replay": replay, "spec": None}
        if extra:
            m.update(extra)
        if spec_line is not None:
            m["spec"] = len(spec_reqs)
            spec_reqs.append(spec_line)
        meta.append(m)

    # ---------------- glue: normpath / float / int -------------------------------------------
    paths = ["", ".", "..", "/", "//", "///", "a", "a/b.ini", "./a/b.ini", "a//b.ini", "a/./b.ini", "a/../b.ini", "../a.ini",
             "../../a/b.ini", "/a/b/../c.ini", "//a/b.ini", "///a/b.ini", "a/b/", "a/b/..", "/..", "/../a", "~/x.ini", "a/..",
             "./", "Arm/vela.ini", "./Arm/vela.ini", "Arm/./vela.ini", "x/../Arm/vela.ini", ".hidden/x.ini", "a/b/c.ini"]
    comps = ["a", "b.ini", ".", "..", "", "Dir", "~", ".h", "x y"]
    for _ in range(300 if not thorough else 3000):
        n = rng.randrange(1, 6)
        paths.append(("/" * rng.choice([0, 0, 1, 2, 3])) + "/".join(rng.choice(comps) for _ in range(n)))
    for p in paths:
        add("norm", "cfgnorm " + enc(p), "=" + os.path.normpath(p), {"normpath": p})
    numbers = sorted(set(CLOCKS + BAD_FLOATS + SCALES + INTS + BAD_INTS + BIG_INTS + SIZES + BAD_SIZES))
    for _ in range(400 if not thorough else 6000):
        ip = "".join(rng.choice("0123456789") for _ in range(rng.randrange(0, 12)))
        fp = "".join(rng.choice("0123456789") for _ in range(rng.randrange(0, 20)))
        ex = rng.choice(["", "", "e%d" % rng.randrange(-25, 25), "E+%d" % rng.randrange(0, 25), "e-%d" % rng.randrange(0, 25)])
        s = rng.choice(["", "", "-", "+"]) + ip + rng.choice(["", ".", "."]) + fp + ex
        if "." not in s and "e" not in s.lower():
            s = s + rng.choice(["", ".0"])
        numbers.append(s)
    for s in numbers:
        try:
            f = float(s)
            rf = dy(f) if (f == 0 or 1e-290 < abs(f) < 1e290) and not ("-" in s[:1] and f == 0) else None
        except ValueError:
            rf = "err:value"
        if rf is not None:
            add("float", "cfgfloat " + enc(s), rf, {"float": s})
        try:
            ri = str(int(s))
        except ValueError:
            ri = "err:value"
        add("int", "cfgint " + enc(s), ri, {"int": s})

    # ---------------- _read_config directly ----------------------------------------------------
    n_files = 150 if not thorough else 3000
    for fi in range(n_files):
        n = rng.choice([1, 2, 3, 4, 5, 6, 7])
        names = ["Part.N%d" % i for i in range(n)]
        keys = ["k0", "k1", "k2"]
        secs = {nm: [] for nm in names}
        shape = rng.choice(["chain", "chain", "random", "random", "cycle"])
        for i, nm in enumerate(names):
            if shape == "chain":
                if i + 1 < n:
                    secs[nm].append(("inherit", names[i + 1]))
            elif shape == "cycle":
                secs[nm].append(("inherit", names[(i + 1) % n]))
            else:
                r = rng.random()
                if r < 0.6:
                    secs[nm].append(("inherit", rng.choice(names + ["Part.Missing"])))
            for k in keys:
                if rng.random() < 0.35:
                    secs[nm].append((k, "v%d%s" % (i, k)))
        text = render(secs, names)
        ini = parse_text(text)
        for nm in names + ["Part.Missing"]:
            for k in keys[: 2 if n > 3 else 3]:
                real = runner.run_read(text, nm, k)
                toks = enc_ini(ini) + [enc(nm), enc(k)]
                add("read", "cfgread " + " ".join(toks), real, {"ini_text": text, "section": nm, "key": k},
                    spec_line="cfgspecread " + " ".join(toks) + " " + obs_tokens(real),
                    extra={"depth": n, "shape": shape})

    # ---------------- scenarios: files on disk, direct construction and main() ----------------
    cwds = [os.path.join(world.root, d) for d in ("w0", "w1", "w1/sub")] + [world.bundled]
    n_scen = 60 if not thorough else 1000
    per_scen_af = 25
    per_scen_main = 30
    for si in range(n_scen):
        world.reset()
        p_bad = rng.choice([0.0, 0.0, 0.15, 0.4])
        secs = gen_sections(rng, p_bad)
        if rng.random() < 0.5:
            secs.update(valid_pair_sections(rng))
        names = list(secs)
        rng.shuffle(names)
        # distribute over files; a second file may redefine some sections (later file wins per option)
        cut = rng.randrange(0, len(names) + 1)
        f_bundled = world.write("pkg/config_files/VendA/a.ini", render(secs, names[:cut] or names))
        secs2 = gen_sections(rng, p_bad)
        overlap = {n_: secs2[n_] for n_ in secs2 if rng.random() < 0.6}
        rest = {n_: secs[n_] for n_ in names[cut:]}
        rest.update({k: v for k, v in overlap.items() if k not in rest or rng.random() < 0.5})
        f_b2 = world.write("pkg/config_files/VendB/b.ini", render(rest, list(rest)) if rest else "[Memory_Mode.Z]\n")
        # same relative names under a working directory, different content (detects a lookup in the wrong place)
        other = gen_sections(rng, 0.0)
        other.update(valid_pair_sections(rng))
        f_shadow = world.write("w1/VendA/a.ini", render(other, list(other)))
        f_local = world.write("w1/local.ini", render(secs, names))
        f_deep = world.write("w1/sub/deep/x.ini", render(rest, list(rest)) if rest else "[System_Config.Z]\n")
        f_bad = world.write("w0/broken.ini", "core_clock=1\n[System_Config.S0]\n" if rng.random() < 0.5 else "[A]\nx=1\n[A]\ny=2\n")
        world.write("w1/notini.txt", render(secs, names))
        parsed = {p: parse_text(t) for p, t in world.files.items()}
        all_secs = set(names) | set(rest) | set(other)
        sys_names = sorted({s.split(".", 1)[1] for s in all_secs if s.startswith("System_Config.")}) + ["Nope"]
        mem_names = sorted({s.split(".", 1)[1] for s in all_secs if s.startswith("Memory_Mode.")}) + ["Nope"]
        dflt = af.ArchitectureFeatures.DEFAULT_CONFIG

        def pick_name(lst):
            r = rng.random()
            if r < 0.12:
                return dflt
            if "Child" in lst and r < 0.45:
                return "Child"
            return rng.choice(lst)

        def names_in(paths):
            """(system names, memory names) defined by the parsable files among `paths` (absolute)"""
            sn, mn = [], []
            for q in paths:
                for sec, _o in (parsed.get(q) or []):
                    if sec.startswith("System_Config."):
                        sn.append(sec.split(".", 1)[1])
                    elif sec.startswith("Memory_Mode."):
                        mn.append(sec.split(".", 1)[1])
            return sorted(set(sn)), sorted(set(mn))

        def documented_location(cwd, pth, bundled):
            c = os.path.normpath(pth)
            parts = c.split("/")
            if len(parts) == 2 and parts[0] not in ("", "..", "~") and not c.startswith("."):
                return os.path.normpath(os.path.join(bundled, c))
            return os.path.normpath(os.path.join(cwd, c))

        def pick_sel(defined, fallback):
            r = rng.random()
            if defined and r < 0.8:
                return "Child" if "Child" in defined and rng.random() < 0.4 else rng.choice(defined)
            return pick_name(fallback)

        def env_for(cwd, path_args, bundled):
            cand = set()
            for p in path_args:
                cand.add(os.path.normpath(os.path.join(cwd, p)))
                cand.add(os.path.normpath(os.path.join(cwd, os.path.join(bundled, os.path.normpath(p)))))
            files = {p: parsed[p] for p in cand if p in parsed}
            return enc_env(bundled, cwd, files), files

        # ---- direct construction -------------------------------------------------------------
        for _ in range(per_scen_af):
            cwd = rng.choice(cwds)
            r = rng.random()
            if r < 0.08:
                files = None
            else:
                pool = [f_bundled, f_b2, f_local, f_deep, f_shadow, os.path.relpath(f_local, cwd), os.path.relpath(f_bundled, cwd),
                        "VendA/a.ini", "missing.ini", f_bad if rng.random() < 0.3 else f_local]
                files = [rng.choice(pool) for _ in range(rng.choice([1, 1, 1, 2, 2, 3]))]
            acc = rng.choice(ACCS)
            if rng.random() < 0.05:
                acc = rng.choice([acc.upper(), "ethos-u99", ""])
            sn, mn = names_in([os.path.normpath(os.path.join(cwd, f)) for f in (files or [])])
            sysc, mem = pick_sel(sn, sys_names), pick_sel(mn, mem_names)
            if files is None and rng.random() < 0.7:
                sysc = mem = dflt
            cli = None if rng.random() < 0.55 else int(rng.choice(SIZES + ["-5", "100000"]))
            use_imx = rng.random() < 0.15
            cls = vela.Imx93ArchitectureFeatures if use_imx else af.ArchitectureFeatures
            real = runner.run_af(cls, files, acc, sysc, mem, cli, cwd)
            env_toks, env_files = env_for(cwd, files or [], world.bundled)
            ftoks = ["N"] if files is None else [str(len(files))] + [enc(f) for f in files]
            tail = [enc(acc), enc(sysc), enc(mem), opt_int(cli)]
            def line(mode, env_toks=env_toks, ftoks=ftoks, tail=tail):
                return "cfgaf " + " ".join(env_toks + ftoks + [str(mode)] + tail)

            replay = {"call": "Imx93ArchitectureFeatures" if use_imx else "ArchitectureFeatures", "files": files, "accelerator": acc,
                      "system_config": sysc, "memory_mode": mem, "arena_cache_size": cli, "cwd": os.path.relpath(cwd, world.root),
                      "tree": {os.path.relpath(p, world.root): world.files[p] for p in env_files}}
            spec = None if use_imx else "cfgspecaf " + " ".join(env_toks + ftoks + tail) + " " + obs_tokens(real)
            add("af", line(1 if use_imx else 0), real, replay, spec_line=spec,
                extra={"imx": use_imx, "alt": [line(2), line(0)] if use_imx else []})

        # ---- through vela.main ---------------------------------------------------------------
        for _ in range(per_scen_main):
            cwd = rng.choice(cwds)
            r = rng.random()
            if r < 0.12:
                cfgs = []
            else:
                pool = ["VendA/a.ini", "VendA/a.ini", "VendB/b.ini", "./VendA/a.ini", "VendA//a.ini", f_bundled, f_local, f_deep,
                        os.path.relpath(f_local, cwd), os.path.relpath(f_deep, cwd), "local.ini", "sub/deep/x.ini", "deep/x.ini",
                        "../local.ini", "VendA/missing.ini", "notini.txt", "VendC/a.ini", "~/a.ini", os.path.relpath(f_bad, cwd)]
                good = [q for q in pool if q.endswith(".ini") and parsed.get(documented_location(cwd, q, world.bundled)) is not None]
                cfgs = [rng.choice(good) if good and rng.random() < 0.85 else rng.choice(pool)
                        for _ in range(rng.choice([1, 1, 1, 1, 2, 2, 3]))]
            acc = None if rng.random() < 0.4 else rng.choice(ACCS + (["ethos-u99"] if rng.random() < 0.1 else []))
            sn, mn = names_in([documented_location(cwd, q, world.bundled) for q in cfgs])
            sysc = None if rng.random() < 0.15 else pick_sel(sn, sys_names)
            mem = None if rng.random() < 0.15 else pick_sel(mn, mem_names)
            if not cfgs and rng.random() < 0.8:
                sysc = rng.choice([None, dflt])
                mem = rng.choice([None, dflt])
            arena = None if rng.random() < 0.5 else rng.choice(SIZES + ["-5", "100000", "12x", "1.5"])
            argv = ["net.tflite"]
            for c in cfgs:
                argv += ["--config", c]
            if acc is not None:
                argv += ["--accelerator-config", acc]
            if sysc is not None:
                argv += ["--system-config", sysc]
            if mem is not None:
                argv += ["--memory-mode", mem]
            if arena is not None:
                argv += ["--arena-cache-size=" + arena]
            real = runner.run_main(argv, cwd, world.bundled)
            env_toks, env_files = env_for(cwd, cfgs, world.bundled)
            args_toks = [str(len(cfgs))] + [enc(c) for c in cfgs] + [opt(acc), opt(sysc), opt(mem), opt(arena)]
            body = " ".join(env_toks + args_toks)
            replay = {"call": "vela.main", "argv": argv, "cwd": os.path.relpath(cwd, world.root),
                      "bundled_config_dir": os.path.relpath(world.bundled, world.root),
                      "tree": {os.path.relpath(p, world.root): world.files[p] for p in env_files}}
            add("main", "cfgmain 1 - 0 %s " % enc(doc_acc_default) + body, real, replay,
                spec_line="cfgspecmain " + body + " " + obs_tokens(real),
                extra={"body": body, "acc": acc, "cwd_kind": os.path.relpath(cwd, world.root)})

    # ---- the real bundled directory and the documented command lines ----------------------------
    real_bundled = vela.CONFIG_FILES_PATH
    arm = os.path.join(real_bundled, "Arm", "vela.ini")
    arm_parsed = parse_text(open(arm).read())
    arm_sys = [s.split(".", 1)[1] for s, _ in arm_parsed if s.startswith("System_Config.")]
    arm_mem = [s.split(".", 1)[1] for s, _ in arm_parsed if s.startswith("Memory_Mode.")]
    for cwd in [world.root, os.path.join(world.root, "w1"), real_bundled, os.path.dirname(real_bundled)]:
        for sysc in arm_sys:
            for mem in arm_mem:
                for acc in ("ethos-u55-128", "ethos-u65-256"):
                    for arena in (None, "2097152"):
                        cfg = "Arm/vela.ini"
                        argv = ["net.tflite", "--accelerator-config", acc, "--config", cfg, "--system-config", sysc, "--memory-mode", mem]
                        if arena:
                            argv += ["--arena-cache-size", arena]
                        real = runner.run_main(argv, cwd, real_bundled)
                        files = {arm: arm_parsed}
                        body = " ".join(enc_env(real_bundled, cwd, files) + ["1", enc(cfg), opt(acc), opt(sysc), opt(mem), opt(arena)])
                        add("main", "cfgmain 1 - 0 %s " % enc(doc_acc_default) + body, real,
                            {"call": "vela.main", "argv": argv, "cwd": cwd, "bundled_config_dir": "(the repository's ethosu/config_files)"},
                            spec_line="cfgspecmain " + body + " " + obs_tokens(real),
                            extra={"body": body, "acc": acc, "cwd_kind": "real:" + os.path.basename(cwd)})

    # ---- exhaustive small scope: every port mapping -------------------------------------------
    world.reset()
    port_vals = AREAS + ODD_AREAS
    combos = 0
    for a0 in port_vals:
        for a1 in port_vals:
            text = ("[System_Config.P]\naxi0_port=%s\naxi1_port=%s\nSram_clock_scale=0.5\nSram_burst_length=16\nDram_read_latency=9\n"
                    "OnChipFlash_clock_scale=0.25\n" % (a0, a1))
            for c in PORTS:
                for a in PORTS:
                    for k in PORTS:
                        text += "[Memory_Mode.M%s%s%s]\nconst_mem_area=%s\narena_mem_area=%s\ncache_mem_area=%s\narena_cache_size=1000\n" % (
                            c[-1], a[-1], k[-1], c, a, k)
            p = world.write("w0/ports.ini", text)
            parsed_p = parse_text(text)
            for c in PORTS:
                for a in PORTS:
                    for k in PORTS:
                        mem = "M%s%s%s" % (c[-1], a[-1], k[-1])
                        for acc, cli in (("ethos-u65-256", None), ("ethos-u55-64", 77)):
                            real = runner.run_af(af.ArchitectureFeatures, [p], acc, "P", mem, cli, world.root)
                            env_toks = enc_env(world.bundled, world.root, {p: parsed_p})
                            tail = [enc(acc), enc("P"), enc(mem), opt_int(cli)]
                            add("af", "cfgaf " + " ".join(env_toks + ["1", enc(p), "0"] + tail), real,
                                {"call": "ArchitectureFeatures", "files": ["ports.ini"], "accelerator": acc, "system_config": "P",
                                 "memory_mode": mem, "arena_cache_size": cli, "tree": {"ports.ini": text}},
                                spec_line="cfgspecaf " + " ".join(env_toks + ["1", enc(p)] + tail) + " " + obs_tokens(real),
                                extra={"imx": False, "alt": [], "ports": True})
                            combos += 1
    ck.count("exhaustive_port_mappings", combos)

    # ---- malformed stream: a legal parent/child pair with exactly one damaged value -------------
    n_mal = 400 if not thorough else 8000
    for mi in range(n_mal):
        secs = valid_pair_sections(rng)
        sec = rng.choice(list(secs))
        cand = [j for j, (k, _v) in enumerate(secs[sec]) if k != "inherit"]
        if not cand:
            continue
        j = rng.choice(cand)
        k, _v = secs[sec][j]
        if k == "core_clock" or k.endswith("_clock_scale"):
            bad = rng.choice(BAD_FLOATS)
        elif k.endswith("_port"):
            bad = rng.choice(BAD_AREAS + ODD_AREAS)
        elif k.endswith("_mem_area"):
            bad = rng.choice(BAD_PORTS)
        elif k == "arena_cache_size":
            bad = rng.choice(BAD_SIZES + ["-1", "-393216", "1099511627777", "99999999999999999999999"])
        else:
            bad = rng.choice(BAD_INTS + BIG_INTS)
        secs[sec][j] = (k, bad)
        text = render(secs, list(secs))
        p = world.write("w0/mal.ini", text)
        parsed_p = parse_text(text)
        acc = rng.choice(ACCS)
        sysc, mem = rng.choice(["Child", "Base"]), rng.choice(["Child", "Base"])
        cli = None if rng.random() < 0.7 else int(rng.choice(SIZES))
        real = runner.run_af(af.ArchitectureFeatures, [p], acc, sysc, mem, cli, world.root)
        env_toks = enc_env(world.bundled, world.root, {p: parsed_p})
        tail = [enc(acc), enc(sysc), enc(mem), opt_int(cli)]
        add("af", "cfgaf " + " ".join(env_toks + ["1", enc(p), "0"] + tail), real,
            {"call": "ArchitectureFeatures", "files": ["mal.ini"], "accelerator": acc, "system_config": sysc,
             "memory_mode": mem, "arena_cache_size": cli, "tree": {"mal.ini": text}, "damaged": [sec, k, bad]},
            spec_line="cfgspecaf " + " ".join(env_toks + ["1", enc(p)] + tail) + " " + obs_tokens(real),
            extra={"imx": False, "alt": [], "malformed": True})

    # ================= evaluate =================================================================
    outs = ck.model(reqs)
    spec_outs = ck.model(spec_reqs)

    # second round: alternatives for the cases where the documented variant does not reproduce the code
    alt_reqs, alt_owner = [], []
    variants = []
    for pr in (1, 0):
        for cd in sorted({None, live_cli_default}, key=lambda x: (x is not None, x)):
            for im in (0, 1, 2):
                for ad in sorted({doc_acc_default, live_acc_default}):
                    if (pr, cd, im, ad) != doc_variant:
                        variants.append((pr, cd, im, ad))
    for i, (m, r) in enumerate(zip(outs, reals)):
        if m == r:
            continue
        if meta[i]["kind"] == "main":
            for v in variants:
                alt_reqs.append("cfgmain %d %s %d %s %s" % (v[0], opt_int(v[1]), v[2], enc(v[3]), meta[i]["body"]))
                alt_owner.append((i, v))
        elif meta[i]["kind"] == "af":
            for line in meta[i]["alt"]:
                alt_reqs.append(line)
                alt_owner.append((i, "imx2"))
    alt_outs = ck.model(alt_reqs)
    matched = {}
    for (i, v), o in zip(alt_owner, alt_outs):
        if o == reals[i]:
            matched.setdefault(i, []).append(v)

    def deviations(v, acc):
        acc = acc or v[3]
        d = []
        if v[0] == 0:
            d.append("raw")
        if v[1] is not None:
            d.append("clidefault")
        if v[2] == 1:
            d.append("imx-u65" if acc.startswith("ethos-u65") else "imx-u55")
        elif v[2] == 2:
            d.append("imx-u65")
        if v[3] != doc_acc_default:
            d.append("accdefault")
        return d

    per_kind = {}
    broken = []           # correspondences that no longer hold (indices)
    unexplained_spec = []
    seen_dev = {}
    n_spec_rej = 0
    for i, (m, r) in enumerate(zip(outs, reals)):
        mt = meta[i]
        ck.count("req_" + mt["kind"])
        if mt["kind"] in ("af", "main", "read"):
            ck.count("outcome_%s_%s" % (mt["kind"], r.split(" ")[0] if not r.startswith("ok") else "ok"))
        else:
            ck.count("glue")
        sv = spec_outs[mt["spec"]] if mt["spec"] is not None else None
        if sv is not None:
            ck.count("spec_" + ("accepts" if sv == "1" else "unspecified" if sv == "1u" else "REJECTS"))
        spec_rejects = sv is not None and sv.startswith("0")
        n_spec_rej += spec_rejects
        devs = []
        explained = m == r
        if not explained and i in matched:
            explained = True
            if mt["kind"] == "main":
                best = min(matched[i], key=lambda v: len(deviations(v, mt["acc"])))
                devs = deviations(best, mt["acc"])
        if spec_rejects:
            shown = mt["replay"].get("argv") or {k: mt["replay"][k] for k in ("call", "files", "accelerator", "system_config", "memory_mode",
                                                                              "arena_cache_size", "section", "key", "damaged")
                                                 if mt["replay"].get(k) is not None}
            if mt["kind"] == "read":
                shown = dict(shown, call="_read_config")
            what = ("documented rules (Lean Spec) reject the implementation's outcome for %s (cwd %s): got %s, spec says %s"
                    % (json.dumps(shown), mt["replay"].get("cwd", "-"), r[:200], sv[2:260]))
            rep = dict(mt["replay"], implementation=r, spec_verdict=sv, model_documented_variant=m)
            if devs:
                for d in devs:
                    seen_dev.setdefault(d, 0)
                    seen_dev[d] += 1
                    if seen_dev[d] == 1:
                        ck.sample({"finding": KEYS[d], "input": mt["replay"].get("argv"), "cwd": mt["replay"].get("cwd"),
                                   "implementation": r[:160], "spec": sv[:200]}, limit=12)
                    ck.violation(what + " [explained by: %s]" % KEYS[d], rep, found_input=True, key=KEYS[d])
            else:
                unexplained_spec.append(i)
                per_kind[mt["kind"]] = per_kind.get(mt["kind"], 0) + 1
                if per_kind[mt["kind"]] <= 4:
                    ck.violation(what, rep, found_input=True)
        elif not explained:
            broken.append(i)
    if broken and not unexplained_spec:
        i = min(broken, key=lambda j: len(reqs[j]))
        ck.violation("correspondence %s (Model/Config.lean vs the code) broken on %d inputs; the documented rules accept the outcomes"
                     % (meta[i]["kind"], len(broken)),
                     {"correspondence": meta[i]["kind"], "request": reqs[i][:3000], "model": outs[i], "implementation": reals[i],
                      "input": meta[i]["replay"]}, found_input=False)
    elif broken:
        ck.notes.append("model/code disagreements: %d (failing inputs found by the Spec: %d)" % (len(broken), len(unexplained_spec)))
    for d, n in seen_dev.items():
        ck.count("deviation_" + d, n)

    # coverage figures
    distinct = set()
    for i, mt in enumerate(meta):
        if mt["kind"] in ("af", "main", "read"):
            distinct.add((mt["kind"], reqs[i]))
    nontrivial = len([1 for (k, rq) in distinct if True])
    depth_hist = {}
    for mt in meta:
        if mt["kind"] == "read":
            depth_hist[mt["depth"]] = depth_hist.get(mt["depth"], 0) + 1
    err_kinds = sorted({r for r in reals if r.startswith("err")})
    model_err_kinds = {"err:attr", "err:cli-config", "err:cli-system-config", "err:cli-memory-mode", "err:cfg-section", "err:cfg-inherit",
                       "err:recursion", "err:key", "err:value", "err:index", "err:overflow", "err:cfg-const_mem_area", "err:cfg-arena_mem_area",
                       "err:cfg-cache_mem_area", "err:cfg-arena_cache_size-neg", "err:cfg-arena_cache_size-big", "err:input-file",
                       "err:ini-parse", "err:argparse"}
    for j in (0, len(reqs) // 2, len(reqs) - 1):
        ck.sample({"request": reqs[j][:300], "model": outs[j][:200], "implementation": reals[j][:200]}, limit=12)
    ck.finish({
        "evaluations": len(reqs) + len(spec_reqs) + len(alt_reqs),
        "distinct_nontrivial": nontrivial,
        "rule": "case = one call of _read_config / ArchitectureFeatures(...) / vela.main(argv) on generated files; distinct by the full "
                "request line (file contents, paths, working directory, selections, CLI size); every such case resolves at least one "
                "section lookup or default and is therefore non-trivial; glue cases (normpath/float/int) are not counted",
        "disagreements_with_documented_variant": sum(1 for m, r in zip(outs, reals) if m != r),
        "disagreements_unexplained": len(broken),
        "spec_checked_outcomes": len(spec_reqs),
        "spec_rejections": n_spec_rej,
        "read_cases_by_section_count": depth_hist,
        "error_kinds_hit": err_kinds,
        "unreached_branches": sorted(model_err_kinds - set(err_kinds)),
        "live_cli_arena_cache_size_default": live_cli_default,
        "live_cli_accelerator_default": live_acc_default,
        "documented_accelerator_default": doc_acc_default,
        "exhaustive": "all 7x7 AXI port values x 2x2x2 area-to-port mappings (x 2 accelerators); the rest is sampled",
    }, assumptions=[
        "ConfigParser (parsing of the .ini text, option-name lower-casing, merge of several files) is trusted glue: model and spec take its parsed view",
        "no [DEFAULT] section and no '%' interpolation in configuration files; no section named internal-default in a file",
        "numbers use the plain decimal grammar (no underscores, inf/nan, whitespace); doubles in the normal range",
        "inheritance chains are shorter than Python's recursion limit",
        "paths contain no symbolic links; '..' only through existing directories",
    ])


def _live_cli_defaults():
    sys.path.insert(0, common.HERE)
    from tables.config import doc_default_names, grab_parser

    p = grab_parser()
    doc = doc_default_names(common.REPO, [])["accelerator"]
    if doc is None:
        raise InfraError("OPTIONS.md: no documented default for --accelerator-config found")
    return p.get_default("arena_cache_size"), p.get_default("accelerator_config"), doc


def replay(ck):
    """re-run one recorded input against the code and the documented rules"""
    rec = json.load(open(ck.replay_arg))
    rp = rec["replay"]
    now = None
    same = False
    if not isinstance(rp, dict) or not (rp.get("call") or "ini_text" in rp):
        print("this replay file names a broken proof obligation / correspondence, not a single input:")
        print(json.dumps(rp, indent=1)[:3000])
        sys.exit(1)
    vela, af = import_vela()
    world = World()
    runner = Runner(vela, af)
    try:
        for rel, text in (rp.get("tree") or {}).items():
            world.write(rel, text)
        if rp.get("call") == "vela.main":
            cwd = rp["cwd"] if os.path.isabs(rp["cwd"]) else os.path.join(world.root, rp["cwd"])
            b = rp.get("bundled_config_dir", "")
            bundled = vela.CONFIG_FILES_PATH if b.startswith("(") else os.path.join(world.root, b)
            os.makedirs(cwd, exist_ok=True)
            argv = [a.replace(rp.get("root", "\0"), world.root) for a in rp["argv"]]
            print("argv:", argv, "cwd:", cwd)
            now = runner.run_main(argv, cwd, bundled)
            print("implementation:", now)
        elif rp.get("call", "").endswith("ArchitectureFeatures"):
            cls = vela.Imx93ArchitectureFeatures if rp["call"].startswith("Imx93") else af.ArchitectureFeatures
            cwd = os.path.join(world.root, rp.get("cwd", "."))
            os.makedirs(cwd, exist_ok=True)
            files = rp["files"]
            if files is not None:
                files = [f.replace(rp.get("root", "\0"), world.root) for f in files]
                files = [os.path.join(world.root, f) if f in (rp.get("tree") or {}) else f for f in files]
            now = runner.run_af(cls, files, rp["accelerator"], rp["system_config"], rp["memory_mode"], rp["arena_cache_size"], cwd)
            print("implementation:", now)
        elif "ini_text" in rp:
            now = runner.run_read(rp["ini_text"], rp["section"], rp["key"])
            print("implementation:", now)
        print("recorded implementation outcome:", rp.get("implementation"))
        print("recorded verdict of the documented rules:", rp.get("spec_verdict"))
        same = now is not None and now == rp.get("implementation")
        print("reproduced: the implementation still gives the rejected outcome" if same else
              "not reproduced: the implementation's outcome differs from the recorded one")
    finally:
        runner.restore()
        world.close()
    sys.exit(1 if same else 0)


main_wrapper(main)
