"""Networks for the in-place decision chain (profile `inplace` of ./check C12, design.d/InPlace.md).

One network = one *source* tensor at a CPU/NPU boundary with 1-3 consumers; the job index enumerates the shapes:

  source      graph input | result of a CPU operator (third-party CUSTOM) | result of an NPU operator | variable tensor
  consumers   1, 2 or 3 drawn (by index) from
                ew    an elementwise operator that could work in place (unary ABS / LEAKY_RELU / RELU, binary with a constant,
                      binary with a second network input on either operand position)
                ewr   the same behind a RESHAPE of the source (a RESHAPE of a CPU-produced tensor stays as a Memcpy)
                ewb   a binary elementwise operator that broadcasts the source (OFM shape differs from the IFM shape)
                pool  an NPU operator that cannot work in place (MAX_POOL 1x1 / AVERAGE_POOL)
                cpu   a CPU operator
                npu2  an operator of a later NPU subgraph (behind a CPU operator that reads the first result)
                out   the list of network outputs
  order       the in-place candidate first / last among the consumers
  data type   int8 | uint8 | int16, rank 4 / 3 / 2

Replays from (seed, index, "inplace")."""
import netgen

CONSUMERS = ["ew", "ewr", "ewb", "pool", "cpu", "npu2", "out"]
SOURCES = ["input", "cpu", "npu", "input", "cpu", "var"]


def _sets():
    """consumer multisets, the in-place candidate always present: singles, pairs, selected triples"""
    cands = ["ew", "ewr", "ewb"]
    others = ["pool", "cpu", "npu2", "out", "ew"]
    out = [[c] for c in cands]
    for c in cands:
        for o in others:
            out.append([c, o])
    for c in ("ew", "ewr"):
        for o1, o2 in (("cpu", "out"), ("pool", "cpu"), ("npu2", "out"), ("pool", "pool"), ("cpu", "cpu"), ("ew", "out")):
            out.append([c, o1, o2])
    return out


SETS = _sets()


def n_variants():
    return len(SETS) * len(SOURCES)


def build(rng, idx):
    v = idx % n_variants()
    cons = list(SETS[v % len(SETS)])
    source = SOURCES[(v // len(SETS)) % len(SOURCES)]
    cand_last = (idx // n_variants()) % 2 == 1 or rng.random() < 0.3
    dtype = rng.choice(["int8", "int8", "uint8", "int16"])
    rank = rng.choice([4, 4, 4, 3, 2])
    c = rng.choice([4, 8, 16])
    shape = {4: [1, rng.randint(2, 9), rng.randint(2, 9), c], 3: [rng.randint(2, 9), rng.randint(2, 9), c],
             2: [rng.randint(2, 12), c]}[rank]
    if "pool" in cons:
        rank, shape = 4, [1, rng.randint(2, 9), rng.randint(2, 9), c]
    if "ewb" in cons:
        rank, shape = 4, [1, 1, rng.randint(2, 9), c]
    b = netgen.B(rng, f"inplace{idx}", dtype)
    b.net.desc.append(f"inplace source={source} consumers={cons} cand_last={int(cand_last)} dtype={dtype} shape={shape}")
    x = b.input(shape)
    outs = []
    if source == "input":
        src = x
    elif source == "cpu":
        src = b.cpu_op(x, "custom")
    elif source == "npu":
        src = b.unary(rng.choice(["ABS", "LEAKY_RELU"]), x) if rank != 4 or rng.random() < 0.5 else \
            b.pool(x, "MAX_POOL_2D", (1, 1), (1, 1), "VALID")
    else:
        xt = b.t(x)
        src = b.net.add(netgen.T(b.fresh("var"), shape, dtype, [xt.scales[0]], [xt.zps[0]], variable=True))
        outs.append(b.binary("ADD", x, x))          # the network input needs a reader
    if cand_last:
        cons = cons[1:] + cons[:1]
    first_result = None
    for kind in cons:
        r = None
        if kind in ("ew", "ewr"):
            s = src
            if kind == "ewr":
                n = 1
                for d in shape:
                    n *= d
                new = [1, n // c, c] if rank != 3 else [1, 1, n // c, c]
                s = b.reshape(src, new)
            st = b.t(s)
            how = rng.choice(["unary", "unary", "const", "input_l", "input_r"])
            if how == "unary":
                r = b.unary(rng.choice(["ABS", "LEAKY_RELU", "RELU", "ABS"]), s)
            elif how == "const":
                k = b.const(st.shape[-1:], st.dtype, [rng.randint(1, 9)] * st.shape[-1], [st.scales[0]], [st.zps[0]])
                r = b.binary(rng.choice(["ADD", "MUL", "SUB", "MAXIMUM"]), s, k)
            else:
                y = b.input(list(st.shape), st.dtype)
                r = b.binary(rng.choice(["ADD", "MUL", "SUB"]), *((s, y) if how == "input_l" else (y, s)))
        elif kind == "ewb":
            # the source (unit height) is the broadcast operand: the OFM has the shape of the other operand
            st = b.t(src)
            other = b.input([1, rng.randint(2, 6)] + list(st.shape[2:]), st.dtype)
            r = b.binary(rng.choice(["ADD", "MUL"]), *((src, other) if rng.random() < 0.5 else (other, src)))
        elif kind == "pool":
            r = b.pool(src, rng.choice(["MAX_POOL_2D", "AVERAGE_POOL_2D"]), (1, 1), (1, 1), "VALID")
        elif kind == "cpu":
            r = b.cpu_op(src, "custom")
        elif kind == "npu2":
            base = first_result if first_result is not None else b.unary("ABS", x)
            mid = b.cpu_op(base, "custom")
            if b.t(mid).shape == b.t(src).shape:
                r = b.binary(rng.choice(["ADD", "MUL", "SUB"]), mid, src)
            else:
                outs.append(mid)
                r = b.unary("ABS", src)
        elif kind == "out":
            outs.append(src)
        if r is not None:
            outs.append(r)
            if first_result is None:
                first_result = r
    # every result that nothing reads is an output; keep the order of creation
    used = {i for op in b.net.ops for i in op.inputs}
    final = []
    for o in outs:
        if (o not in used or o == src and "out" in cons) and o not in final:
            final.append(o)
    if not final:
        final = [outs[-1]]
    return b.finish(final)
