#!/venv/bin/python
"""Live-range stage of C12 on its own (development aid; `./check C12` runs the same stage on C12's corpus).
Evidence and replays are written under the id C12-liverange so that evidence/C12.json is left alone."""
import common
import liverange_lib
import pipe_common
import pipeline
from common import Check, main_wrapper

PROFILES = ["cpu", "mixed", "pattern", "cascade", "weights", "pattern", "cpu", "lut", "pattern", "elementwise", "cascade_chain"]


def main():
    ck = Check("C12", "translation_validation")
    ck.pid = "C12-liverange"
    ck.lean_stage(["VelaVerif.Props.C12LiveRange"])
    pipeline.load_vela()
    liverange_lib.install()
    n = 3000 if ck.thorough else 320
    outs = pipe_common.run_corpus(ck, n, profiles=PROFILES, want={"extra": liverange_lib.extra}, corpus_first=False)
    for o in outs:
        if "harness_exception" in o:
            raise common.InfraError("pipeline worker failed:\n" + o["harness_exception"])
        ck.count("status_" + o["status"])
    st = liverange_lib.stage(ck, outs)
    ck.finish(dict(st, evaluations=st["liverange_instances"], distinct_nontrivial=st["liverange_distinct_nontrivial"],
                   programs=st["liverange_spec_networks"],
                   rule="instance = one call of extract_live_ranges_from_schedule / _from_cascaded_passes on a fresh graph; "
                        "distinct by abstract schedule, non-trivial when it yields >= 3 ranges"))


main_wrapper(main)
