"""Common body of the pipeline checks that judge decoded command streams (C02, C03).

The verdict is always the Lean Spec checker's (`streamcheck` in Handlers/Stream.lean):
  decode=… | ops=… stops=… | bounds=<n> msgs (C02) | tagged=<n> msgs (C03)
"""
import re

import common
import pipe_common

LUT_RE = re.compile(r"op (\d+) LUT: byte (\d+) of region (\d+): expected tensor 0 delta (-?\d+), found")
STALE_RE = re.compile(r"op (\d+) (IFM2?): byte (\d+) of region (\d+): expected tensor (\d+) delta (-?\d+), found (?:tensor (\d+) delta (-?\d+)|undefined)")


def classify_tagged(msg, metas):
    """Known-finding key for a C03 rejection, or None.
    DESIGN.md section 8 #7 / design.d/C10.md: in a cascade, a consumer whose IFM box over-reads by more than
    1 + the round-up slack of the rolling buffer (exact inequality of Props/C10 `rolling_sufficient_of_slack`:
    stride + skirt_top + skirt_bottom - k_dil > 1 + (B - p - c), with B = round_up(p + c, c)) makes the producer run
    one stripe further than the buffer was sized for, so the consumer finds a *later* row of the same tensor in the
    slot (same tensor id, different delta).  The earlier condition `pad_top > k_dil - stride` was neither necessary
    nor sufficient."""
    import c10_lib

    ml = LUT_RE.search(msg)
    if ml and int(ml.group(1)) < len(metas):
        # lut.optimize_high_level_cmd_stream programs (address - window start) / 256 as table index when it places a table,
        # but lut.get_lut_index(...) = offset / table size when an equal table is found present again: for the 1 KiB
        # exponent table of an 8-bit SOFTMAX in the upper half of the window that is index 1 instead of 4, and the
        # second SOFTMAX looks up in whatever lies 256 bytes into the window
        meta = metas[int(ml.group(1))]
        if meta.get("lut_bytes", 256) > 256 and meta.get("lut_offset", 0) > 0 and \
                meta.get("lut_index") == meta["lut_offset"] // meta["lut_bytes"] != meta["lut_offset"] // 256:
            return "lut-index-of-reused-wide-table-divided-by-table-size"
    m = STALE_RE.search(msg)
    if not m:
        return None
    idx = int(m.group(1))
    if idx >= len(metas):
        return None
    meta = metas[idx]
    same_tensor = m.group(5) == m.group(7)
    if same_tensor and c10_lib.rolling_defect(idx, metas):
        return "cascade-rolling-buffer-stale-row:pad_top>kdil-stride"
    # the hardware reads more columns than Vela's own IFM box holds (kernel wider than the box, no right padding
    # programmed): the extra columns come from an unprogrammed tile. Seen for the stride>3 convolution lowering and for
    # the softmax lowering after a fused slice; whether the values matter numerically is C01's subject.
    if m.group(2) == "IFM" and meta.get("hw_ifm_w") is not None:
        wide = meta["hw_ifm_w"] > meta.get("box_ifm_w", 1 << 30) and meta.get("ifm_width0") == meta.get("box_ifm_w")
        tall = meta.get("hw_ifm_h", 0) > meta.get("box_ifm_h", 1 << 30) and meta.get("ifm_height0") == meta.get("box_ifm_h")
        if wide or tall:
            return "ifm-box-smaller-than-hardware-read-extent"
    return None


_OPEN_KEYS = None


def classify_source(o, msg):
    """Known-finding key for a C03 rejection that is explained by a construct of the source network (tags of
    netgen_ext.source_tags) together with the shape of the rejection, or None.
    * npu-box-batch>1: an accelerated operation whose 4-D box has batch > 1. PACK of rank-3 operands whose first dimension
      is > 1 along an inner axis gives a rank-4 result with batch > 1 (constraint_batch_size looks at the operands only);
      SPLIT / SPLIT_V / UNPACK / STRIDED_SLICE / SLICE are exempt from the batch-size constraint, so a rank-4 operand with
      batch > 1 cut along an inner axis is read in boxes with batch > 1. The NPU operations program height / width / depth
      of batch 0 only, so the rest of the result is never written: a later reader finds undefined or older bytes.
    * STRIDED_SLICE with new_axis_mask: TFLite indexes begin/end/strides by *specification* position (the entry at a new-axis
      position is ignored); tflite_model_semantic._get_slice_offsets indexes them by *input* dimension, so with a new axis
      that is not the last entry the slice read by the consumer is a different one."""
    tags = o.get("src_tags") or []
    cands = []
    # round 5 (rank sweep; repairs pending, keys open while the patch still applies forward - harness/pending.py)
    window = re.search(r"IFM2?: bytes? |touches byte|expected tensor", msg)
    if "unpack-negative-axis" in tags and window:
        cands.append("unpack-negative-axis-read-window-misplaced")
    if "slice-size-minus-one" in tags and window:
        cands.append("slice-size-minus-one-read-window-misplaced")
    if "fc-keep-num-dims-rank4-batch>1" in tags and re.search(r"expected tensor", msg):
        cands.append("fc-keep-num-dims-rank4-result-rows-not-written")
    if "npu-box-batch>1" in tags and re.search(r"(step \d+ CPU \S+|op \d+ IFM2?): byte \d+ of region \d+: expected tensor", msg):
        cands.append("accelerated-box-with-batch>1-only-batch-0-processed")
    if "strided-slice-new-axis-not-trailing" in tags and re.search(r"op \d+ IFM: byte", msg):
        cands.append("strided-slice-new-axis-mask-begin-end-indexed-by-input-dimension")
    # a construct whose defect has been repaired must not claim a rejection that belongs to another, still open, finding of
    # the same network (SLICE with size -1 AND a batch > 1 box: the first is repaired, the second is open)
    global _OPEN_KEYS
    if _OPEN_KEYS is None:
        _OPEN_KEYS = {k["key"] for k in common.load_known_findings()}
        try:
            import pending
            for prop in ("C02", "C03", "C12"):
                _OPEN_KEYS |= set(pending.pending_keys(prop))
        except Exception:
            pass
    for k in cands:
        if k in _OPEN_KEYS:
            return k
    return cands[0] if cands else None


def parse_answer(ans):
    parts = [p.strip() for p in ans.split(" | ")]
    d = {"decode": parts[0][len("decode="):] if parts[0].startswith("decode=") else parts[0], "raw": ans}
    for p in parts[1:]:
        if p.startswith("bounds="):
            n, _, rest = p[len("bounds="):].partition(" ")
            d["bounds"] = int(n)
            d["bounds_msgs"] = [x for x in rest.split(" ~ ") if x]
        elif p.startswith("tagged="):
            n, _, rest = p[len("tagged="):].partition(" ")
            d["tagged"] = int(n)
            d["tagged_msgs"] = [x for x in rest.split(" ~ ") if x]
        elif p.startswith("ops="):
            for kv in p.split():
                k, _, v = kv.partition("=")
                d[k] = int(v)
        elif p.startswith("infos-mismatch"):
            d["infos_mismatch"] = p
    return d


# second generation (harness/regen.py): the network is compiled, its OUTPUT is compiled again (and perhaps a third time); the
# stream judged is the one the FINAL file carries for each Ethos-U operator of the first compilation, against the extents the final
# file publishes - a stream that is passed through unchanged keeps its verdict, a file whose scratch tensors shrink does not
GEN2_PROFILES = ["gen2:mixed", "gen2:cascade"]


def run(ck, pid, n_quick, n_thorough, profiles, want=("stream",)):
    n = n_thorough if ck.thorough else n_quick
    outs = pipe_common.run_corpus(ck, n, profiles=profiles, want=want, sweep=True)      # pattern sweep first (harness/sweep.py)
    if not ck.replay_arg:
        # in addition (the first-generation population above is unchanged): one seventh as many second-generation compilations
        outs += pipe_common.run_corpus(ck, max(2, n // 7), profiles=GEN2_PROFILES, want=want, corpus_first=False)
    for o in outs:
        if o.get("gen_count", 1) > 1:
            ck.count("second_generation_compilations")
            ck.count("second_generation_streams_rejudged", len(o.get("stream_lines", [])))
            ck.count("second_generation_streams_lost", o.get("gen1_streams_lost", 0))
    lines, owners = [], []
    for o in outs:
        ck.count("status_" + str(o.get("status", "harness-exception")))
        if str(o.get("profile", "")).startswith("sweep:"):
            ck.count("sweep_" + o["profile"].split(":", 1)[1])
        if "harness_exception" in o:
            raise common.InfraError("pipeline worker failed:\n" + o["harness_exception"])
        if o.get("harness_errors"):
            raise common.InfraError("stream_line failed:\n" + o["harness_errors"][0])
        for si, ln in enumerate(o.get("stream_lines", [])):
            lines.append(ln)
            owners.append((o, si))
    answers = ck.model(lines) if lines else []
    return outs, lines, owners, [parse_answer(a) for a in answers]


def replay_obj(o, si, ans, line):
    return {"profile": o["profile"], "seed": o["seed"], "index": o["idx"], "opts": o.get("opts"),
            "network": o.get("desc"), "stream": si, "spec_verdict": ans["raw"][:1500],
            "how_to_replay": "harness/pipe_common._worker((seed, index, profile, {'stream': True})) regenerates the network "
                             "and the compilation; the streamcheck line is the Lean request",
            "streamcheck_request_head": line[:600]}
