"""Shared-filter families, part 2 (the axes `netgen.SHARED_AXES_EXT` of `netgen.shared_consts_net`).

One filter tensor OF THE FILE (and, where the shapes allow it, one bias tensor) is used by 2-4 operators that differ in exactly
the parameter ONE weight re-laying rewrite of tflite_graph_optimiser.py reads.  The TFLite reader hands every operator its own
clone of the shared constant (the clones keep the value_id), the rewrites change some clones in place, and the weight
compressor memoises on (value_id, block type, block depth, depth slices, dilation, IFM bits, flip): whenever a rewrite makes
the VALUES of two clones differ it has to make their value_ids differ as well, and whatever it derives a new id from must
determine the new values.

    axis                       rewrite                        what the users of the filter differ in (what the rewrite reads)
    padding                    replace_pad_by_hw_pad,         SAME / VALID / explicit PAD operator + VALID (one common stride; the
                               fixup_strided_conv (op 0)      first operator of the file is folded when stride > 1 and IFM depth small)
    stride_ge4_same_vs_valid   fixup_strided_conv             padding (SAME with pad_left > 0 / VALID / PAD + VALID): zero columns that
                                                              are inserted left and right of the kernel; same stride_w >= 4, IFM width
                                                              a multiple of the stride, same OFM depth
    stride_ge4_ifm_width       fixup_strided_conv             IFM width -> (resize factor, final stride) of calc_resize_factor
                                                              (all SAME, all VALID, or all behind a PAD with small pads)
    kernel_larger_than_ifm     calc_padding_and_skirt,        IFM height / width below vs above the kernel size, SAME padding
                               fixup_strided_conv             (convolution, depthwise convolution, stride_w >= 4 with IFM width = stride)
    dilation_hw                fixup_dilation_gt2             (dilation_h, dilation_w), unequal and up to 8: software dilation factor x
                                                              hardware dilation (3 and 6 give the same sparse kernel)
    groups                     convert_conv_groups            groups = IFM depth / filter depth (1, 2, 3, 4)
    dw_mult                    convert_depthwise_to_conv /    depth multiplier: IFM depth c x 1 (depthwise, weights transposed) vs
                               reorder_depthwise_weights      IFM depth 1 x c (becomes a convolution)
    dw_params                  reorder_depthwise_weights +    stride / dilation / padding of DEPTHWISE_CONV_2D operators on one
                               fixup_dilation_gt2 / hw pad    [1, kh, kw, c] filter
    dw_vs_conv                 reader transposes, reorder     one [1, kh, kw, c] filter as CONV_2D (one output channel), DEPTHWISE_CONV_2D
                                                              (c channels) and DEPTHWISE_CONV_2D with depth multiplier c
    fc_ifm_shape               rewrite_fully_connected_input, IFM shape of FULLY_CONNECTED: [1, ic] / [N, ic] (batched: weights become
                               convert_batched_fc_shape       1x1 HWIO) / rank 3 / [1, 2 ic]
    conv1x1_fc                 convert_conv_to_fc             IFM height x width 1x1 (becomes FullyConnected, weights squeezed) vs larger
    tconv_params               fixup_conv2d_backprop, flip    TRANSPOSE_CONV stride 1 / 2, SAME / VALID (+ a CONV_2D on the same filter)

Everything random comes from the `random.Random` passed in; `idx` rotates which user is operator 0 of the file."""
import numpy as np

import netgen
from netgen import Op, rand_scale

AXES = ["padding", "stride_ge4_same_vs_valid", "stride_ge4_ifm_width", "kernel_larger_than_ifm", "dilation_hw", "groups",
        "dw_mult", "dw_params", "dw_vs_conv", "fc_ifm_shape", "conv1x1_fc", "tconv_params"]


class _Fam:
    def __init__(self, rng, b, dtype, small, per_channel):
        self.rng, self.b, self.dtype, self.small = rng, b, dtype, small
        self.wd = "int8" if dtype in ("int8", "int16") else "uint8"
        self.bdt = "int64" if dtype == "int16" else "int32"
        self.pc = (rng.random() < 0.5 if per_channel is None else per_channel) and self.wd == "int8"
        self.in_scale = rand_scale(rng)
        self.out_scale = rand_scale(rng)
        self.users, self.outs = [], []

    def pick(self, big, small):
        return self.rng.choice(small if self.small else big)

    def input(self, shape):
        return self.b.input(list(shape), scale=self.in_scale, zp=0 if self.dtype == "int16" else None)

    def fm(self, shape):
        return self.b.fm(list(shape), self.dtype, scale=self.out_scale, zp=0 if self.dtype == "int16" else None)

    def filt(self, shape, nq, qdim, per_channel=None):
        """filter of `shape` with `nq` channels along `qdim`; per-channel scales only for int8 weights"""
        rng, b = self.rng, self.b
        pc = self.pc if per_channel is None else (per_channel and self.wd == "int8")
        ws = [rand_scale(rng, -8, -3) for _ in range(nq if pc else 1)]
        wz = [0] * len(ws) if self.wd == "int8" else [rng.randint(100, 150)]
        wt = b.const(shape, self.wd, b.rand_weights(shape, self.wd, rng.choice(["uniform", "uniform", "small", "sparse"])), ws, wz,
                     qdim, b.fresh("w"))
        return wt

    def bias(self, wt, n):
        ws = self.b.t(wt).scales
        br = np.random.RandomState(self.rng.getrandbits(32))
        sc = [self.in_scale * s for s in (ws if len(ws) == n else [ws[0]])]
        return self.b.const([n], self.bdt, br.randint(-2000, 2000, n), sc, [0] * len(sc), 0, self.b.fresh("b"))

    def _prep(self, x, k, stride, dil, padding, pads):
        b = self.b
        if padding == "PAD":
            x = b.pad(x, [[0, 0], list(pads[0]), list(pads[1]), [0, 0]])
        xt = b.t(x)
        oh, ow = b._out_hw(xt.shape[1], xt.shape[2], k[0], k[1], stride[0], stride[1], dil[0], dil[1], "SAME" if padding == "SAME" else "VALID")
        return x, xt, oh, ow

    def conv(self, x, wt, bt, stride=(1, 1), dil=(1, 1), padding="SAME", pads=None):
        b = self.b
        oc, kh, kw, _ = b.t(wt).shape
        x, xt, oh, ow = self._prep(x, (kh, kw), stride, dil, padding, pads)
        if oh < 1 or ow < 1:
            return None
        y = self.fm([1, oh, ow, oc])
        b.net.ops.append(Op("CONV_2D", [x, wt, bt], [y], ("Conv2DOptions", dict(
            Padding=0 if padding == "SAME" else 1, StrideW=stride[1], StrideH=stride[0], DilationWFactor=dil[1], DilationHFactor=dil[0],
            FusedActivationFunction=0))))
        self.users.append(f"conv({padding}{list(pads) if pads else ''},s={stride},d={dil},in={xt.shape})")
        self.outs.append(y)
        return y

    def dw(self, x, wt, bt, stride=(1, 1), dil=(1, 1), padding="SAME", pads=None, mult=1):
        b = self.b
        _, kh, kw, oc = b.t(wt).shape
        x, xt, oh, ow = self._prep(x, (kh, kw), stride, dil, padding, pads)
        if oh < 1 or ow < 1:
            return None
        y = self.fm([1, oh, ow, oc])
        b.net.ops.append(Op("DEPTHWISE_CONV_2D", [x, wt, bt], [y], ("DepthwiseConv2DOptions", dict(
            Padding=0 if padding == "SAME" else 1, StrideW=stride[1], StrideH=stride[0], DepthMultiplier=mult,
            DilationWFactor=dil[1], DilationHFactor=dil[0], FusedActivationFunction=0))))
        self.users.append(f"dw({padding}{list(pads) if pads else ''},s={stride},d={dil},mult={mult},in={xt.shape})")
        self.outs.append(y)
        return y

    def tconv(self, x, wt, bt, stride=(2, 2), padding="SAME"):
        b = self.b
        oc, kh, kw, _ = b.t(wt).shape
        xt = b.t(x)
        h, w = xt.shape[1], xt.shape[2]
        if padding == "SAME":
            oh, ow = h * stride[0], w * stride[1]
        else:
            oh, ow = (h - 1) * stride[0] + kh, (w - 1) * stride[1] + kw
        os_ = b.const([4], "int32", [1, oh, ow, oc], name=b.fresh("oshape"))
        y = self.fm([1, oh, ow, oc])
        b.net.ops.append(Op("TRANSPOSE_CONV", [os_, wt, x, bt], [y], ("TransposeConvOptions", dict(
            Padding=0 if padding == "SAME" else 1, StrideW=stride[1], StrideH=stride[0]))))
        self.users.append(f"tconv({padding},s={stride},in={xt.shape})")
        self.outs.append(y)
        return y

    def fc(self, x, wt, bt):
        b = self.b
        oc, ic = b.t(wt).shape
        xt = b.t(x)
        n = int(np.prod(xt.shape)) // ic
        y = self.fm([n, oc])
        b.net.ops.append(Op("FULLY_CONNECTED", [x, wt, bt], [y], ("FullyConnectedOptions", dict(FusedActivationFunction=0))))
        self.users.append(f"fc(in={xt.shape})")
        self.outs.append(y)
        return y


def _rot(seq, idx):
    seq = list(seq)
    k = idx % len(seq)
    return seq[k:] + seq[:k]


def _n(f, n_ops, lo=2, hi=4):
    return max(lo, min(hi, n_ops or f.rng.choice([2, 2, 3, 3, 4])))


def _pads(rng, kh, kw, stride=(1, 1), fit=False):
    """pads of an explicit PAD operator; `fit`: small enough for replace_pad_by_hw_pad (<= kernel // 2)"""
    mh, mw = (kh // 2, kw // 2) if fit else (kh, kw)
    while True:
        p = ((rng.randint(0, mh), rng.randint(0, mh)), (rng.randint(0, mw), rng.randint(0, mw)))
        if sum(p[0]) + sum(p[1]) > 0 or (mh == 0 and mw == 0):
            return p


# ---- the axes ---------------------------------------------------------------------------------------------------------------

def _ax_padding(f, idx, n_ops, o):
    rng = f.rng
    kh, kw = o.get("kernel") or rng.choice([(3, 3), (3, 3), (2, 2), (1, 3), (3, 1), (5, 5), (2, 4), (4, 2)])
    s = rng.choice([(1, 1), (1, 1), (2, 2), (3, 3), (1, 2), (2, 1), (1, 3)])
    ic = o.get("ic") or f.pick([1, 2, 3, 4, 8, 16, 32], [1, 2, 3, 4, 8])
    oc = o.get("oc") or f.pick([8, 16, 24, 32, 48], [2, 4, 8])
    h, w = o.get("hw") or (f.pick([6, 8, 9, 12], [4, 5, 6, 8]) + kh - 1, f.pick([6, 8, 12, 16], [4, 6, 8, 9]) + kw - 1)
    x = f.input([1, h, w, ic])
    wt = f.filt([oc, kh, kw, ic], oc, 0)
    bt = f.bias(wt, oc)
    kinds = ["SAME", "VALID", "PAD", "PADFIT"][:_n(f, n_ops)]
    for kd in _rot(kinds, idx):
        if kd in ("PAD", "PADFIT"):
            f.conv(x, wt, bt, s, (1, 1), "PAD", _pads(rng, kh, kw, s, fit=kd == "PADFIT"))
        else:
            f.conv(x, wt, bt, s, (1, 1), kd)


def _ax_stride_ge4_same_vs_valid(f, idx, n_ops, o):
    rng = f.rng
    kgiven = o.get("kernel")
    sw = o.get("stride_w") or rng.choice([s for s in [4, 4, 5, 6, 8] if not kgiven or kgiven[1] >= s + 2] or [4])
    sh = rng.choice([1, 1, 2])
    # SAME: pad_left = (kw - sw) // 2 >= 1.  kw = 2 sw + 1: the folded kernels of the SAME and the VALID user have the same
    # shape (3 columns) but the SAME one is shifted by the zero columns in front; otherwise the SAME one is a column wider
    kh, kw = o.get("kernel") or (rng.choice([1, 1, 2, 3]), sw + rng.choice([2, 2, 3, 4, sw, sw + 1, sw + 1]))
    ic = o.get("ic") or f.pick([1, 2, 3, 4, 8], [1, 2, 3, 4])
    oc = o.get("oc") or f.pick([8, 16, 24, 32], [2, 4, 8])
    m = -(-kw // sw) + rng.choice([0, 1, 1, 2, 3])
    h, w = o.get("hw") or (f.pick([4, 6, 8], [2, 3, 4]) + kh - 1, sw * m)
    x = f.input([1, h, w, ic])
    wt = f.filt([oc, kh, kw, ic], oc, 0)
    bt = f.bias(wt, oc)
    # the PAD keeps the width a multiple of the stride, so all users are folded by the same factor
    kinds = ["SAME", "VALID", "PAD", "SAME"][:_n(f, n_ops)]
    for j, kd in enumerate(_rot(kinds, idx)):
        if kd == "PAD":
            pl = rng.randint(0, sw)
            f.conv(x, wt, bt, (sh, sw), (1, 1), "PAD", ((rng.randint(0, 1), 0), (pl, sw - pl)))
        else:
            f.conv(x, wt, bt, (sh, sw), (1, 1), kd)


def _ax_stride_ge4_ifm_width(f, idx, n_ops, o):
    rng = f.rng
    sw = rng.choice([4, 6, 6, 8, 9, 12])
    kh, kw = rng.choice([1, 2, 3]), rng.choice([sw, sw + 2, 3, 2, 2 * sw, sw + 3])
    ic = f.pick([1, 2, 3, 4, 8], [1, 2, 3, 4])
    oc = f.pick([8, 16, 24], [2, 4, 8])
    h = f.pick([4, 6, 8], [2, 3, 4]) + kh - 1
    padding = rng.choice(["SAME", "SAME", "VALID", "PAD"])
    # widths: multiples of the stride (factor = stride, final stride 1), multiples of stride/2 or stride/3 only (final stride 2 / 3)
    part = [sw // x for x in (2, 3) if sw % x == 0 and sw // x > 1]
    cands = [sw * m for m in (2, 3, 4)] + [d * m for d in part for m in (3, 5, 7) if (d * m) % sw != 0]
    cands = [c for c in cands if c >= kw] or [sw * (-(-kw // sw))] * 2
    rng.shuffle(cands)
    wt = f.filt([oc, kh, kw, ic], oc, 0)
    bt = f.bias(wt, oc)
    for w in cands[:_n(f, n_ops)]:
        if padding == "PAD":
            # the rewrite sees the padded width; small pads (a PAD that fits half of the FOLDED kernel is a candidate for
            # replace_pad_by_hw_pad, which runs after the fold)
            pl, pr = rng.choice([(1, 1), (2, 2), (0, 2), (1, 0), (2, 1), (0, 1)])
            if w - pl - pr >= 1:
                f.conv(f.input([1, h, w - pl - pr, ic]), wt, bt, (1, sw), (1, 1), "PAD", ((rng.randint(0, 1), rng.randint(0, 1)), (pl, pr)))
                continue
        f.conv(f.input([1, h, w, ic]), wt, bt, (1, sw), (1, 1), "VALID" if padding == "PAD" else padding)


def _ax_kernel_larger_than_ifm(f, idx, n_ops, o):
    rng = f.rng
    kind = o.get("kind") or rng.choice(["conv", "conv", "dw", "conv_s4"])
    if kind == "conv_s4":
        sw = rng.choice([4, 4, 6])
        kh, kw = rng.choice([1, 2, 3]), sw + rng.choice([2, 3, 4])
        sizes = [(kh + 2, sw), (kh + 2, 4 * sw), (1, sw), (kh + 2, 2 * sw)]      # width = stride < kernel width
        stride = (1, sw)
    else:
        kh, kw = rng.choice([(3, 3), (3, 3), (5, 5), (1, 7), (7, 1), (4, 4), (3, 5), (2, 6)])
        sizes = [(kh + rng.randint(2, 5), kw + rng.randint(2, 5))] + rng.sample(
            [(1, 1), (1, kw + 2), (kh + 2, 1), (2, 2), (max(1, kh - 1), max(1, kw - 1)), (1, max(1, kw - 1)), (max(1, kh - 2), kw + 3)], 3)
        stride = rng.choice([(1, 1), (1, 1), (2, 2)])
    c = f.pick([4, 8, 16], [2, 3, 4])
    oc = f.pick([8, 16, 24], [2, 4, 8])
    if kind == "dw":
        wt = f.filt([1, kh, kw, c], c, 3)
        bt = f.bias(wt, c)
    else:
        wt = f.filt([oc, kh, kw, c], oc, 0)
        bt = f.bias(wt, oc)
    for (h, w) in _rot(sizes[:_n(f, n_ops)], idx):
        x = f.input([1, h, w, c])
        (f.dw if kind == "dw" else f.conv)(x, wt, bt, stride, (1, 1), "SAME")


def _ax_dilation_hw(f, idx, n_ops, o):
    rng = f.rng
    kh, kw = o.get("kernel") or rng.choice([(3, 3), (3, 3), (2, 2), (1, 3), (3, 1), (2, 3)])
    ic = o.get("ic") or f.pick([4, 8, 16, 32], [1, 2, 4])
    oc = o.get("oc") or f.pick([8, 16, 24, 32], [2, 4, 8])
    h, w = o.get("hw") or (f.pick([10, 12, 16], [7, 8, 9]), f.pick([10, 12, 16], [7, 8, 10]))
    x = f.input([1, h, w, ic])
    wt = f.filt([oc, kh, kw, ic], oc, 0)
    bt = f.bias(wt, oc)
    # every pool has users whose software dilation factor (dilation, halved when even) differs in the height only, in the width
    # only, or not at all while the hardware dilation differs (3 and 6)
    pools = [[(3, 3), (3, 1), (1, 3), (6, 6)], [(3, 1), (3, 3)], [(1, 3), (3, 3), (1, 1)], [(5, 5), (5, 1), (1, 5)], [(6, 3), (3, 6), (3, 3), (6, 1)],
             [(4, 2), (2, 4), (4, 4)], [(2, 3), (3, 2), (3, 3)], [(8, 8), (4, 4), (2, 2), (1, 1)], [(6, 6), (3, 3), (6, 2), (3, 1)], [(7, 2), (7, 1), (7, 7)]]
    pool = o.get("dilations") or pools[rng.randrange(len(pools))]
    n = _n(f, n_ops)
    for d in _rot([pool[i % len(pool)] for i in range(max(n, 2))][:max(n, 2)], idx):
        f.conv(x, wt, bt, (1, 1), d, "SAME")


def _ax_groups(f, idx, n_ops, o):
    rng = f.rng
    kh, kw = rng.choice([(3, 3), (1, 1), (2, 2), (3, 1)])
    icf = f.pick([2, 4, 8], [1, 2, 4])
    oc = f.pick([12, 24, 48], [12])
    h, w = f.pick([6, 8, 9], [3, 4, 5]), f.pick([6, 8, 12], [3, 4, 6])
    gs = rng.choice([[1, 2], [2, 1], [1, 2, 4], [2, 4], [1, 3], [3, 1], [2, 2, 1], [4, 3, 2, 1]])
    wt = f.filt([oc, kh, kw, icf], oc, 0)
    bt = f.bias(wt, oc)
    xs = {}
    for g in _rot(gs[:_n(f, n_ops)], idx):
        if g not in xs:
            xs[g] = f.input([1, h, w, icf * g])
        f.conv(xs[g], wt, bt, (1, 1), (1, 1), "SAME")
        f.users[-1] += f"groups={g}"


def _dw_filter(f, o):
    rng = f.rng
    kh, kw = o.get("kernel") or rng.choice([(3, 3), (3, 3), (2, 2), (1, 3), (3, 2), (5, 5)])
    c = o.get("ic") or f.pick([2, 3, 4, 8, 16, 24], [2, 3, 4, 8])
    return kh, kw, c


def _ax_dw_mult(f, idx, n_ops, o):
    rng = f.rng
    kh, kw, c = _dw_filter(f, o)
    h, w = f.pick([6, 8, 9], [4, 5, 6]) + kh - 1, f.pick([6, 8, 12], [4, 6, 7]) + kw - 1
    wt = f.filt([1, kh, kw, c], c, 3)
    bt = f.bias(wt, c)
    xs = {}

    def x(depth):
        if depth not in xs:
            xs[depth] = f.input([1, h, w, depth])
        return xs[depth]

    users = [("c", (1, 1)), ("1", (1, 1)), ("c", (2, 2)), ("1", (2, 2))][:_n(f, n_ops)]
    for who, s in _rot(users, idx):
        if who == "c":
            f.dw(x(c), wt, bt, s, (1, 1), "SAME", mult=1)
        else:
            f.dw(x(1), wt, bt, s, (1, 1), "SAME", mult=c)


def _ax_dw_params(f, idx, n_ops, o):
    rng = f.rng
    kh, kw, c = _dw_filter(f, o)
    sub = o.get("sub") or ["dilation", "padding", "stride"][idx % 3]
    h, w = f.pick([10, 12, 16], [7, 8, 9]), f.pick([10, 12, 16], [7, 8, 10])
    x = f.input([1, h, w, c])
    wt = f.filt([1, kh, kw, c], c, 3)
    bt = f.bias(wt, c)
    n = _n(f, n_ops)
    if sub == "dilation":
        pool = rng.choice([[(1, 1), (3, 3)], [(3, 3), (6, 6), (1, 1)], [(3, 1), (1, 3), (1, 1)], [(4, 4), (2, 2), (1, 1), (3, 3)], [(5, 2), (5, 1)]])
        for d in _rot([pool[i % len(pool)] for i in range(n)], idx // 3):
            f.dw(x, wt, bt, (1, 1), d, "SAME")
    elif sub == "padding":
        for kd in _rot(["SAME", "VALID", "PAD", "PADFIT"][:n], idx // 3):
            if kd in ("PAD", "PADFIT"):
                f.dw(x, wt, bt, (1, 1), (1, 1), "PAD", _pads(rng, kh, kw, fit=kd == "PADFIT"))
            else:
                f.dw(x, wt, bt, (1, 1), (1, 1), kd)
    else:
        for s in _rot([(1, 1), (2, 2), (3, 3), (1, 2)][:n], idx // 3):
            f.dw(x, wt, bt, s, (1, 1), "SAME")
    f.users.append("sub=" + sub)


def _ax_dw_vs_conv(f, idx, n_ops, o):
    kh, kw, c = _dw_filter(f, o)
    h, w = f.pick([6, 8, 9], [4, 5, 6]) + kh - 1, f.pick([6, 8, 12], [4, 6, 7]) + kw - 1
    wt = f.filt([1, kh, kw, c], c, 3, per_channel=False)        # one scale: legal for the convolution (1 channel) and the depthwise
    b1, bc = f.bias(wt, 1), f.bias(wt, c)
    xs = {}

    def x(depth):
        if depth not in xs:
            xs[depth] = f.input([1, h, w, depth])
        return xs[depth]

    users = ["conv", "dw", "dwmult", "conv_s2"][:_n(f, n_ops)]
    for u in _rot(users, idx):
        if u == "conv":
            f.conv(x(c), wt, b1, (1, 1), (1, 1), "SAME")
        elif u == "conv_s2":
            f.conv(x(c), wt, b1, (2, 2), (1, 1), "VALID")
        elif u == "dw":
            f.dw(x(c), wt, bc, (1, 1), (1, 1), "SAME", mult=1)
        else:
            f.dw(x(1), wt, bc, (1, 1), (1, 1), "SAME", mult=c)


def _ax_fc_ifm_shape(f, idx, n_ops, o):
    rng = f.rng
    ic = o.get("ic") or f.pick([8, 16, 32, 64], [4, 8, 16])
    oc = o.get("oc") or f.pick([8, 16, 40, 64], [2, 4, 8])
    wt = f.filt([oc, ic], oc, 0, per_channel=False)
    bt = f.bias(wt, oc)
    shapes = [[1, ic], [4, ic], [2, ic], [3, ic], [8, ic], [2, 2, ic], [1, 2 * ic], [1, 1, 1, ic], [16, ic], [1, 2, 3, ic], [5, ic]]
    first = [[1, ic]] if rng.random() < 0.7 else []
    rest = rng.sample([s for s in shapes if s not in first], _n(f, n_ops) - len(first))
    for s in _rot(first + rest, idx):
        f.fc(f.input(s), wt, bt)


def _ax_conv1x1_fc(f, idx, n_ops, o):
    rng = f.rng
    ic = o.get("ic") or f.pick([8, 16, 32, 64], [4, 8, 16])
    oc = o.get("oc") or f.pick([8, 16, 40, 64], [2, 4, 8])
    wt = f.filt([oc, 1, 1, ic], oc, 0)
    bt = f.bias(wt, oc)
    users = [((1, 1), (1, 1)), ((f.pick([4, 6, 8], [2, 3, 4]), f.pick([4, 6, 8], [2, 3, 5])), (1, 1)), ((1, f.pick([4, 8], [3, 4])), (1, 1)),
             ((f.pick([4, 6], [3, 4]), f.pick([4, 6], [3, 4])), (2, 2))][:_n(f, n_ops)]
    for (h, w), s in _rot(users, idx):
        f.conv(f.input([1, h, w, ic]), wt, bt, s, (1, 1), rng.choice(["SAME", "VALID"]))


def _ax_tconv_params(f, idx, n_ops, o):
    rng = f.rng
    kh, kw = o.get("kernel") or rng.choice([(3, 3), (3, 3), (2, 2), (4, 4), (2, 3), (1, 1)])
    ic = o.get("ic") or f.pick([4, 8, 16], [1, 2, 4])
    oc = o.get("oc") or f.pick([8, 16, 24, 40], [2, 4, 8])
    h, w = o.get("hw") or (f.pick([4, 6, 8], [2, 3, 4]), f.pick([4, 6, 8], [2, 3, 5]))
    x = f.input([1, h, w, ic])
    wt = f.filt([oc, kh, kw, ic], oc, 0, per_channel=False)
    bt = f.bias(wt, oc)
    cands = [("t", (2, 2), "SAME"), ("t", (1, 1), "SAME"), ("t", (2, 2), "VALID"), ("t", (1, 1), "VALID"), ("c", (1, 1), "SAME")]
    if kh < 2 or kw < 2:
        cands = [c for c in cands if c[1] == (1, 1)] + [("c", (2, 2), "SAME")]
    n = _n(f, n_ops)
    head = cands[:1] + rng.sample(cands[1:], min(n - 1, len(cands) - 1))
    for kind, s, p in _rot(head, idx):
        if kind == "t":
            f.tconv(x, wt, bt, s, p)
        else:
            f.conv(x, wt, bt, s, (1, 1), p)


def build(rng, idx=0, axis=None, n_ops=None, dtype=None, per_channel=None, small=False, make_b=None, name=None, **o):
    """network of axis `axis` (one of AXES; None = drawn).  `small`: tensor sizes for the Lean executors of C01.
    `make_b(rng, name, dtype)`: builder factory (default netgen.B).  Other keywords (kernel, oc, ic, hw, stride_w, dilations, sub,
    kind) fix the corresponding choice where the axis has it."""
    axis = axis or rng.choice(AXES)
    if dtype is None:
        dtype = rng.choice(["int8", "int8", "uint8"]) if axis == "tconv_params" else rng.choice(["int8", "int8", "int8", "uint8", "int16"])
    name = name or f"pat{idx}_shared_consts"
    b = make_b(rng, name, dtype) if make_b else netgen.B(rng, name, dtype)
    f = _Fam(rng, b, dtype, small, per_channel)
    globals()["_ax_" + axis](f, idx, n_ops, {k: v for k, v in o.items() if v is not None})
    if not f.outs:
        # every user was impossible (cannot happen with the sizes above; keep the file well formed)
        x = f.input([1, 4, 4, 4])
        wt = f.filt([4, 1, 1, 4], 4, 0)
        f.conv(x, wt, f.bias(wt, 4))
    b.net.desc.append(f"pattern=shared_consts axis={axis} dtype={dtype} users={f.users} per_channel={len(b.t(b.net.ops[-1].inputs[1]).scales or []) > 1}")
    return b.finish(f.outs)
