#!/venv/bin/python
"""Source-to-Lean translator for a restricted subset of Python (see design.d/Translator.md).

The *source text* of a function of /repo (parsed with `ast`, the module is never imported) is turned
into a Lean 4 definition over the run-time library `lean/VelaVerif/Model/PyRt.lean`:

    Python value                     Lean type
    int / NumPy integer scalar       Num  (value with a dynamic tag: py | i8 … u32)
    bool, comparison result          Bool
    tuple                            A × B × …
    list                             List A
    None                             Unit
    "may raise"                      M α = Except Err α

Every arithmetic operator is a call of the run-time library (which implements Python's floor
division, sign-of-divisor modulo, arithmetic shift, unbounded ints and NumPy's wrap-around / NEP 50
promotion), so the translator itself only deals with *structure*: evaluation order, short-circuit
operators, SSA renaming of locals, `if` joins (state update or continuation in the branches), early
`return`, `assert`, `raise`, `for` loops with accumulators (`pyFor`) and with `continue` / `break` /
`return` (`pyForE`), simple list comprehensions, calls of other translated functions (also across
modules), methods (`Class.method`, `self` a record), nested functions (lambda-lifted), list parameters
that are mutated (`.append` / `.extend`: the new list is returned), named tuples declared by the plug-in
(field order read from the source), `None`-or-value results and locals (`Option`), and the plug-in
declared abstractions: record parameters (every attribute path read becomes a parameter; list / tuple /
boolean attributes), opaque calls / targets / records (results of float code become parameters),
identity wrappers (`Shape4D(list)`).

Anything outside the subset raises `Untranslatable` naming the construct and its line.  The plug-ins
`harness/tables/src_*.py` then emit a marker for that function instead of a definition, so that the
theorems about it stop compiling (the obligation is reported broken); nothing is ever guessed.

CLI:  py2lean.py <file.py> [function ...]      print the translation (debugging aid)
"""
import ast
import hashlib
import os
import sys


class Untranslatable(Exception):
    pass


LEAN_KEYWORDS = {
    "at", "end", "from", "fun", "do", "then", "else", "if", "in", "let", "have", "show", "by", "match", "with",
    "where", "open", "local", "def", "theorem", "instance", "structure", "class", "inductive", "namespace",
    "section", "variable", "universe", "import", "export", "mutual", "private", "protected", "partial", "unsafe",
    "return", "for", "unless", "try", "catch", "finally", "break", "continue", "mut", "using", "calc", "suffices",
    "obtain", "forall", "exists", "Type", "Prop", "Sort", "set_option", "attribute", "deriving", "extends",
    "abbrev", "axiom", "example", "macro", "syntax", "notation", "infix", "prefix", "postfix", "pure", "bind",
    "true", "false", "some", "none", "Num", "M", "Ty", "Err", "wrap", "id", "not", "and", "or", "max", "min",
}

NP_TYPES = {"int8": "i8", "int16": "i16", "int32": "i32", "int64": "i64", "uint8": "u8", "uint16": "u16", "uint32": "u32"}
NP_INFO = {
    "i8": (-(1 << 7), (1 << 7) - 1, 8), "i16": (-(1 << 15), (1 << 15) - 1, 16), "i32": (-(1 << 31), (1 << 31) - 1, 32),
    "i64": (-(1 << 63), (1 << 63) - 1, 64), "u8": (0, 255, 8), "u16": (0, 65535, 16), "u32": (0, (1 << 32) - 1, 32),
}

# ---------------------------------------------------------------------------------------------------
# shapes (static structure of a value)
N = ("N",)
B = ("B",)
U = ("U",)


def T(*xs):
    return ("T",) + tuple(xs)


def L(x):
    return ("L", x)


NT_FIELDS = {}      # named-tuple type name -> field names (all fields are numbers); filled from the plug-in configuration


def NT(name):
    return ("NT", name)


def O(x):
    return ("O", x)


def shape_lean(s):
    if s == N:
        return "Num"
    if s[0] == "NT":
        return "(" + " × ".join("Num" for _ in NT_FIELDS[s[1]]) + ")"
    if s[0] == "O":
        return "(Option " + shape_lean(s[1]) + ")"
    if s == B:
        return "Bool"
    if s == U:
        return "Unit"
    if s[0] == "T":
        return "(" + " × ".join(shape_lean(x) for x in s[1:]) + ")"
    if s[0] == "L":
        return "(List " + shape_lean(s[1]) + ")"
    if s[0] == "F":     # an opaque function of the value arguments (record arguments are part of its identity)
        return "(" + " → ".join([shape_lean(x) for x in s[1]] + ["M " + shape_lean(s[2])]) + ")"
    raise AssertionError(s)


def shape_str(s):
    return shape_lean(s)


def numlit(v):
    return f"(Num.py {v})" if v >= 0 else f"(Num.py ({v}))"


# ---------------------------------------------------------------------------------------------------
# IR of a monadic term:
#   ("let", pat, eff, body)        let pat ← eff
#   ("letp", pat, expr, body)      let pat := expr
#   ("letb", pat, term, body)      let pat ← ( term )         (term is an if / for block)
#   ("assert", cond, body)
#   ("if", cond, t1, t2)
#   ("pure", expr)
#   ("err", errexpr)
#   ("for", xs, init, lampat, x, bodyterm)   pyFor xs init (fun lampat x => do bodyterm)   -- only inside letb


def pp_term(t, ind):
    """lines of a do-sequence"""
    k = t[0]
    sp = " " * ind
    if k == "let":
        return [f"{sp}let {t[1]} ← {t[2]}"] + pp_term(t[3], ind)
    if k == "letp":
        return [f"{sp}let {t[1]} := {t[2]}"] + pp_term(t[3], ind)
    if k == "letb":
        return [f"{sp}let {t[1]} ← ("] + pp_block(t[2], ind + 2, close=")") + pp_term(t[3], ind)
    if k == "assert":
        return [f"{sp}pyAssert {t[1]}"] + pp_term(t[2], ind)
    if k == "if":
        return [f"{sp}if {t[1]} then"] + pp_term(t[2], ind + 2) + [f"{sp}else"] + pp_term(t[3], ind + 2)
    if k == "pure":
        return [f"{sp}pure {t[1]}"]
    if k == "err":
        return [f"{sp}Except.error {t[1]}"]
    if k == "matchopt":
        return [f"{sp}match {t[1]} with", f"{sp}| none =>"] + pp_term(t[2], ind + 2) + [f"{sp}| some {t[3]} =>"] + pp_term(t[4], ind + 2)
    if k == "matchout":
        # ("matchout", scrutinee, retvar, ret_term, done_pat, done_term)
        return [f"{sp}match {t[1]} with", f"{sp}| Out.ret {t[2]} =>"] + pp_term(t[3], ind + 2) + \
            [f"{sp}| Out.done {t[4]} =>"] + pp_term(t[5], ind + 2)
    raise AssertionError(k)


def pp_block(t, ind, close):
    """lines of a *term* (inside parentheses); `close` is appended to the last line"""
    sp = " " * ind
    if t[0] == "if":
        lines = [f"{sp}if {t[1]} then do"] + pp_term(t[2], ind + 2) + [f"{sp}else do"] + pp_term(t[3], ind + 2)
    elif t[0] in ("for", "forE"):
        _, xs, init, lampat, x, body = t
        fn = "pyFor" if t[0] == "for" else "pyForE"
        lines = [f"{sp}{fn} {xs} {init} (fun {lampat} {x} => do"] + pp_term(body, ind + 4)
        lines[-1] += ")"
    else:
        lines = [f"{sp}do"] + pp_term(t, ind + 2)
    lines[-1] += close
    return lines


def term_size(t):
    k = t[0]
    if k in ("let", "letp", "assert"):
        return 1 + term_size(t[-1])
    if k == "letb":
        return 1 + term_size(t[2]) + term_size(t[3])
    if k == "if":
        return 1 + term_size(t[2]) + term_size(t[3])
    if k == "matchopt":
        return 1 + term_size(t[2]) + term_size(t[4])
    if k == "matchout":
        return 1 + term_size(t[3]) + term_size(t[5])
    if k in ("for", "forE"):
        return 1 + term_size(t[5])
    return 1


MAX_TERM = 4000


# ---------------------------------------------------------------------------------------------------
class FnInfo:
    def __init__(self, pyname, lean_name, qual):
        self.pyname = pyname
        self.lean_name = lean_name      # name inside its namespace
        self.qual = qual                # fully qualified
        self.params = []                # (pyname, leanname, shape)
        self.defaults = {}              # pyname -> ast node
        self.ret = None                 # shape of the Python return value
        self.mutated = []               # indices of list parameters whose final value is returned too
        self.text = None
        self.doc = ""
        self.extra_params = []          # descriptions of parameters that are not Python parameters
        self.py_params = []             # Python parameter names in order (records included)
        self.record_names = set()       # Python parameters that are records
        self.rec_paths = []             # sorted (dotted attribute path, lean parameter name)
        self.n_opaque = 0
        self.has_bool_or_list_attrs = False
        self.rec_lists = []
        self.rec_bools = []

    def result_shape(self):
        """shape of the Lean result: Python return value, then the mutated list parameters"""
        if not self.mutated:
            return self.ret
        ms = [self.params[i][2] for i in self.mutated]
        if self.ret == U:
            return ms[0] if len(ms) == 1 else T(*ms)
        return T(self.ret, *ms)


class Module:
    """One Python source file; translates functions on demand."""

    def __init__(self, repo, relpath, lean_module, config=None, registry=None):
        self.repo = repo
        self.relpath = relpath
        self.path = os.path.join(repo, relpath)
        with open(self.path, encoding="utf-8") as f:
            self.source = f.read()
        self.tree = ast.parse(self.source, filename=relpath)
        self.lean_module = lean_module              # e.g. SrcFpMath
        self.namespace = "VelaVerif.Gen." + lean_module
        self.config = config or {}
        self.registry = registry if registry is not None else {}
        self.registry[os.path.splitext(os.path.basename(relpath))[0]] = self
        self.funcs = {}           # python name -> ast.FunctionDef (module level)
        self.consts = {}          # dotted name -> int constant
        self.imports = {}         # local name -> (module basename, original name)  for `from .x import y`
        self.mod_aliases = {}     # local name -> module basename       for `from . import x` / `import numpy as np`
        self.done = {}            # python name -> FnInfo or Untranslatable
        self.order = []           # FnInfo in emission order
        self.in_progress = set()
        self.deps = set()         # other lean modules used
        self._scan()

    # -- module level scan -----------------------------------------------------------------------
    def _scan(self):
        for node in self.tree.body:
            if isinstance(node, ast.FunctionDef):
                self.funcs[node.name] = node
            elif isinstance(node, ast.ImportFrom):
                for a in node.names:
                    local = a.asname or a.name
                    if node.module is None:
                        self.mod_aliases[local] = a.name
                    else:
                        self.imports[local] = (node.module.split(".")[-1], a.name)
            elif isinstance(node, ast.Import):
                for a in node.names:
                    self.mod_aliases[a.asname or a.name] = a.name
            elif isinstance(node, ast.Assign) and len(node.targets) == 1 and isinstance(node.targets[0], ast.Name):
                v = self._const_value(node.value, "")
                if v is not None:
                    self.consts[node.targets[0].id] = v
            elif isinstance(node, ast.ClassDef):
                # members of an `Enum` / `Flag` class are objects, not integers (`Fmt.A == 3` is False): never folded;
                # `IntEnum` / `IntFlag` members are integers
                bases = [ast.unparse(b).split(".")[-1] for b in node.bases]
                plain_enum = any(b in ("Enum", "Flag") for b in bases)
                for st in node.body:
                    if isinstance(st, ast.FunctionDef):
                        self.funcs[node.name + "." + st.name] = st      # methods: `self` must be a declared record
                    if not plain_enum and isinstance(st, ast.Assign) and len(st.targets) == 1 and isinstance(st.targets[0], ast.Name):
                        v = self._const_value(st.value, node.name)
                        if v is not None:
                            self.consts[node.name + "." + st.targets[0].id] = v

    def _const_value(self, node, cls):
        """int value of a constant expression built from int literals and earlier constants, else None"""
        try:
            return self._cv(node, cls)
        except Untranslatable:
            return None

    def _cv(self, node, cls):
        if isinstance(node, ast.Constant) and type(node.value) is int:
            return node.value
        if isinstance(node, ast.Name):
            for k in ((cls + "." + node.id) if cls else None, node.id):
                if k and k in self.consts:
                    return self.consts[k]
            raise Untranslatable("not a constant")
        if isinstance(node, ast.Attribute) and isinstance(node.value, ast.Name):
            k = node.value.id + "." + node.attr
            if k in self.consts:
                return self.consts[k]
            if node.value.id in self.imports:
                # class constant of a class imported from another translated module (`ArchitectureFeatures.MAX_BLOCKDEP`)
                modname, orig = self.imports[node.value.id]
                other = self.registry.get(modname)
                if other is not None and other is not self and (orig + "." + node.attr) in getattr(other, "consts", {}):
                    return other.consts[orig + "." + node.attr]
            raise Untranslatable("not a constant")
        if isinstance(node, ast.Attribute) and isinstance(node.value, ast.Call) and len(node.value.args) == 1 \
                and ast.unparse(node.value.func) in ("np.iinfo", "numpy.iinfo") and not node.value.keywords:
            s = ast.unparse(node.value.args[0])
            for pfx in ("np.", "numpy."):
                if s.startswith(pfx) and s[len(pfx):] in NP_TYPES and node.attr in ("min", "max", "bits"):
                    return NP_INFO[NP_TYPES[s[len(pfx):]]][("min", "max", "bits").index(node.attr)]
            raise Untranslatable("not a constant")
        if isinstance(node, ast.UnaryOp) and isinstance(node.op, (ast.USub, ast.UAdd, ast.Invert)):
            v = self._cv(node.operand, cls)
            return -v if isinstance(node.op, ast.USub) else (v if isinstance(node.op, ast.UAdd) else ~v)
        if isinstance(node, ast.BinOp):
            a = self._cv(node.left, cls)
            b = self._cv(node.right, cls)
            return fold_binop(node.op, a, b)
        raise Untranslatable("not a constant")

    # -- public API ------------------------------------------------------------------------------
    def translate(self, name):
        """FnInfo of a module-level function or `Class.method` (translating it and its callees if needed)"""
        if name in self.done:
            r = self.done[name]
            if isinstance(r, Untranslatable):
                raise r
            return r
        if name not in self.funcs:
            e = Untranslatable(f"function {name} not found in {self.relpath}")
            self.done[name] = e
            raise e
        if name in self.in_progress:
            raise Untranslatable(f"recursive function {name}")
        self.in_progress.add(name)
        try:
            info = FnTranslator(self, self.funcs[name], None, None, spec_name=name).run()
            self.done[name] = info
            self.order.append(info)
            return info
        except Untranslatable as e:
            e2 = Untranslatable(f"{self.relpath}: {name}: {e}")
            self.done[name] = e2
            raise e2
        except RecursionError:
            raise
        except Exception as e:  # noqa: BLE001  -- a bug of the translator must not look like a translation
            e2 = Untranslatable(f"{self.relpath}: {name}: internal translator error {type(e).__name__}: {e}")
            self.done[name] = e2
            raise e2
        finally:
            self.in_progress.discard(name)

    def emit(self, names):
        """Lean text of the module: the requested functions (and their callees); a marker for each
        requested function that is outside the subset."""
        status = {}
        for n in names:
            try:
                self.translate(n)
                status[n] = None
            except Untranslatable as e:
                status[n] = str(e)
        out = ["-- GENERATED by harness/py2lean.py from the source text of " + self.relpath + ". DO NOT EDIT."]
        out.append("import VelaVerif.Model.PyRt")
        for d in sorted(self.deps):
            out.append(f"import VelaVerif.Gen.{d}")
        out.append("/-! Translated definitions (see design.d/Translator.md).  Arguments are `Num`s: tagged Python / NumPy")
        out.append("    integers; the theorems in `Props/*Src.lean` instantiate them with Python ints (`Num.py`). -/")
        out.append("set_option linter.unusedVariables false")
        out.append(f"namespace {self.namespace}")
        out.append("open VelaVerif.PyRt")
        out.append("")
        for info in self.order:
            out.append(info.text)
            out.append("")
        for n in names:
            if status[n] is not None:
                msg = status[n].replace("\\", "\\\\").replace('"', "'")
                out.append(f"/-- `{n}` is outside the translated subset: {msg} -/")
                out.append(f'def {lean_ident(n.replace(".", "__"))} : Untranslatable "{msg}" := ⟨⟩')
                out.append("")
        out.append(f"end {self.namespace}")
        return "\n".join(out) + "\n", status


_NT_CACHE = {}


def named_tuple_fields(repo, name, spec):
    """field names of a named tuple, read from the source: `spec` is the file (relative to the repo) that
    defines `class name(NamedTuple)` (annotated fields in order) or `name = namedtuple("name", "a b c")`"""
    if isinstance(spec, (list, tuple)) and not (len(spec) == 1 and spec[0].endswith(".py")):
        return list(spec)
    rel = spec if isinstance(spec, str) else spec[0]
    key = (repo, rel, name)
    if key in _NT_CACHE:
        return _NT_CACHE[key]
    with open(os.path.join(repo, rel), encoding="utf-8") as f:
        tree = ast.parse(f.read())
    fields = None
    for node in tree.body:
        if isinstance(node, ast.ClassDef) and node.name == name and any(ast.unparse(b).endswith("NamedTuple") for b in node.bases):
            fields = [st.target.id for st in node.body if isinstance(st, ast.AnnAssign) and isinstance(st.target, ast.Name)]
        if isinstance(node, ast.ClassDef) and node.name == name and len(node.bases) == 1 and isinstance(node.bases[0], ast.Call) \
                and ast.unparse(node.bases[0].func).endswith("namedtuple") and len(node.bases[0].args) == 2 \
                and not node.bases[0].keywords:
            # `class name(namedtuple("name", [...]))`: the fields of the base; the class's `__new__` is trusted to store
            # plain numeric arguments as they are (see design.d/Translator.md)
            a1 = node.bases[0].args[1]
            if isinstance(a1, ast.Constant) and isinstance(a1.value, str):
                fields = a1.value.replace(",", " ").split()
            elif isinstance(a1, (ast.List, ast.Tuple)) and all(isinstance(e, ast.Constant) for e in a1.elts):
                fields = [e.value for e in a1.elts]
        if isinstance(node, ast.Assign) and len(node.targets) == 1 and isinstance(node.targets[0], ast.Name) \
                and node.targets[0].id == name and isinstance(node.value, ast.Call) \
                and ast.unparse(node.value.func).endswith("namedtuple") and len(node.value.args) == 2 \
                and all(isinstance(a, ast.Constant) for a in node.value.args[:1]):
            a1 = node.value.args[1]
            if isinstance(a1, ast.Constant) and isinstance(a1.value, str):
                fields = a1.value.replace(",", " ").split()
            elif isinstance(a1, (ast.List, ast.Tuple)) and all(isinstance(e, ast.Constant) for e in a1.elts):
                fields = [e.value for e in a1.elts]
    if not fields:
        raise Untranslatable(f"named tuple `{name}` not found in {rel}")
    _NT_CACHE[key] = fields
    return fields


def fold_binop(op, a, b):
    try:
        if isinstance(op, ast.Add):
            return a + b
        if isinstance(op, ast.Sub):
            return a - b
        if isinstance(op, ast.Mult):
            return a * b
        if isinstance(op, ast.FloorDiv):
            return a // b
        if isinstance(op, ast.Mod):
            return a % b
        if isinstance(op, ast.LShift):
            if b > 4096:
                raise Untranslatable("shift too large to fold")
            return a << b
        if isinstance(op, ast.RShift):
            return a >> b
        if isinstance(op, ast.BitAnd):
            return a & b
        if isinstance(op, ast.BitOr):
            return a | b
        if isinstance(op, ast.BitXor):
            return a ^ b
        if isinstance(op, ast.Pow) and 0 <= b <= 4096:
            return a ** b
    except (ZeroDivisionError, ValueError):
        pass
    raise Untranslatable("not foldable")


def lean_ident(name):
    if name in LEAN_KEYWORDS or not name.isidentifier() or not name.isascii():
        return "«" + name + "»"
    return name


BINOPS = {ast.Add: "Num.add", ast.Sub: "Num.sub", ast.Mult: "Num.mul", ast.FloorDiv: "Num.floordiv", ast.Mod: "Num.mod",
          ast.LShift: "Num.shl", ast.RShift: "Num.shr", ast.BitAnd: "Num.and", ast.BitOr: "Num.or", ast.BitXor: "Num.xor",
          ast.Pow: "Num.pow"}
CMPOPS = {ast.Lt: "Num.lt", ast.LtE: "Num.le", ast.Gt: "Num.gt", ast.GtE: "Num.ge", ast.Eq: "Num.eq", ast.NotEq: "Num.ne"}


class Env:
    """python local name -> (lean name, shape) ; None marks a name that may be unbound"""

    def __init__(self, d=None):
        self.d = dict(d or {})

    def copy(self):
        return Env(self.d)


class FnTranslator:
    def __init__(self, module, node, outer, captured, spec_name=None):
        self.m = module
        self.node = node
        self.spec_name = spec_name or node.name
        self.outer = outer            # enclosing FnTranslator for a nested def
        self.captured = captured      # [(pyname, shape)] for a nested def
        self.used = set()             # lean names in use
        self.counter = {}
        self.ret_shape = None
        self.nested = {}              # name -> (ast.FunctionDef, {sig: FnInfo})
        self.prefix_texts = []        # lifted nested definitions
        self.cfg = module.config.get(self.spec_name, module.config.get(node.name, {})) if outer is None else {}
        self.records = set(self.cfg.get("records", ()))
        self.record_attrs = {}        # dotted path -> lean name
        self.record_bools = {}        # "path == Enum.MEMBER" -> lean name (Bool parameters)
        self.record_lists = {}        # dotted path -> lean name (List Num parameters, declared in the configuration)
        self.opaque = dict(self.cfg.get("opaque", {}))
        self.opaque_targets = dict(self.cfg.get("opaque_targets", {}))
        for nm, spec in module.config.get("__tuples__", {}).items():
            NT_FIELDS[nm] = named_tuple_fields(module.repo, nm, spec)
        self.optional_ret = False
        self.loop_stack = []          # innermost last: {"next": env -> term, "brk": env -> term}
        self.opaque_params = []       # (lean name, shape, description)
        self.mut_params = []          # python names of list params that are mutated

    # -- helpers ---------------------------------------------------------------------------------
    def fail(self, node, what):
        line = getattr(node, "lineno", "?")
        raise Untranslatable(f"{what} (line {line})")

    def fresh(self, base):
        base = base if base.isidentifier() and base.isascii() else "v"
        while True:
            self.counter[base] = self.counter.get(base, 0) + 1
            nm = f"{base}_{self.counter[base]}"
            if nm not in self.used and nm not in LEAN_KEYWORDS:
                self.used.add(nm)
                return nm

    def tmp(self):
        return self.fresh("t")

    # -- entry -----------------------------------------------------------------------------------
    def run(self):
        node = self.node
        a = node.args
        if a.vararg or a.kwarg or a.kwonlyargs or a.posonlyargs:
            self.fail(node, "unsupported parameter kind (*args / **kwargs / keyword-only)")
        # `ignore_decorators` (plug-in, third round): decorators `name(..)` the plug-in declares to leave the function's
        # behaviour alone (`docstring_format_args(..)` only formats `__doc__`); an entry assumption, stated in the plug-in
        ign = set(self.cfg.get("ignore_decorators", ()))
        decs = [ast.unparse(d) for d in node.decorator_list
                if not (isinstance(d, ast.Call) and ast.unparse(d.func) in ign)]
        if decs not in ([], ["classmethod"], ["staticmethod"]):
            self.fail(node, "decorated function")
        # `@classmethod`: the first parameter (the class) is implicit and not bound (any use of it is rejected);
        # `@staticmethod`: no implicit parameter
        py_args = list(a.args[1:]) if decs == ["classmethod"] else list(a.args)
        if decs == ["classmethod"] and not a.args:
            self.fail(node, "classmethod without parameters")
        name = self.spec_name.replace(".", "__") if self.outer is None else self.outer.node.name + "__" + node.name
        info = FnInfo(self.spec_name if self.outer is None else node.name, lean_ident(name), self.m.namespace + "." + lean_ident(name))
        env = Env()
        params = []
        if self.captured:
            for pn, sh in self.captured:
                ln = self.param_name(pn)
                params.append((pn, ln, sh))
                env.d[pn] = (ln, sh)
        shapes = self.cfg.get("params", {})
        ndef = len(a.defaults)
        for i, arg in enumerate(py_args):
            pn = arg.arg
            if pn in self.records:
                # a record parameter: only its attribute paths are visible, each as a Num parameter
                env.d[pn] = ("<record>", ("R", pn))   # ("R", dotted path so far)
                continue
            sh = shapes.get(pn) or self.shape_of_annotation(arg.annotation)
            ln = self.param_name(pn)
            params.append((pn, ln, sh))
            env.d[pn] = (ln, sh)
            j = i - (len(py_args) - ndef)
            if j >= 0:
                info.defaults[pn] = a.defaults[j]
        self.info = info
        self.param_list = params
        # `attr_stores` (plug-in, third round): attributes of a record parameter the function assigns at the top level of
        # its body (`self.start_time = ...`).  Their initial values are parameters (always, also when never read) and
        # the function -- which must return `None` on every path -- returns the tuple of their final values.
        self.attr_stores = list(self.cfg.get("attr_stores", ())) if self.outer is None else []
        for pth in self.attr_stores:
            if pth.split(".")[0] not in self.records:
                self.fail(node, f"`attr_stores`: `{pth}` is not rooted at a record parameter")
            self.record_attrs[pth] = self.param_name(pth.replace(".", "_"))
        # which list parameters are mutated?
        self.mut_params = [pn for pn, _ln, sh in params if sh[0] == "L" and self.is_mutated(pn, node.body)]
        body = list(node.body)
        if body and isinstance(body[0], ast.Expr) and isinstance(body[0].value, ast.Constant) and isinstance(body[0].value.value, str):
            body = body[1:]
        rets = [n for n in ast.walk(ast.Module(body=body, type_ignores=[])) if isinstance(n, ast.Return)]
        nones = [r for r in rets if r.value is None or (isinstance(r.value, ast.Constant) and r.value.value is None)]
        self.optional_ret = bool(nones) and len(nones) < len(rets)
        term = self.block(body, 0, env, self.end_cont)
        if term_size(term) > MAX_TERM:
            self.fail(node, f"translated term too large ({term_size(term)} nodes): join points are duplicated")
        if self.ret_shape is None:
            self.ret_shape = U
        info.ret = self.ret_shape
        # record attribute parameters, sorted by path; opaque parameters in order of appearance
        rec = sorted(self.record_attrs.items())
        recb = sorted(self.record_bools.items())
        recl = sorted(self.record_lists.items())
        info.params = params + [(p, ln, N) for p, ln in rec] + [(p, ln, L(N)) for p, ln in recl] + \
            [(p, ln, B) for p, ln in recb] + [(d, ln, sh) for ln, sh, d in self.opaque_params]
        info.extra_params = [f"{ln} = `{p}`" for p, ln in rec] + [f"{ln} = `{p}` (list)" for p, ln in recl] + \
            [f"{ln} = `{p}`" for p, ln in recb] + [f"{ln} = {d}" for ln, sh, d in self.opaque_params]
        info.has_bool_or_list_attrs = bool(recb or recl)
        info.rec_lists = recl
        info.rec_bools = recb
        info.py_params = [a_.arg for a_ in py_args]
        info.record_names = set(self.records) & set(info.py_params)
        info.rec_paths = rec
        info.n_opaque = len(self.opaque_params)
        info.plain = params
        info.mutated = [i for i, (pn, _l, _s) in enumerate(params) if pn in self.mut_params]
        sig = " ".join(f"({ln} : {shape_lean(sh)})" for _pn, ln, sh in info.params)
        res = shape_lean(info.result_shape())
        doc = f"`{node.name}` of {self.m.relpath}" if self.outer is None else f"nested `{node.name}` of `{self.outer.node.name}` ({self.m.relpath}), lambda-lifted"
        if self.captured:
            doc += "; captured: " + ", ".join(p for p, _ in self.captured)
        if info.extra_params:
            doc += "; extra parameters: " + "; ".join(info.extra_params)
        if info.mutated:
            doc += "; returns also the final value of the mutated list parameter(s) " + ", ".join(params[i][0] for i in info.mutated)
        lines = [f"/-- {doc} -/", f"def {info.lean_name} {sig} : M {res} := do".replace("  ", " ")]
        lines += pp_term(term, 2)
        info.text = "\n\n".join(self.prefix_texts + ["\n".join(lines)])
        return info

    def param_name(self, pn):
        ln = lean_ident(pn)
        if ln in self.used:
            ln = self.fresh(pn)
        self.used.add(ln)
        return ln

    def shape_of_annotation(self, ann):
        if ann is None:
            return N
        s = ast.unparse(ann)
        if s in ("int", "np.int32", "np.int64"):
            return N
        if s == "bool":
            return B
        if s in ("List[int]", "list[int]", "Shape", "List"):
            return L(N)
        for nm in NT_FIELDS:
            if s == nm:
                return NT(nm)
            if s in (f"List[Optional[{nm}]]", f"List[{nm} | None]"):
                return L(O(NT(nm)))
            if s in (f"List[{nm}]",):
                return L(NT(nm))
            if s in (f"Optional[{nm}]",):
                return O(NT(nm))
        return N

    def is_mutated(self, pn, stmts):
        for n in ast.walk(ast.Module(body=list(stmts), type_ignores=[])):
            if isinstance(n, ast.Call) and isinstance(n.func, ast.Attribute) and isinstance(n.func.value, ast.Name) \
                    and n.func.value.id == pn and n.func.attr in ("append", "extend"):
                return True
            if isinstance(n, ast.Call) and isinstance(n.func, ast.Name) and n.func.id in self.m.funcs:
                # passed to a function that mutates the corresponding parameter
                try:
                    callee = self.m.translate(n.func.id)
                except Untranslatable:
                    continue
                for i in callee.mutated:
                    if i < len(n.args) and isinstance(n.args[i], ast.Name) and n.args[i].id == pn:
                        return True
            if isinstance(n, (ast.Subscript,)) and isinstance(n.ctx, ast.Store) and isinstance(n.value, ast.Name) and n.value.id == pn:
                return True
        return False

    # -- continuations -----------------------------------------------------------------------------
    def end_cont(self, env):
        """falling off the end of the function: `return None`"""
        return self.ret_term(None, ("unit", "()", U), env)

    def ret_term(self, node, val, env):
        _k, expr, sh = val
        if getattr(self, "attr_stores", None):
            if sh != U or self.loop_stack or self.mut_params or self.optional_ret:
                self.fail(node or self.node, "`attr_stores`: a `return` with a value / inside a loop / with a mutated list")
            vals = [env.d["@" + p][0] if env.d.get("@" + p) else self.record_attrs[p] for p in self.attr_stores]
            self.ret_shape = N if len(vals) == 1 else T(*[N for _ in vals])
            return ("pure", vals[0] if len(vals) == 1 else "(" + ", ".join(vals) + ")")
        if self.optional_ret:
            if sh == U:
                if self.ret_shape is None:
                    self.pending_none = True
                if self.loop_stack:
                    if self.mut_params:
                        self.fail(node or self.node, "`return` inside a loop of a function that mutates a list parameter")
                    return ("pure", "(Step.ret none)")
                return ("pure", "none")
            sh = O(sh)
            expr = f"(some {expr})"
        if self.ret_shape is None:
            self.ret_shape = sh
        elif self.ret_shape != sh:
            self.fail(node or self.node, f"return values of different shapes: {shape_str(self.ret_shape)} and {shape_str(sh)}")
        if self.loop_stack:
            if self.mut_params:
                self.fail(node or self.node, "`return` inside a loop of a function that mutates a list parameter")
            return ("pure", f"(Step.ret {expr})")
        if self.mut_params:
            ms = [env.d[p][0] for p in self.mut_params]
            if sh == U:
                return ("pure", ms[0] if len(ms) == 1 else "(" + ", ".join(ms) + ")")
            return ("pure", "(" + ", ".join([expr] + ms) + ")")
        return ("pure", expr)

    # -- statements --------------------------------------------------------------------------------
    def block(self, stmts, i, env, cont):
        """term for stmts[i:] followed by cont(env)"""
        if i >= len(stmts):
            return cont(env)
        st = stmts[i]

        def rest(env2):
            return self.block(stmts, i + 1, env2, cont)

        if isinstance(st, ast.Pass):
            return rest(env)
        if isinstance(st, ast.Continue):
            if not self.loop_stack:
                self.fail(st, "`continue` outside a loop")
            return self.loop_stack[-1]["next"](env)
        if isinstance(st, ast.Break):
            if not self.loop_stack:
                self.fail(st, "`break` outside a loop")
            return self.loop_stack[-1]["brk"](env)
        if isinstance(st, ast.Expr):
            if isinstance(st.value, ast.Constant) and isinstance(st.value.value, str):
                return rest(env)
            return self.expr_stmt(st, env, rest)
        if isinstance(st, ast.Return):
            if st.value is None:
                return self.ret_term(st, ("unit", "()", U), env)
            rv = st.value
            if self.cfg.get("ret_first_of_pair"):
                # `return valid, f"..."` (third round): only the first component is translated; the second (a message
                # string) is not evaluated -- assumed to have no effect and not to raise.  Every `return` must be a pair.
                if not (isinstance(rv, ast.Tuple) and len(rv.elts) == 2):
                    self.fail(st, "`ret_first_of_pair`: a `return` that is not a literal pair")
                rv = rv.elts[0]
            pre, val = self.expr(rv, env)
            return self.wrap_pre(pre, self.ret_term(st, val, env))
        if isinstance(st, ast.Assert):
            pre, c = self.cond(st.test, env)
            return self.wrap_pre(pre, ("assert", c, rest(env)))
        if isinstance(st, ast.Raise):
            nm = "Exception"
            if st.exc is not None:
                f = st.exc.func if isinstance(st.exc, ast.Call) else st.exc
                nm = ast.unparse(f).split(".")[-1]
            return ("err", f'(Err.raised "{nm}")')
        if isinstance(st, (ast.Assign, ast.AnnAssign, ast.AugAssign)):
            return self.assign(st, env, rest)
        if isinstance(st, ast.If):
            return self.if_stmt(st, env, rest)
        if isinstance(st, ast.For):
            return self.for_stmt(st, env, rest)
        if isinstance(st, ast.FunctionDef):
            if st.name in env.d:
                self.fail(st, "nested function redefines a local name")
            self.nested[st.name] = (st, {})
            return rest(env)
        self.fail(st, f"unsupported statement `{type(st).__name__}`")

    def wrap_pre(self, pre, term):
        for p in reversed(pre):
            if p[0] == "let":
                term = ("let", p[1], p[2], term)
            elif p[0] == "letp":
                term = ("letp", p[1], p[2], term)
            elif p[0] == "letb":
                term = ("letb", p[1], p[2], term)
            else:
                raise AssertionError(p)
        return term

    def bind_target(self, target, val, env, pre):
        """bind python target(s) to an evaluated value (atom); extends env, appends to pre"""
        _k, expr, sh = val
        if isinstance(target, ast.Name):
            ln = self.fresh(target.id)
            pre.append(("letp", ln, expr, None))
            env.d[target.id] = (ln, sh)
            return
        if isinstance(target, (ast.Tuple, ast.List)):
            if sh[0] == "NT":
                sh = T(*[N for _ in NT_FIELDS[sh[1]]])
            if sh[0] != "T" or len(sh) - 1 != len(target.elts):
                self.fail(target, f"cannot unpack a value of shape {shape_str(sh)} into {len(target.elts)} targets")
            names = []
            for e, s in zip(target.elts, sh[1:]):
                if isinstance(e, ast.Name):
                    ln = "_" if e.id == "_" else self.fresh(e.id)
                    names.append((e.id, ln, s))
                else:
                    self.fail(e, "nested unpacking target")
            pre.append(("letp", "(" + ", ".join(n[1] for n in names) + ")", expr, None))
            for pn, ln, s in names:
                if ln != "_":
                    env.d[pn] = (ln, s)
            return
        self.fail(target, f"unsupported assignment target `{type(target).__name__}`")

    def assign(self, st, env, rest):
        env = env.copy()
        if isinstance(st, ast.AugAssign):
            if not isinstance(st.target, ast.Name):
                self.fail(st, "augmented assignment to a non-name")
            value = ast.BinOp(left=ast.Name(id=st.target.id, ctx=ast.Load()), op=st.op, right=st.value)
            ast.copy_location(value, st)
            ast.fix_missing_locations(value)
            targets = [st.target]
        elif isinstance(st, ast.AnnAssign):
            if st.value is None:
                return rest(env)
            value, targets = st.value, [st.target]
            if isinstance(value, ast.List) and not value.elts and isinstance(st.target, ast.Name):
                ann = ast.unparse(st.annotation)
                elem = N
                for nm in NT_FIELDS:
                    if nm in ann:
                        elem = NT(nm)
                ln = self.fresh(st.target.id)
                env.d[st.target.id] = (ln, L(elem))
                return ("letp", f"{ln} : {shape_lean(L(elem))}", "[]", rest(env))
        else:
            value, targets = st.value, st.targets
        # opaque call: the assigned names become parameters of the translated function
        if isinstance(value, ast.Call) and ast.unparse(value.func) in self.opaque:
            return self.opaque_assign(st, value, targets, env, rest)
        # opaque attribute (third round): `lo, hi = cls.stride_range` where the plug-in declares the attribute opaque
        if isinstance(value, ast.Attribute) and ast.unparse(value) in self.opaque:
            return self.opaque_assign(st, value, targets, env, rest)
        # opaque target: `name = <anything>` where the configuration declares `name` opaque (a value computed
        # with floats); the name becomes a parameter
        if len(targets) == 1 and isinstance(targets[0], ast.Name) and targets[0].id in self.opaque_targets \
                and not isinstance(st, ast.AugAssign):
            # (an augmented assignment `name op= e` computes with the current value: translated as arithmetic)
            if st not in self.node.body:
                self.fail(st, "opaque assignment outside the top level of the function body")
            tg = targets[0]
            sh = self.opaque_targets[tg.id]
            ln = self.param_name(tg.id)
            self.opaque_params.append((ln, sh, "`" + ast.unparse(st).replace("\n", " ") + "`"))
            env.d[tg.id] = (ln, sh)
            return rest(env)
        # opaque record: `name = <anything>` where the configuration declares `name` a record computed outside
        # the subset (a method of `arch`, ...): its attributes that are read become parameters
        if len(targets) == 1 and isinstance(targets[0], ast.Name) and targets[0].id in self.cfg.get("opaque_records", ()):
            if st not in self.node.body:
                self.fail(st, "opaque record assignment outside the top level of the function body")
            env.d[targets[0].id] = ("<record>", ("R", targets[0].id))
            return rest(env)
        # alias of a record-valued path: `size = area.size()` where `size.width` is read later
        if len(targets) == 1 and isinstance(targets[0], ast.Name):
            rp = self.record_path(value, env)
            if rp is not None and self.used_as_record(targets[0].id):
                env.d[targets[0].id] = ("<record>", ("R", rp))
                return rest(env)
        # store to a declared attribute of a record parameter (third round, `attr_stores`)
        if len(targets) == 1 and isinstance(targets[0], ast.Attribute) and getattr(self, "attr_stores", None):
            rp = self.record_path(targets[0], env)
            if rp in self.attr_stores:
                if st not in self.node.body or isinstance(st, ast.AugAssign):
                    self.fail(st, "attribute store outside the top level of the function body / augmented")
                pre, val = self.expr(value, env)
                if val[2] != N:
                    self.fail(st, "attribute store of something that is not a number")
                ln = self.fresh(rp.replace(".", "_"))
                pre.append(("letp", ln, val[1], None))
                env.d["@" + rp] = (ln, N)
                return self.wrap_pre(pre, rest(env))
        # subscript store  l[i] = v
        if len(targets) == 1 and isinstance(targets[0], ast.Subscript):
            return self.subscript_store(st, targets[0], value, env, rest)
        pre, val = self.expr(value, env)
        # name the value directly when it is a fresh effect result (avoid let x := t)
        for tg in targets:
            if isinstance(tg, ast.Name) and pre and pre[-1][0] in ("let", "letb") and pre[-1][1] == val[1] and len(targets) == 1:
                ln = self.fresh(tg.id)
                pre[-1] = (pre[-1][0], ln, pre[-1][2], None)
                self.used.discard(val[1])
                env.d[tg.id] = (ln, val[2])
            else:
                self.bind_target(tg, val, env, pre)
        return self.wrap_pre(pre, rest(env))

    def in_loop(self, st):
        return any(isinstance(n, (ast.For, ast.While, ast.ListComp)) and any(m is st for m in ast.walk(n))
                   for n in ast.walk(self.node))

    def opaque_assign(self, st, call, targets, env, rest):
        # third round, `opaque_in_branches`: also inside `if` branches (never inside a loop, where the result could
        # depend on the iteration): the assumption is the same -- were the call evaluated, it would return these values
        if st not in self.node.body and not (self.cfg.get("opaque_in_branches") and not self.in_loop(st)):
            self.fail(st, "opaque call outside the top level of the function body")
        shapes = self.opaque[ast.unparse(call.func if isinstance(call, ast.Call) else call)]
        if len(targets) != 1:
            self.fail(st, "chained assignment of an opaque call")
        tg = targets[0]
        desc = "`" + ast.unparse(st).replace("\n", " ") + "`"
        if isinstance(tg, ast.Name):
            if len(shapes) != 1:
                self.fail(st, "opaque call result count mismatch")
            ln = self.param_name(tg.id)
            self.opaque_params.append((ln, shapes[0], desc))
            env.d[tg.id] = (ln, shapes[0])
        elif isinstance(tg, ast.Tuple) and len(tg.elts) == len(shapes) and all(isinstance(e, ast.Name) for e in tg.elts):
            for e, sh in zip(tg.elts, shapes):
                if e.id == "_" or sh is None:      # None: a component that is not an integer (never read as one)
                    if e.id != "_":
                        env.d[e.id] = None
                    continue
                ln = self.param_name(e.id)
                self.opaque_params.append((ln, sh, desc))
                env.d[e.id] = (ln, sh)
        else:
            self.fail(st, "unsupported target of an opaque call")
        return rest(env)

    def subscript_store(self, st, tg, value, env, rest):
        """`l[i] = v` on a local list of numbers (not a parameter: the caller's list would change too)"""
        if isinstance(tg.slice, ast.Slice):
            self.fail(st, "assignment to a slice")
        if not isinstance(tg.value, ast.Name) or env.d.get(tg.value.id) is None or env.d[tg.value.id][1][0] != "L":
            self.fail(st, "assignment to a subscript of something that is not a local list")
        nm = tg.value.id
        if any(pn == nm for pn, _ln, _sh in self.param_list) and nm not in self.mut_params:
            self.fail(st, "assignment to a subscript of a list parameter")
        ln, sh = env.d[nm]
        # Python evaluates the right-hand side first, then the subscript expression
        pre, val = self.expr(value, env)
        p2, idx = self.expr(tg.slice, env)
        if idx[2] != N:
            self.fail(st, "list index is not a number")
        if val[2] != sh[1]:
            self.fail(st, f"store of a {shape_str(val[2])} into a list of {shape_str(sh[1])}")
        ln2 = self.fresh(nm)
        # a local created by `bytearray(n)` (third round): the store checks the byte range
        setter = "pySetByte" if nm in self.bytearray_names() else "pySetItem"
        pre = pre + p2 + [("let", ln2, f"{setter} {ln} {idx[1]} {val[1]}", None)]
        env.d[nm] = (ln2, sh)
        return self.wrap_pre(pre, rest(env))

    def bytearray_names(self):
        """local names bound by `name = bytearray(..)`; such a name must not be bound in any other way (third round)"""
        if not hasattr(self, "_ba_names"):
            ba, other = set(), set()
            for n in ast.walk(self.node):
                if isinstance(n, ast.Assign) and len(n.targets) == 1 and isinstance(n.targets[0], ast.Name):
                    is_ba = isinstance(n.value, ast.Call) and isinstance(n.value.func, ast.Name) and n.value.func.id == "bytearray"
                    (ba if is_ba else other).add(n.targets[0].id)
                elif isinstance(n, (ast.AugAssign, ast.AnnAssign, ast.For)) and isinstance(n.target, ast.Name):
                    other.add(n.target.id)
            params = {a.arg for a in self.node.args.args}
            if ba & (other | params):
                self.fail(self.node, "a `bytearray` local is also bound to something else")
            self._ba_names = ba
        return self._ba_names

    def expr_stmt(self, st, env, rest):
        v = st.value
        env = env.copy()
        # data.append(x) / data.extend(xs) on a local list
        if isinstance(v, ast.Call) and isinstance(v.func, ast.Attribute) and isinstance(v.func.value, ast.Name) \
                and v.func.attr in ("append", "extend") and len(v.args) == 1 and not v.keywords:
            nm = v.func.value.id
            if nm not in env.d or env.d[nm] is None or env.d[nm][1][0] != "L":
                self.fail(st, f"`.{v.func.attr}` on something that is not a local list")
            ln, sh = env.d[nm]
            pre, val = self.expr(v.args[0], env)
            if v.func.attr == "append":
                if val[2] != sh[1]:
                    self.fail(st, f"append of a {shape_str(val[2])} to a list of {shape_str(sh[1])}")
                new = f"({ln} ++ [{val[1]}])"
            else:
                if val[2] != sh:
                    self.fail(st, f"extend of a list of {shape_str(sh[1])} with {shape_str(val[2])}")
                new = f"({ln} ++ {val[1]})"
            ln2 = self.fresh(nm)
            pre.append(("letp", ln2, new, None))
            env.d[nm] = (ln2, sh)
            return self.wrap_pre(pre, rest(env))
        if isinstance(v, ast.Call):
            pre, val = self.call(v, env, stmt=True)
            return self.wrap_pre(pre, rest(env))
        self.fail(st, "expression statement without effect on the translated state")

    def assigned_names(self, stmts):
        out = []

        def tg(t):
            if isinstance(t, ast.Name):
                if t.id not in out and t.id != "_":
                    out.append(t.id)
            elif isinstance(t, (ast.Tuple, ast.List)):
                for e in t.elts:
                    tg(e)
            elif isinstance(t, ast.Subscript) and isinstance(t.value, ast.Name):
                tg(t.value)

        for st in stmts:
            for n in ast.walk(st):
                if isinstance(n, ast.Assign):
                    for t in n.targets:
                        tg(t)
                elif isinstance(n, (ast.AugAssign, ast.AnnAssign)):
                    tg(n.target)
                elif isinstance(n, ast.For):
                    tg(n.target)
                elif isinstance(n, ast.Call) and isinstance(n.func, ast.Attribute) and isinstance(n.func.value, ast.Name) \
                        and n.func.attr in ("append", "extend"):
                    tg(n.func.value)
                elif isinstance(n, ast.Call) and isinstance(n.func, ast.Name) and n.func.id in self.m.funcs:
                    try:
                        callee = self.m.translate(n.func.id)
                    except Untranslatable:
                        continue
                    for i in callee.mutated:
                        if i < len(n.args):
                            tg(n.args[i])
        return out

    @staticmethod
    def has_return(stmts):
        """a return somewhere inside, or a break / continue of the enclosing loop"""
        def walk(ss, depth):
            for st in ss:
                if isinstance(st, ast.Return):
                    return True
                if isinstance(st, (ast.Break, ast.Continue)) and depth == 0:
                    return True
                if isinstance(st, ast.If) and (walk(st.body, depth) or walk(st.orelse, depth)):
                    return True
                if isinstance(st, ast.For) and (walk(st.body, depth + 1) or walk(st.orelse, depth + 1)):
                    return True
            return False
        return walk(stmts, 0)

    @staticmethod
    def always_exits(stmts):
        """every path through the statements ends in return / raise / break / continue"""
        for st in stmts:
            if isinstance(st, (ast.Return, ast.Raise, ast.Break, ast.Continue)):
                return True
            if isinstance(st, ast.If) and FnTranslator.always_exits(st.body) and FnTranslator.always_exits(st.orelse):
                return True
        return False

    def join_vars(self, env, envs, names, node):
        """variables to thread through a join: assigned in a branch and bound in every incoming env.
        A variable that is `None` on one path and a value of shape s on the other becomes Optional."""
        out = []
        for nm in names:
            es = [e.d.get(nm) for e in envs]
            if all(x is not None for x in es):
                shs = {x[1] for x in es}
                if len(shs) == 2 and U in shs:
                    other = [x for x in shs if x != U][0]
                    if other[0] == "O":
                        self.fail(node, f"`{nm}`: None / Optional join")
                    for e in envs:
                        ln, sh = e.d[nm]
                        e.d[nm] = ("none" if sh == U else f"(some {ln})", O(other))
                elif len(shs) != 1:
                    self.fail(node, f"`{nm}` has different shapes on the joining paths")
                out.append(nm)
        return out

    def opt_test(self, test, env):
        """`x is None` / `x is not None` / `not x`-free forms on a local of Optional shape -> (name, is_none)"""
        if isinstance(test, ast.Compare) and len(test.ops) == 1 and isinstance(test.left, ast.Name) \
                and isinstance(test.comparators[0], ast.Constant) and test.comparators[0].value is None \
                and isinstance(test.ops[0], (ast.Is, ast.IsNot)):
            b = env.d.get(test.left.id)
            if b is not None and b[1][0] == "O":
                return test.left.id, isinstance(test.ops[0], ast.Is)
        return None

    def if_stmt(self, st, env, rest):
        # `if x is not None and B: body` (no else)  ==  `if x is not None: if B: body`
        if isinstance(st.test, ast.BoolOp) and isinstance(st.test.op, ast.And) and not st.orelse:
            first = self.opt_test(st.test.values[0], env)
            if first is not None and not first[1]:
                restv = st.test.values[1:]
                inner_test = restv[0] if len(restv) == 1 else ast.BoolOp(op=ast.And(), values=restv)
                inner = ast.If(test=inner_test, body=st.body, orelse=[])
                outer = ast.If(test=st.test.values[0], body=[inner], orelse=[])
                ast.copy_location(inner, st)
                ast.copy_location(outer, st)
                ast.fix_missing_locations(outer)
                return self.if_stmt(outer, env, rest)
        ot = self.opt_test(st.test, env)
        if ot is not None:
            nm, is_none = ot
            ln, sh = env.d[nm]
            e_none = env.copy()
            e_none.d[nm] = None                 # reading it there would read None: not a value of the subset
            e_some = env.copy()
            ln2 = self.fresh(nm)
            e_some.d[nm] = (ln2, sh[1])
            b_none, b_some = (st.body, st.orelse) if is_none else (st.orelse, st.body)
            t_none = self.block(b_none, 0, e_none, rest)
            t_some = self.block(b_some, 0, e_some, rest)
            return ("matchopt", ln, t_none, ln2, t_some)
        pre, c = self.cond(st.test, env)
        if self.has_return(st.body) or self.has_return(st.orelse) or self.always_exits(st.body) or self.always_exits(st.orelse):
            # tail form: the continuation goes into the branches
            t1 = self.block(st.body, 0, env.copy(), rest)
            t2 = self.block(st.orelse, 0, env.copy(), rest)
            return self.wrap_pre(pre, ("if", c, t1, t2))
        # state-update form
        names = self.assigned_names(st.body + st.orelse)
        res = {}

        def mk_cont(tag):
            def k(e):
                res[tag] = e
                return ("pure", "<join>")
            return k

        t1 = self.block(st.body, 0, env.copy(), mk_cont(1))
        t2 = self.block(st.orelse, 0, env.copy(), mk_cont(2))
        jv = self.join_vars(env, [res[1], res[2]], names, st)
        env2 = env.copy()
        for nm in names:
            if nm not in jv:
                env2.d[nm] = None      # possibly unbound afterwards
        if not jv:
            # nothing to thread through: the branches only check things
            t1 = self.subst_join(t1, "()")
            t2 = self.subst_join(t2, "()")
            return self.wrap_pre(pre, ("letb", "_", ("if", c, t1, t2), rest(env2)))

        def tup(e):
            xs = [e.d[nm][0] for nm in jv]
            return xs[0] if len(xs) == 1 else "(" + ", ".join(xs) + ")"

        t1 = self.subst_join(t1, tup(res[1]))
        t2 = self.subst_join(t2, tup(res[2]))
        new = []
        for nm in jv:
            ln = self.fresh(nm)
            new.append(ln)
            env2.d[nm] = (ln, res[1].d[nm][1])
        pat = new[0] if len(new) == 1 else "(" + ", ".join(new) + ")"
        return self.wrap_pre(pre, ("letb", pat, ("if", c, t1, t2), rest(env2)))

    def subst_join(self, t, val):
        k = t[0]
        if k == "pure":
            return ("pure", val) if t[1] == "<join>" else t
        if k in ("let", "letp"):
            return (k, t[1], t[2], self.subst_join(t[3], val))
        if k == "letb":
            return (k, t[1], t[2], self.subst_join(t[3], val))
        if k == "assert":
            return (k, t[1], self.subst_join(t[2], val))
        if k == "if":
            return (k, t[1], self.subst_join(t[2], val), self.subst_join(t[3], val))
        if k == "matchopt":
            return (k, t[1], self.subst_join(t[2], val), t[3], self.subst_join(t[4], val))
        if k == "matchout":
            return (k, t[1], t[2], self.subst_join(t[3], val), t[4], self.subst_join(t[5], val))
        return t

    @staticmethod
    def has_exit(stmts):
        """break / continue of this loop level, or a return anywhere inside"""
        def walk(ss, depth):
            for st in ss:
                if isinstance(st, ast.Return):
                    return True
                if isinstance(st, (ast.Break, ast.Continue)) and depth == 0:
                    return True
                if isinstance(st, ast.If) and (walk(st.body, depth) or walk(st.orelse, depth)):
                    return True
                if isinstance(st, ast.For) and (walk(st.body, depth + 1) or walk(st.orelse, depth + 1)):
                    return True
            return False
        return walk(stmts, 0)

    def for_exit(self, st, env, rest):
        """a loop whose body can `continue`, `break` or `return`"""
        pre, xs = self.iterable(st.iter, env)
        elem = xs[2][1]
        names = self.assigned_names(st.body)
        tnames = self.assigned_names([ast.Assign(targets=[st.target], value=ast.Constant(value=0))])
        accs = [nm for nm in names if env.d.get(nm) is not None and nm not in tnames]
        env_in = env.copy()
        lam_names = []
        for nm in accs:
            ln = self.fresh(nm)
            lam_names.append(ln)
            env_in.d[nm] = (ln, env.d[nm][1])
        x = self.fresh("x")
        pre_b = []
        self.bind_target(st.target, ("atom", x, elem), env_in, pre_b)

        def tup(names_):
            return "()" if not names_ else names_[0] if len(names_) == 1 else "(" + ", ".join(names_) + ")"

        def state(e):
            for nm in accs:
                if e.d.get(nm) is None or e.d[nm][1] != env.d[nm][1]:
                    self.fail(st, f"loop variable `{nm}` changes shape or may be unbound")
            return tup([e.d[nm][0] for nm in accs])

        self.loop_stack.append({"next": lambda e: ("pure", f"(Step.next {state(e)})"),
                                "brk": lambda e: ("pure", f"(Step.brk {state(e)})")})
        try:
            body = self.wrap_pre(pre_b, self.block(st.body, 0, env_in, self.loop_stack[-1]["next"]))
        finally:
            self.loop_stack.pop()
        env2 = env.copy()
        for nm in names + tnames:
            if nm not in accs:
                env2.d[nm] = None
        new = []
        for nm in accs:
            ln = self.fresh(nm)
            new.append(ln)
            env2.d[nm] = (ln, env.d[nm][1])
        r = self.tmp()
        rv = self.fresh("r")
        init = tup([env.d[nm][0] for nm in accs])
        blk = ("forE", xs[1], init, tup(lam_names) if accs else "_", x, body)
        # an early `return v` of the body returns from the function (or from the enclosing loop body)
        ret_t = ("pure", f"(Step.ret {rv})") if self.loop_stack else ("pure", rv)
        after = ("matchout", r, rv, ret_t, tup(new) if accs else "_", rest(env2))
        return self.wrap_pre(pre + [("letb", r, blk, None)], after)

    def for_stmt(self, st, env, rest):
        if st.orelse:
            self.fail(st, "for ... else")
        if self.has_exit(st.body):
            return self.for_exit(st, env, rest)
        pre, xs = self.iterable(st.iter, env)
        elem = xs[2][1]
        names = self.assigned_names(st.body)
        tnames = self.assigned_names([ast.Assign(targets=[st.target], value=ast.Constant(value=0))])
        accs = [nm for nm in names if env.d.get(nm) is not None and nm not in tnames]
        for nm in tnames:
            if nm in accs:
                accs.remove(nm)
        env_in = env.copy()
        lam_names = []
        for nm in accs:
            ln = self.fresh(nm)
            lam_names.append(ln)
            env_in.d[nm] = (ln, env.d[nm][1])
        x = self.fresh("x")
        pre_b = []
        self.bind_target(st.target, ("atom", x, elem), env_in, pre_b)
        res = {}

        def k(e):
            res[0] = e
            return ("pure", "<join>")

        body = self.wrap_pre(pre_b, self.block(st.body, 0, env_in, k))
        e_out = res[0]
        for nm in accs:
            if e_out.d.get(nm) is None or e_out.d[nm][1] != env.d[nm][1]:
                self.fail(st, f"loop variable `{nm}` changes shape or may be unbound")
        env2 = env.copy()
        for nm in names + tnames:
            if nm not in accs:
                env2.d[nm] = None     # loop-local: not visible afterwards
        if not accs:
            body = self.subst_join(body, "()")
            blk = ("for", xs[1], "()", "_", x, body)
            return self.wrap_pre(pre, ("letb", "_", blk, rest(env2)))

        def tup(names_):
            return names_[0] if len(names_) == 1 else "(" + ", ".join(names_) + ")"

        body = self.subst_join(body, tup([e_out.d[nm][0] for nm in accs]))
        init = tup([env.d[nm][0] for nm in accs])
        new = []
        for nm in accs:
            ln = self.fresh(nm)
            new.append(ln)
            env2.d[nm] = (ln, env.d[nm][1])
        blk = ("for", xs[1], init, tup(lam_names), x, body)
        return self.wrap_pre(pre, ("letb", tup(new), blk, rest(env2)))

    def iterable(self, node, env):
        if isinstance(node, ast.Call) and isinstance(node.func, ast.Name) and node.func.id == "range" and not node.keywords:
            pre = []
            args = []
            for a in node.args:
                p, v = self.expr(a, env)
                pre += p
                if v[2] != N:
                    self.fail(a, "range() argument is not a number")
                args.append(v[1])
            if len(args) == 1:
                args = [numlit(0), args[0], numlit(1)]
            elif len(args) == 2:
                args = [args[0], args[1], numlit(1)]
            elif len(args) != 3:
                self.fail(node, "range() with a wrong number of arguments")
            t = self.tmp()
            pre.append(("let", t, "pyRange " + " ".join(args), None))
            return pre, ("atom", t, L(N))
        pre, v = self.expr(node, env)
        if v[2][0] != "L":
            self.fail(node, f"iteration over a value of shape {shape_str(v[2])}")
        return pre, v

    # -- expressions -------------------------------------------------------------------------------
    # expr() returns (pre, (kind, leanexpr, shape)); `pre` is a list of bindings to emit first.
    def atomize(self, pre, val):
        return val

    def cond(self, node, env):
        """a Python expression in boolean context -> (pre, Bool lean expr)"""
        if isinstance(node, ast.BoolOp):
            parts = [self.cond(v, env) for v in node.values]
            if all(not p[0] for p in parts[1:]):
                op = " && " if isinstance(node.op, ast.And) else " || "
                return parts[0][0], "(" + op.join(p[1] for p in parts) + ")"
            # an operand after the first has effects: keep the short-circuit
            pre, acc = parts[0]
            pre = list(pre)
            for p_pre, p_c in parts[1:]:
                t = self.tmp()
                inner = self.wrap_pre(p_pre, ("pure", p_c))
                if isinstance(node.op, ast.And):
                    blk = ("if", acc, inner, ("pure", "false"))
                else:
                    blk = ("if", acc, ("pure", "true"), inner)
                pre.append(("letb", t, blk, None))
                acc = t
            return pre, acc
        if isinstance(node, ast.UnaryOp) and isinstance(node.op, ast.Not):
            pre, c = self.cond(node.operand, env)
            return pre, f"(!{c})"
        pre, v = self.expr(node, env)
        return pre, self.truthy(node, v)

    def truthy(self, node, v):
        _k, e, sh = v
        if sh == B:
            return e
        if sh == N:
            return f"(Num.truthy {e})"
        if sh[0] == "L":
            return f"(!({e}).isEmpty)"
        self.fail(node, f"truth value of a {shape_str(sh)}")

    def as_num(self, node, v):
        """value used as an operand of arithmetic"""
        if v[2] == N:
            return v[1]
        self.fail(node, f"a {shape_str(v[2])} used as a number")

    def expr(self, node, env):
        # closed integer expressions are folded by Python itself (exact)
        if not isinstance(node, ast.Constant):
            try:
                v = self.m._cv(node, "")
                return [], ("lit", numlit(v), N)
            except Untranslatable:
                pass
        if isinstance(node, ast.Constant):
            if type(node.value) is bool:
                return [], ("lit", "true" if node.value else "false", B)
            if type(node.value) is int:
                return [], ("lit", numlit(node.value), N)
            if node.value is None:
                return [], ("unit", "()", U)
            self.fail(node, f"constant of type {type(node.value).__name__}")
        if isinstance(node, ast.Name):
            if node.id in env.d:
                b = env.d[node.id]
                if b is None:
                    self.fail(node, f"`{node.id}` may be unbound here (assigned on some paths / inside a loop only)")
                if b[1][0] == "R":
                    self.fail(node, f"record parameter `{node.id}` used as a value")
                return [], ("atom", b[0], b[1])
            self.fail(node, f"unknown name `{node.id}`")
        if isinstance(node, ast.Attribute):
            return self.attribute(node, env)
        if isinstance(node, ast.BinOp):
            if type(node.op) not in BINOPS:
                self.fail(node, f"operator `{type(node.op).__name__}`")
            p1, a = self.expr(node.left, env)
            p2, b = self.expr(node.right, env)
            # list concatenation / repetition
            if isinstance(node.op, ast.Add) and a[2][0] == "L" and a[2] == b[2]:
                return p1 + p2, ("pure", f"({a[1]} ++ {b[1]})", a[2])
            if isinstance(node.op, ast.Mult) and a[2][0] == "L" and b[2] == N:
                return p1 + p2, ("pure", f"(pyRepeat {a[1]} {b[1]})", a[2])
            x, y = self.as_num(node.left, a), self.as_num(node.right, b)
            t = self.tmp()
            return p1 + p2 + [("let", t, f"{BINOPS[type(node.op)]} {x} {y}", None)], ("atom", t, N)
        if isinstance(node, ast.UnaryOp):
            if isinstance(node.op, ast.Not):
                pre, c = self.cond(node, env)
                return pre, ("pure", c, B)
            p, a = self.expr(node.operand, env)
            x = self.as_num(node.operand, a)
            fn = {ast.USub: "Num.neg", ast.UAdd: "Num.pos", ast.Invert: "Num.invert"}[type(node.op)]
            t = self.tmp()
            return p + [("let", t, f"{fn} {x}", None)], ("atom", t, N)
        if isinstance(node, ast.Compare):
            return self.compare(node, env)
        if isinstance(node, ast.BoolOp):
            pre, c = self.cond(node, env)
            # value of `and` / `or` is one of the operands; only boolean operands are supported as values
            for v in node.values:
                _p, vv = self.expr(v, env.copy())
                if vv[2] != B:
                    self.fail(node, "`and` / `or` of non-boolean operands used as a value")
            return pre, ("pure", c, B)
        if isinstance(node, ast.IfExp):
            pc, c = self.cond(node.test, env)
            p1, a = self.expr(node.body, env)
            p2, b = self.expr(node.orelse, env)
            if a[2] != b[2]:
                self.fail(node, "conditional expression with branches of different shapes")
            if not p1 and not p2 and a[2] == B:
                return pc, ("pure", f"(if {c} then {a[1]} else {b[1]})", a[2])
            t = self.tmp()
            blk = ("if", c, self.wrap_pre(p1, ("pure", a[1])), self.wrap_pre(p2, ("pure", b[1])))
            return pc + [("letb", t, blk, None)], ("atom", t, a[2])
        if isinstance(node, ast.Tuple):
            pre, vals = [], []
            for e in node.elts:
                p, v = self.expr(e, env)
                pre += p
                vals.append(v)
            if len(vals) < 2:
                self.fail(node, "tuple with fewer than two elements")
            return pre, ("pure", "(" + ", ".join(v[1] for v in vals) + ")", T(*[v[2] for v in vals]))
        if isinstance(node, ast.List):
            pre, vals = [], []
            for e in node.elts:
                p, v = self.expr(e, env)
                pre += p
                vals.append(v)
            shs = {v[2] for v in vals}
            opts = {x for x in shs if x[0] == "O"}
            if len(opts) == 1 and all(x == list(opts)[0] or x == list(opts)[0][1] for x in shs):
                o = list(opts)[0]           # values and Optional values of the same shape: a list of Optionals
                elems = [v[1] if v[2] == o else f"(some {v[1]})" for v in vals]
                return pre, ("pure", "[" + ", ".join(elems) + "]", L(o))
            if len(shs) > 1:
                self.fail(node, "list literal with elements of different shapes")
            sh = shs.pop() if shs else N
            return pre, ("pure", "[" + ", ".join(v[1] for v in vals) + "]", L(sh))
        if isinstance(node, ast.Subscript):
            return self.subscript(node, env)
        if isinstance(node, ast.ListComp):
            return self.listcomp(node, env)
        if isinstance(node, ast.Call):
            return self.call(node, env)
        self.fail(node, f"unsupported expression `{type(node).__name__}`")

    def listcomp(self, node, env):
        """`[e for x in xs]` (one generator, no condition): a loop that appends"""
        if len(node.generators) != 1 or node.generators[0].ifs or node.generators[0].is_async:
            self.fail(node, "list comprehension with several generators or a condition")
        g = node.generators[0]
        pre, xs = self.iterable(g.iter, env)
        env_in = env.copy()
        x = self.fresh("x")
        pre_b = []
        self.bind_target(g.target, ("atom", x, xs[2][1]), env_in, pre_b)
        p_e, v = self.expr(node.elt, env_in)
        acc = self.fresh("acc")
        body = self.wrap_pre(pre_b + p_e, ("pure", f"({acc} ++ [{v[1]}])"))
        t = self.tmp()
        blk = ("for", xs[1], f"([] : {shape_lean(L(v[2]))})", acc, x, body)
        return pre + [("letb", t, blk, None)], ("atom", t, L(v[2]))

    def attribute(self, node, env):
        # np.iinfo(np.intN).min / .max / .bits
        if isinstance(node.value, ast.Call) and ast.unparse(node.value.func) in ("np.iinfo", "numpy.iinfo") and len(node.value.args) == 1:
            t = self.np_type(node.value.args[0])
            if t and node.attr in ("min", "max", "bits"):
                return [], ("lit", numlit(NP_INFO[t][("min", "max", "bits").index(node.attr)]), N)
            self.fail(node, "unsupported np.iinfo use")
        # record parameter attribute path (zero-argument method calls are path segments: `area.size().width`)
        dotted = self.record_path(node, env)
        if dotted is not None and dotted in self.cfg.get("record_tuples", {}):
            return [], self.record_tuple_value(dotted)
        if dotted is not None and dotted in self.cfg.get("record_lists", ()):
            if dotted not in self.record_lists:
                self.record_lists[dotted] = self.param_name(dotted.replace(".", "_").replace("()", ""))
            return [], ("atom", self.record_lists[dotted], L(N))
        if dotted is not None and env.d.get("@" + dotted):
            return [], ("atom", env.d["@" + dotted][0], N)      # the value of the last store (`attr_stores`)
        if dotted is not None:
            if dotted not in self.record_attrs:
                self.record_attrs[dotted] = self.param_name(dotted.replace(".", "_").replace("()", ""))
            return [], ("atom", self.record_attrs[dotted], N)
        # field of a named tuple value
        if isinstance(node.value, (ast.Name, ast.Subscript, ast.Call, ast.Attribute)):
            try:
                pre, v = self.expr(node.value, env)
            except Untranslatable:
                pre, v = None, None
            if v is not None and v[2][0] == "NT" and node.attr in NT_FIELDS[v[2][1]]:
                return pre, self.nt_proj(v, NT_FIELDS[v[2][1]].index(node.attr))
        self.fail(node, f"attribute access `{ast.unparse(node)}`")

    def record_tuple_value(self, dotted):
        """a record attribute that is a named tuple, used as a value: the tuple of its field attributes"""
        tname = self.cfg["record_tuples"][dotted]
        comps = []
        for f in NT_FIELDS[tname]:
            d = dotted + "." + f
            if d not in self.record_attrs:
                self.record_attrs[d] = self.param_name(d.replace(".", "_").replace("()", ""))
            comps.append(self.record_attrs[d])
        return ("pure", "(" + ", ".join(comps) + ")", NT(tname))

    def nt_proj(self, v, i):
        n = len(NT_FIELDS[v[2][1]])
        base = v[1] if " " not in v[1] else "(" + v[1] + ")"
        proj = base + "".join(".2" for _ in range(i)) + (".1" if i < n - 1 else "")
        return ("pure", proj, N)

    def record_path(self, node, env):
        """dotted path of an attribute / zero-argument-method chain rooted at a record, else None"""
        path = []
        n = node
        while True:
            if isinstance(n, ast.Attribute):
                path.append(n.attr)
                n = n.value
            elif isinstance(n, ast.Call) and not n.args and not n.keywords and isinstance(n.func, ast.Attribute):
                path.append(n.func.attr + "()")
                n = n.func.value
            elif self.cfg.get("record_str_keys") and isinstance(n, ast.Subscript) and isinstance(n.slice, ast.Constant) \
                    and isinstance(n.slice.value, str) and n.slice.value.isidentifier():
                # third round: `rec.attrs["padding"]` -- a look-up with a literal string key is a path segment (assumed
                # present: a missing key would raise `KeyError`, which is not modelled)
                path.append("item_" + n.slice.value)
                n = n.value
            else:
                break
        if isinstance(n, ast.Name) and n.id in env.d and env.d[n.id] is not None and env.d[n.id][1][0] == "R" and path:
            return ".".join([env.d[n.id][1][1]] + path[::-1])
        return None

    def used_as_record(self, name):
        for n in ast.walk(self.node):
            if isinstance(n, ast.Attribute) and isinstance(n.value, ast.Name) and n.value.id == name:
                return True
        return False

    def np_type(self, node):
        s = ast.unparse(node)
        for pfx in ("np.", "numpy."):
            if s.startswith(pfx) and s[len(pfx):] in NP_TYPES:
                return NP_TYPES[s[len(pfx):]]
        return None

    def none_test(self, node, env):
        """`rec.path is None` / `is not None`: an opaque boolean attribute of the record"""
        if len(node.ops) == 1 and isinstance(node.ops[0], (ast.Is, ast.IsNot)) \
                and isinstance(node.comparators[0], ast.Constant) and node.comparators[0].value is None:
            lp = self.record_path(node.left, env)
            if lp is None and isinstance(node.left, ast.Name) and env.d.get(node.left.id) is not None \
                    and env.d[node.left.id][1][0] == "R":
                lp = env.d[node.left.id][1][1]          # the record itself: `prev_op is None`
            if lp is not None:
                key = lp + " is None"
                if key not in self.record_bools:
                    self.record_bools[key] = self.param_name((lp + "_is_None").replace(".", "_").replace("()", ""))
                e = self.record_bools[key]
                return [], ("atom", e if isinstance(node.ops[0], ast.Is) else f"(!{e})", B)
        return None

    def enum_test(self, node, env):
        """`rec.path == Enum.MEMBER` / `!=`: an opaque boolean attribute of the record (a Bool parameter)"""
        if len(node.ops) == 1 and isinstance(node.ops[0], (ast.Eq, ast.NotEq)):
            lp = self.record_path(node.left, env)
            r = node.comparators[0]
            if lp is not None and isinstance(r, ast.Attribute) and isinstance(r.value, ast.Name) \
                    and r.value.id not in env.d and r.value.id[:1].isupper() and (r.value.id + "." + r.attr) not in self.m.consts:
                key = lp + " == " + r.value.id + "." + r.attr
                if key not in self.record_bools:
                    self.record_bools[key] = self.param_name((lp + "_is_" + r.attr).replace(".", "_").replace("()", ""))
                e = self.record_bools[key]
                return [], ("atom", e if isinstance(node.ops[0], ast.Eq) else f"(!{e})", B)
        return None

    def compare(self, node, env):
        et = self.enum_test(node, env) or self.none_test(node, env)
        if et is not None:
            return et
        pre, left = self.expr(node.left, env)
        parts = []
        first = True
        for op, rhs in zip(node.ops, node.comparators):
            if isinstance(op, (ast.In, ast.NotIn)) and isinstance(rhs, (ast.Tuple, ast.List)):
                p, right = [], ("unit", "()", U)
            else:
                p, right = self.expr(rhs, env)
            if p and not first:
                self.fail(node, "chained comparison whose later operand has effects")
            pre += p
            first = False
            if isinstance(op, (ast.Is, ast.IsNot)) and left[2][0] == "O" and isinstance(rhs, ast.Constant) \
                    and rhs.value is None and len(node.ops) == 1:
                return pre, ("pure", f"({left[1]}).isNone" if isinstance(op, ast.Is) else f"({left[1]}).isSome", B)
            if isinstance(op, (ast.Is, ast.IsNot)):
                # `x is None` / `x is not None` for a value whose shape says it is a number / list / tuple:
                # the entry assumption "parameters have their declared shapes" decides the test
                if isinstance(rhs, ast.Constant) and rhs.value is None and left[2] != U and len(node.ops) == 1:
                    return pre, ("lit", "false" if isinstance(op, ast.Is) else "true", B)
                self.fail(node, "`is` comparison")
            if isinstance(op, (ast.In, ast.NotIn)):
                # membership in a literal tuple / list of numbers: a disjunction of equalities
                if isinstance(rhs, (ast.Tuple, ast.List)) and rhs.elts and left[2] == N and len(node.ops) == 1:
                    eqs = []
                    for e in rhs.elts:
                        pe, ve = self.expr(e, env)
                        if pe or ve[2] != N:
                            self.fail(node, "`in` test against elements that are not plain numbers")
                        eqs.append(f"Num.eq {left[1]} {ve[1]}")
                    c = "(" + " || ".join(eqs) + ")"
                    return pre, ("pure", c if isinstance(op, ast.In) else f"(!{c})", B)
                self.fail(node, "`in` test")
            if left[2] == N and right[2] == N:
                parts.append(f"{CMPOPS[type(op)]} {left[1]} {right[1]}")
            elif left[2] == B and right[2] == B and isinstance(op, (ast.Eq, ast.NotEq)):
                parts.append(f"({left[1]} {'==' if isinstance(op, ast.Eq) else '!='} {right[1]})")
            else:
                self.fail(node, f"comparison of {shape_str(left[2])} with {shape_str(right[2])}")
            left = right
        if len(parts) == 1:
            return pre, ("pure", "(" + parts[0] + ")", B)
        return pre, ("pure", "(" + " && ".join(parts) + ")", B)

    def subscript(self, node, env):
        pre, v = self.expr(node.value, env)
        if isinstance(node.slice, ast.Slice):
            self.fail(node, "slice")
        if v[2][0] == "T":
            try:
                i = self.m._cv(node.slice, "")
            except Untranslatable:
                self.fail(node, "tuple index that is not a constant")
            n = len(v[2]) - 1
            if i < 0:
                i += n
            if not 0 <= i < n:
                self.fail(node, "tuple index out of range")
            proj = v[1] + "".join(".2" for _ in range(i)) + (".1" if i < n - 1 else "")
            return pre, ("pure", proj if " " not in v[1] else "(" + v[1] + ")" + proj[len(v[1]):], v[2][1 + i])
        if v[2][0] == "NT":
            try:
                i = self.m._cv(node.slice, "")
            except Untranslatable:
                self.fail(node, "named-tuple index that is not a constant")
            n = len(NT_FIELDS[v[2][1]])
            if i < 0:
                i += n
            if not 0 <= i < n:
                self.fail(node, "named-tuple index out of range")
            return pre, self.nt_proj(v, i)
        if v[2][0] == "L":
            p, idx = self.expr(node.slice, env)
            if idx[2] != N:
                self.fail(node, "list index is not a number")
            t = self.tmp()
            return pre + p + [("let", t, f"pyIndex {v[1]} {idx[1]}", None)], ("atom", t, v[2][1])
        self.fail(node, f"subscript of a {shape_str(v[2])}")

    def args_of(self, node, env, n=None):
        if node.keywords:
            self.fail(node, "keyword arguments")
        if any(isinstance(a, ast.Starred) for a in node.args):
            self.fail(node, "starred argument")
        if n is not None and len(node.args) != n:
            self.fail(node, f"`{ast.unparse(node.func)}` with {len(node.args)} arguments")
        pre, vals = [], []
        for a in node.args:
            p, v = self.expr(a, env)
            pre += p
            vals.append(v)
        return pre, vals

    def call(self, node, env, stmt=False):
        fname = ast.unparse(node.func)
        # opaque function (declared in the plug-in): a call anywhere in the body is an application of a function-valued
        # parameter to the *value* arguments; record arguments (immutable by the entry assumption) name the parameter
        if fname in self.cfg.get("opaque_fns", {}) and fname not in env.d and not node.keywords \
                and not any(isinstance(a, ast.Starred) for a in node.args):
            ret = self.cfg["opaque_fns"][fname]
            recs, pre, vals = [], [], []
            for a in node.args:
                rp = None
                if isinstance(a, ast.Name) and env.d.get(a.id) is not None and env.d[a.id][1][0] == "R":
                    rp = env.d[a.id][1][1]
                else:
                    rp = self.record_path(a, env)
                if rp is not None:
                    recs.append(rp)
                    continue
                p_, v_ = self.expr(a, env)
                pre += p_
                vals.append(v_)
            key = fname + "(" + ", ".join(recs) + ")"
            sh = ("F", tuple(v_[2] for v_ in vals), ret)
            if not hasattr(self, "opaque_fn_params"):
                self.opaque_fn_params = {}
            if key in self.opaque_fn_params:
                ln, sh0 = self.opaque_fn_params[key]
                if sh0 != sh:
                    self.fail(node, f"opaque function `{key}` called with value arguments of different shapes")
            else:
                root = self
                ln = self.param_name((fname + "__" + "__".join(recs)).replace(".", "_").replace("()", "").rstrip("_"))
                self.opaque_fn_params[key] = (ln, sh)
                self.opaque_params.append((ln, sh, f"the function `{key}` of the value arguments"))
            r = self.tmp()
            return pre + [("let", r, " ".join([ln] + [v_[1] for v_ in vals]), None)], ("atom", r, ret)
        # `l.copy()` of a list value: lists are values here (no aliasing is modelled: every store rebinds the name)
        if isinstance(node.func, ast.Attribute) and node.func.attr == "copy" and not node.args and not node.keywords:
            try:
                pre, v = self.expr(node.func.value, env)
            except Untranslatable:
                v = None
            if v is not None and v[2][0] == "L":
                return pre, v
        # zero-argument method of a record: an attribute path (`fm.data_type.size_in_bytes()`)
        rp = self.record_path(node, env)
        if rp is not None:
            if rp not in self.record_attrs:
                self.record_attrs[rp] = self.param_name(rp.replace(".", "_").replace("()", ""))
            return [], ("atom", self.record_attrs[rp], N)
        # NumPy casts
        t = self.np_type(node.func)
        if t:
            pre, (a,) = self.args_of(node, env, 1)
            x = self.as_num(node.args[0], a)
            r = self.tmp()
            return pre + [("let", r, f"Num.cast Ty.{t} {x}", None)], ("atom", r, N)
        if isinstance(node.func, ast.Name) and node.func.id in self.m.config.get("__wrappers__", ()) \
                and node.func.id not in env.d and len(node.args) == 1 and not node.keywords:
            # a constructor that only stores its argument (`Shape4D([n, h, w, c])`): the value is the argument
            return self.expr(node.args[0], env)
        if isinstance(node.func, ast.Name) and node.func.id in NT_FIELDS and node.func.id not in env.d:
            fields = NT_FIELDS[node.func.id]
            given = {}
            pre = []
            if any(isinstance(a, ast.Starred) for a in node.args) or len(node.args) > len(fields):
                self.fail(node, "named-tuple constructor arguments")
            for fname, a in zip(fields, node.args):
                given[fname] = a
            for kw in node.keywords:
                if kw.arg not in fields or kw.arg in given:
                    self.fail(node, f"named-tuple constructor keyword `{kw.arg}`")
                given[kw.arg] = kw.value
            if set(given) != set(fields):
                self.fail(node, "named-tuple constructor with missing fields")
            # Python evaluates positional then keyword arguments in source order
            order = list(node.args) + [kw.value for kw in node.keywords]
            vals = {}
            for a in order:
                p, v = self.expr(a, env)
                pre += p
                vals[id(a)] = self.as_num(a, v)
            comps = [vals[id(given[f])] for f in fields]
            return pre, ("pure", "(" + ", ".join(comps) + ")", NT(node.func.id))
        if isinstance(node.func, ast.Name) and node.func.id not in env.d:
            f = node.func.id
            if f == "isinstance" and len(node.args) == 2 and not node.keywords:
                # third round: `isinstance(x, int)` / `isinstance(x, np.intN)` of an integer value: a test of the run-time tag
                t = "py" if (isinstance(node.args[1], ast.Name) and node.args[1].id == "int" and "int" not in env.d) \
                    else self.np_type(node.args[1])
                if t is None:
                    self.fail(node, "`isinstance` against something other than `int` / `np.intN`")
                pre, a = self.expr(node.args[0], env)
                if a[2] != N:
                    self.fail(node, "`isinstance` of something that is not a number")
                return pre, ("pure", f"(Num.isinst {a[1]} Ty.{t})", B)
            if f == "bytearray" and len(node.args) == 1 and not node.keywords:
                # third round: `bytearray(n)` with an integer count (a list of zero bytes; stores go through `pySetByte`)
                pre, (a,) = self.args_of(node, env, 1)
                if a[2] != N:
                    self.fail(node, "`bytearray` of something that is not an integer count")
                r = self.tmp()
                return pre + [("let", r, f"pyByteArray {a[1]}", None)], ("atom", r, L(N))
            if f == "int":
                pre, (a,) = self.args_of(node, env, 1)
                if a[2] == B:
                    return pre, ("pure", f"(ofBool {a[1]})", N)
                r = self.tmp()
                return pre + [("let", r, f"Num.int {self.as_num(node.args[0], a)}", None)], ("atom", r, N)
            if f == "bool":
                pre, (a,) = self.args_of(node, env, 1)
                return pre, ("pure", self.truthy(node, a), B)
            if f == "abs":
                pre, (a,) = self.args_of(node, env, 1)
                r = self.tmp()
                return pre + [("let", r, f"Num.abs {self.as_num(node.args[0], a)}", None)], ("atom", r, N)
            if f in ("min", "max"):
                pre, vals = self.args_of(node, env)
                if len(vals) < 2:
                    self.fail(node, f"`{f}` of an iterable")
                acc = self.as_num(node.args[0], vals[0])
                for a_node, v in zip(node.args[1:], vals[1:]):
                    t = self.tmp()
                    pre.append(("let", t, f"Num.{f} {acc} {self.as_num(a_node, v)}", None))
                    acc = t
                return pre, ("atom", acc, N)
            if f == "len":
                pre, (a,) = self.args_of(node, env, 1)
                if a[2][0] != "L":
                    self.fail(node, f"len() of a {shape_str(a[2])}")
                return pre, ("pure", f"(pyLen {a[1]})", N)
            if f == "list" and len(node.args) == 1:
                pre, (a,) = self.args_of(node, env, 1)
                if a[2][0] != "L":
                    self.fail(node, f"list() of a {shape_str(a[2])}")
                return pre, a
            if f == "range":
                pre, xs = self.iterable(node, env)
                return pre, xs
            if f in self.nested_lookup():
                return self.call_nested(node, f, env)
            if f in self.m.funcs:
                return self.call_fn(node, self.m, f, env, stmt)
            if f in self.m.imports:
                modname, orig = self.m.imports[f]
                if modname in self.m.registry:
                    return self.call_fn(node, self.m.registry[modname], orig, env, stmt)
            self.fail(node, f"call of `{f}` (not a translated function or supported builtin)")
        if fname == "math.ceil" and self.m.mod_aliases.get("math") == "math" and "math" not in env.d \
                and len(node.args) == 1 and not node.keywords:
            # ceiling of an integer-shaped value (a float operand never has the shape `Num`)
            pre, (a,) = self.args_of(node, env, 1)
            r = self.tmp()
            return pre + [("let", r, f"Num.ceil {self.as_num(node.args[0], a)}", None)], ("atom", r, N)
        if isinstance(node.func, ast.Attribute) and isinstance(node.func.value, ast.Name) \
                and node.func.value.id not in env.d and (node.func.value.id + "." + node.func.attr) in self.m.funcs:
            # `Class.method(..)` of this module: only static / class methods (no implicit `self`)
            q = node.func.value.id + "." + node.func.attr
            if [ast.unparse(d) for d in self.m.funcs[q].decorator_list] not in (["classmethod"], ["staticmethod"]):
                self.fail(node, f"call of the instance method `{q}` through its class")
            return self.call_fn(node, self.m, q, env, stmt)
        if isinstance(node.func, ast.Attribute) and isinstance(node.func.value, ast.Name):
            modalias = node.func.value.id
            if modalias in self.m.mod_aliases and modalias not in env.d:
                modname = self.m.mod_aliases[modalias].split(".")[-1]
                if modname in self.m.registry:
                    return self.call_fn(node, self.m.registry[modname], node.func.attr, env, stmt)
        self.fail(node, f"call of `{fname}`")

    def nested_lookup(self):
        return self.nested

    def call_nested(self, node, f, env):
        fdef, cache = self.nested[f]
        # free variables of the nested function that are locals of the enclosing one (read at call time)
        own = {a.arg for a in fdef.args.args}
        assigned = set(self.assigned_names(fdef.body))
        free = []
        for n in ast.walk(ast.Module(body=fdef.body, type_ignores=[])):
            if isinstance(n, ast.Name) and isinstance(n.ctx, ast.Load) and n.id not in own and n.id not in assigned \
                    and n.id in env.d and n.id not in free:
                free.append(n.id)
        free.sort()
        caps = []
        for nm in free:
            if env.d[nm] is None:
                self.fail(node, f"captured variable `{nm}` may be unbound at the call")
            if env.d[nm][1][0] == "R":
                self.fail(node, "nested function captures a record parameter")
            caps.append((nm, env.d[nm][1]))
        key = tuple(caps)
        if key not in cache:
            if cache:
                self.fail(node, "nested function called with captured variables of different shapes")
            sub = FnTranslator(self.m, fdef, self, caps)
            sub.used |= {self.m.namespace}
            info = sub.run()
            if info.mutated:
                self.fail(node, "nested function mutating a list parameter")
            cache[key] = info
            self.prefix_texts.append(info.text)
        info = cache[key]
        pre, vals = self.args_of(node, env)
        own_params = info.params[len(caps):]
        if len(vals) != len(own_params):
            self.fail(node, f"call of nested `{f}` with {len(vals)} arguments (defaults unsupported)")
        for v, (pn, _ln, sh) in zip(vals, own_params):
            if v[2] != sh:
                self.fail(node, f"argument `{pn}` of `{f}`: {shape_str(v[2])} given, {shape_str(sh)} expected")
        args = [env.d[nm][0] for nm, _ in caps] + [v[1] for v in vals]
        r = self.tmp()
        return pre + [("let", r, f"{info.lean_name} " + " ".join(args), None)], ("atom", r, info.ret)

    def call_fn(self, node, mod, f, env, stmt):
        try:
            info = mod.translate(f)
        except Untranslatable as e:
            self.fail(node, f"call of `{f}`, which is outside the subset [{e}]")
        if info.n_opaque:
            self.fail(node, f"call of `{f}`, which has opaque parameters")
        if mod is not self.m:
            self.m.deps.add(mod.lean_module)
        if node.keywords:
            self.fail(node, "keyword arguments")
        if len(node.args) > len(info.py_params):
            self.fail(node, f"too many arguments in call of `{f}`")
        pre, vals = [], []
        rec_arg = {}          # callee record parameter -> caller's record path
        shapes = {pn: sh for pn, _ln, sh in info.plain}
        for i, pn in enumerate(info.py_params):
            a = node.args[i] if i < len(node.args) else None
            if pn in info.record_names:
                rp = None
                if isinstance(a, ast.Name) and env.d.get(a.id) is not None and env.d[a.id][1][0] == "R":
                    rp = env.d[a.id][1][1]
                elif isinstance(a, ast.Name) and env.d.get(a.id) is not None and env.d[a.id][1][0] == "NT":
                    rp = ("nt", ("atom", env.d[a.id][0], env.d[a.id][1]))      # a named-tuple value of the caller
                elif a is not None:
                    rp = self.record_path(a, env)
                if rp is None:
                    self.fail(node, f"argument `{pn}` of `{f}` must be a record of the caller")
                rec_arg[pn] = rp
                continue
            if a is not None:
                p, v = self.expr(a, env)
            elif pn in info.defaults:
                p, v = FnTranslator(mod, mod.funcs[f], None, None).expr(info.defaults[pn], Env())
            else:
                self.fail(node, f"missing argument `{pn}` in call of `{f}`")
            if v[2] != shapes[pn]:
                self.fail(node, f"argument `{pn}` of `{f}`: {shape_str(v[2])} given, {shape_str(shapes[pn])} expected")
            pre += p
            vals.append(v)
        # the callee's record attribute parameters are the caller's attributes of the record passed
        for dotted, _ln in info.rec_paths:
            root, rest_ = dotted.split(".", 1)
            if isinstance(rec_arg[root], tuple):
                ntv = rec_arg[root][1]
                if rest_ not in NT_FIELDS[ntv[2][1]]:
                    self.fail(node, f"`{f}` reads `{dotted}`, which the named-tuple argument does not have")
                vals.append(self.nt_proj(ntv, NT_FIELDS[ntv[2][1]].index(rest_)))
                continue
            mine = rec_arg[root] + "." + rest_
            if mine not in self.record_attrs:
                self.record_attrs[mine] = self.param_name(mine.replace(".", "_").replace("()", ""))
            vals.append(("atom", self.record_attrs[mine], N))
        for dotted, _ln in info.rec_lists:
            root, rest_ = dotted.split(".", 1)
            mine = rec_arg[root] + "." + rest_
            if mine not in self.record_lists:
                self.record_lists[mine] = self.param_name(mine.replace(".", "_").replace("()", ""))
            vals.append(("atom", self.record_lists[mine], L(N)))
        for key, _ln in info.rec_bools:
            root, rest_ = key.split(".", 1)
            mine = rec_arg[root] + "." + rest_
            if mine not in self.record_bools:
                nm = mine.replace(" == ", "_is_").replace(" is None", "_is_None")
                nm = nm.split("_is_")[0] + "_is_" + nm.split("_is_")[1].split(".")[-1] if "_is_" in nm else nm
                self.record_bools[mine] = self.param_name(nm.replace(".", "_").replace("()", ""))
            vals.append(("atom", self.record_bools[mine], B))
        callee = info.lean_name if mod is self.m else info.qual
        r = self.tmp()
        if not info.mutated:
            return pre + [("let", r, f"{callee} " + " ".join(v[1] for v in vals), None)], ("atom", r, info.ret)
        # the callee mutates list arguments: they must be plain local names, which are rebound
        news = []
        for i in info.mutated:
            a = node.args[i] if i < len(node.args) else None
            if not isinstance(a, ast.Name):
                self.fail(node, f"mutated list argument of `{f}` is not a local name")
            ln = self.fresh(a.id)
            news.append((a.id, ln, info.params[i][2]))
        if info.ret == U:
            pat = news[0][1] if len(news) == 1 else "(" + ", ".join(n[1] for n in news) + ")"
            out = ("unit", "()", U)
        else:
            pat = "(" + ", ".join([r] + [n[1] for n in news]) + ")"
            out = ("atom", r, info.ret)
        pre.append(("let", pat, f"{callee} " + " ".join(v[1] for v in vals), None))
        for pn, ln, sh in news:
            env.d[pn] = (ln, sh)
        return pre, out


UNTRANSLATABLE_DECL = "Untranslatable"


def source_digest(text):
    return hashlib.sha256(text.encode()).hexdigest()[:16]


def main(argv):
    if len(argv) < 2:
        print(__doc__)
        return 2
    repo = os.environ.get("VERIF_REPO", "/repo")
    rel = argv[1]
    mod = Module(repo, rel, "Src" + "".join(p.capitalize() for p in os.path.splitext(os.path.basename(rel))[0].split("_")))
    names = argv[2:] or list(mod.funcs)
    text, status = mod.emit(names)
    print(text)
    for n, s in status.items():
        print(("OK   " if s is None else "FAIL ") + n + ("" if s is None else ": " + s), file=sys.stderr)
    return 0


if __name__ == "__main__":
    sys.exit(main(sys.argv))
