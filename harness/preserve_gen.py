"""C11 network generator: networks that mix NPU-supported operators with operators Vela must leave on
the CPU, with the interface features the property quantifies over: several subgraph outputs, several
inputs, duplicated operands, dynamic weights, third-party custom operators (with custom_options, several
inputs/outputs, different custom codes), float detours, unsupported data types / ranks / batch, operator
versions > 1, optional (-1) operands, dead operators, constant-only operators, SHAPE, pooling whose kernel
equals the feature map, duplicated entries in the subgraph input/output lists, duplicate tensor names.

Every network carries `net.features` (a set of strings) so the check can count what occurred."""
import numpy as np

import netgen
from netgen import B, Op, T, TT


def _q(b, t):
    tt = b.t(t)
    return tt.dtype in ("int8", "uint8", "int16") and tt.scales is not None


def _rank4(b, t):
    return len(b.t(t).shape) == 4


def third_party(b, xs, n_out=1, code=None, feats=None):
    rng = b.rng
    code = code or rng.choice(["ThirdPartyOp", "TFLite_Detection_PostProcess", "my.custom/op v2", "ethos-u2"])
    xt = b.t(xs[0])
    outs = []
    for _ in range(n_out):
        if xt.scales is not None:
            outs.append(b.fm(xt.shape, xt.dtype, scale=xt.scales[0], zp=xt.zps[0]))
        else:
            outs.append(b.net.add(T(b.fresh("t"), xt.shape, xt.dtype)))
    nopt = rng.choice([0, 1, 3, 12, 40, 40])
    co = bytes(rng.getrandbits(8) for _ in range(nopt))
    if rng.random() < 0.08:
        co = None           # no custom_options vector at all
        feats.add("custom_options_absent")
    b.net.ops.append(Op("CUSTOM", list(xs), outs, None, custom_code=code, custom_options=co, version=rng.choice([1, 1, 2, 7])))
    feats.add("third_party_custom")
    if co:
        feats.add("custom_options_nonempty")
    if n_out > 1:
        feats.add("custom_multi_output")
    if len(xs) > 1:
        feats.add("custom_multi_input")
    return outs


def cpu_segment(b, cur, feats, live):
    """Append one CPU-resident construct after tensor `cur`; returns the new current tensor."""
    rng = b.rng
    xt = b.t(cur)
    kinds = ["custom", "custom2", "float_detour", "floor_div", "cast", "neg", "reverse", "int32_detour", "rank5", "batch2",
             "dyn_conv", "dyn_fc", "custom_const_in", "const_only", "shape_use", "pool_global_cpu", "topk_like", "opt_missing",
             "const_conv_cpu", "const_conv_cpu", "float_fc_const", "tconv_cpu", "custom_mid_missing", "custom_mid_missing",
             "svdf_float", "tconv_mid_missing"]
    # operators of a kind some rewrite pass reads, kept off the NPU (reject_gen.REWRITES); --force-symmetric-int-weights cases;
    # RESHAPE-like operators on the CPU (dimension > 65535, -1 in shape operand / new_shape, run-time or absent shape operand)
    kinds += ["rejected"] * 12 + ["fsym"] * 5 + ["reshape_cpu"] * 4
    kind = rng.choice(kinds)
    b.net.desc.append("cpu:" + kind)
    if kind in ("rejected", "fsym", "reshape_cpu"):
        import reject_gen

        new = {"rejected": reject_gen.rejected_op, "fsym": reject_gen.fsym_op, "reshape_cpu": reject_gen.reshape_cpu}[kind](b, cur, feats, live)
        if new is not None:
            return new
        kind = "custom"
    if not _q(b, cur):
        kind = "custom"
    if kind == "custom":
        return third_party(b, [cur], 1, feats=feats)[0]
    if kind == "custom2":
        other = rng.choice(live)
        o = third_party(b, [cur, other], 2, feats=feats)
        live.append(o[1])
        return o[0]
    if kind == "float_detour":
        f = b.fm(xt.shape, "float32")
        b.net.ops.append(Op("DEQUANTIZE", [cur], [f], ("DequantizeOptions", {}), version=rng.choice([1, 2])))
        g = b.fm(xt.shape, "float32")
        b.net.ops.append(Op(rng.choice(["SIN", "COS", "FLOOR", "SQRT", "CEIL", "ROUND"]), [f], [g]))
        if rng.random() < 0.4:
            c = b.const([1], "float32", [rng.choice([0.5, 2.0, -1.25])])
            h = b.fm(xt.shape, "float32")
            b.net.ops.append(Op(rng.choice(["ADD", "MUL", "SUB", "DIV"]), [g, c] if rng.random() < 0.5 else [c, g], [h], None))
            # options attached below (needs the kind that was drawn)
            k = b.net.ops[-1].kind
            b.net.ops[-1].opts = ({"ADD": "AddOptions", "MUL": "MulOptions", "SUB": "SubOptions", "DIV": "DivOptions"}[k],
                                  dict(FusedActivationFunction=rng.choice([0, 1, 3])))
            feats.add("float_binary_const_operand")
            g = h
        o = b.fm(xt.shape, xt.dtype)
        b.net.ops.append(Op("QUANTIZE", [g], [o], ("QuantizeOptions", {})))
        feats.add("float_detour")
        return o
    if kind == "floor_div":
        c = b.const(xt.shape[-1:], xt.dtype, np.full(xt.shape[-1:], 3), xt.scales, xt.zps, 0)
        o = b.fm(xt.shape, xt.dtype, scale=xt.scales[0], zp=xt.zps[0])
        args = [cur, c] if rng.random() < 0.5 else [c, cur]
        b.net.ops.append(Op(rng.choice(["FLOOR_DIV", "FLOOR_MOD", "POW"]), args, [o], None))
        b.net.ops[-1].opts = ({"FLOOR_DIV": "FloorDivOptions", "FLOOR_MOD": "FloorModOptions", "POW": "PowOptions"}[b.net.ops[-1].kind], {})
        feats.add("unsupported_type_const_operand")
        return o
    if kind == "cast":
        mid = rng.choice(["float32", "int32", "bool", "int64"])
        f = b.net.add(T(b.fresh("t"), xt.shape, mid))
        b.net.ops.append(Op("CAST", [cur], [f], ("CastOptions", dict(InDataType=TT[xt.dtype], OutDataType=TT[mid]))))
        o = b.fm(xt.shape, xt.dtype)
        b.net.ops.append(Op("CAST", [f], [o], ("CastOptions", dict(InDataType=TT[mid], OutDataType=TT[xt.dtype]))))
        feats.add("unsupported_dtype_" + mid)
        return o
    if kind == "neg":
        o = b.fm(xt.shape, xt.dtype, scale=xt.scales[0], zp=xt.zps[0])
        b.net.ops.append(Op(rng.choice(["NEG", "SQUARE", "ELU", "LOGICAL_NOT", "SIGN"]), [cur], [o], None, version=rng.choice([1, 1, 3])))
        return o
    if kind == "reverse":
        ax = b.const([1], "int32", [len(xt.shape) - 1], name=b.fresh("axis"))
        o = b.fm(xt.shape, xt.dtype, scale=xt.scales[0], zp=xt.zps[0])
        b.net.ops.append(Op("REVERSE_V2", [cur, ax], [o], ("ReverseV2Options", {}), version=rng.choice([1, 2, 3])))
        return o
    if kind == "int32_detour":
        f = b.net.add(T(b.fresh("t"), xt.shape, "int32"))
        b.net.ops.append(Op("CAST", [cur], [f], ("CastOptions", dict(InDataType=TT[xt.dtype], OutDataType=2))))
        g = b.net.add(T(b.fresh("t"), xt.shape, "int32"))
        c = b.const([1], "int32", [rng.randint(-5, 5)])
        b.net.ops.append(Op(rng.choice(["ADD", "MUL", "SUB", "MAXIMUM"]), [f, c], [g], None))
        k = b.net.ops[-1].kind
        b.net.ops[-1].opts = ({"ADD": "AddOptions", "MUL": "MulOptions", "SUB": "SubOptions", "MAXIMUM": "MaximumMinimumOptions"}[k],
                              dict(FusedActivationFunction=0) if k != "MAXIMUM" else {})
        o = b.fm(xt.shape, xt.dtype)
        b.net.ops.append(Op("CAST", [g], [o], ("CastOptions", dict(InDataType=2, OutDataType=TT[xt.dtype]))))
        feats.add("unsupported_dtype_int32")
        return o
    if kind == "rank5":
        shp5 = [1] + list(xt.shape)
        r5 = b.reshape(cur, shp5)
        o5 = b.fm(shp5, xt.dtype)
        b.net.ops.append(Op(rng.choice(["ADD", "MUL"]), [r5, r5], [o5], None))
        b.net.ops[-1].opts = ({"ADD": "AddOptions", "MUL": "MulOptions"}[b.net.ops[-1].kind], dict(FusedActivationFunction=0))
        o = b.reshape(o5, list(xt.shape))
        feats.add("unsupported_rank5")
        return o
    if kind == "batch2" and _rank4(b, cur) and xt.shape[1] % 2 == 0:
        n, h, w, c = xt.shape
        r = b.reshape(cur, [2, h // 2, w, c])
        o2 = b.pool(r, rng.choice(["MAX_POOL_2D", "AVERAGE_POOL_2D"]), (1, 1), (1, 1), "VALID")
        o = b.reshape(o2, [n, h, w, c])
        feats.add("unsupported_batch2")
        return o
    if kind == "dyn_conv" and _rank4(b, cur) and xt.shape[3] <= 16:
        n, h, w, c = xt.shape
        oc = rng.choice([1, 4, 8])
        wt = b.fm([oc, 1, 1, c], "int8" if xt.dtype != "uint8" else "uint8", name=b.fresh("input"))
        b.net.inputs.append(wt)
        bias = rng.random() < 0.6
        ins = [cur, wt]
        if bias:
            ins.append(b.const([oc], "int32" if xt.dtype != "int16" else "int64", np.arange(oc), [0.001], [0]))
        elif rng.random() < 0.5:
            ins.append(-1)
            feats.add("optional_operand_minus1")
        y = b.fm([n, h, w, oc], xt.dtype)
        b.net.ops.append(Op("CONV_2D", ins, [y], ("Conv2DOptions", dict(
            Padding=0, StrideW=1, StrideH=1, DilationWFactor=1, DilationHFactor=1, FusedActivationFunction=rng.choice([0, 1, 3]))),
            version=rng.choice([1, 3, 5])))
        feats.add("dynamic_weights_conv")
        return y
    if kind == "dyn_fc":
        ic = xt.shape[-1]
        nrow = int(np.prod(xt.shape[:-1]))
        oc = rng.choice([2, 5, 8])
        flat = b.reshape(cur, [nrow, ic])
        wt = b.fm([oc, ic], "int8" if xt.dtype != "uint8" else "uint8", name=b.fresh("input"))
        b.net.inputs.append(wt)
        ins = [flat, wt]
        r = rng.random()
        if r < 0.4:
            ins.append(-1)
            feats.add("optional_operand_minus1")
        elif r < 0.8:
            ins.append(b.const([oc], "int32" if xt.dtype != "int16" else "int64", np.arange(oc), [0.001], [0]))
        y = b.fm([nrow, oc], xt.dtype)
        b.net.ops.append(Op("FULLY_CONNECTED", ins, [y], ("FullyConnectedOptions", dict(
            FusedActivationFunction=rng.choice([0, 1]), KeepNumDims=rng.random() < 0.3)), version=rng.choice([1, 2, 4, 9])))
        feats.add("dynamic_weights_fc")
        return y
    if kind == "const_conv_cpu" and _rank4(b, cur) and xt.shape[3] <= 16:
        # convolution with *constant* weights that must stay on the CPU (stride 4, or asymmetric int8 weights): the reader
        # swaps weights and bias for reshaped clones, the writer has to put the original tensors back
        n, h, w, c = xt.shape
        oc = rng.choice([2, 4, 8])
        why = rng.choice(["stride4", "asym_weights", "dw_stride4"]) if xt.dtype != "uint8" else rng.choice(["stride4", "dw_stride4"])
        wd = "int8" if xt.dtype != "uint8" else "uint8"
        s = 4 if "stride4" in why else 1
        if why == "dw_stride4":
            wt = b.const([1, 1, 1, c], wd, b.rand_weights([1, 1, 1, c], wd), [0.02], [0 if wd == "int8" else 128], 3, b.fresh("w"))
            oc = c
        else:
            wz = [0 if wd == "int8" else 128] if why != "asym_weights" else [rng.choice([-7, 3, 100])]
            wt = b.const([oc, 1, 1, c], wd, b.rand_weights([oc, 1, 1, c], wd), [0.02], wz, 0, b.fresh("w"))
        bt = b.const([oc], "int32" if xt.dtype != "int16" else "int64", np.arange(oc) - 1, [0.001], [0], 0, b.fresh("b"))
        y = b.fm([n, -(-h // s), -(-w // s), oc], xt.dtype)
        if why == "dw_stride4":
            b.net.ops.append(Op("DEPTHWISE_CONV_2D", [cur, wt, bt], [y], ("DepthwiseConv2DOptions", dict(
                Padding=0, StrideW=s, StrideH=s, DepthMultiplier=1, DilationWFactor=1, DilationHFactor=1, FusedActivationFunction=rng.choice([0, 1])))))
        else:
            b.net.ops.append(Op("CONV_2D", [cur, wt, bt] if rng.random() < 0.8 else [cur, wt], [y], ("Conv2DOptions", dict(
                Padding=0, StrideW=s, StrideH=s, DilationWFactor=1, DilationHFactor=1, FusedActivationFunction=rng.choice([0, 1, 3])))))
        feats.add("const_weights_conv_on_cpu_" + why)
        return y
    if kind == "float_fc_const":
        ic = xt.shape[-1]
        nrow = int(np.prod(xt.shape[:-1]))
        oc = rng.choice([3, 8])
        f = b.net.add(T(b.fresh("t"), xt.shape, "float32"))
        b.net.ops.append(Op("DEQUANTIZE", [cur], [f], ("DequantizeOptions", {})))
        f2 = b.net.add(T(b.fresh("t"), [nrow, ic], "float32"))
        shp = b.const([2], "int32", [nrow, ic], name=b.fresh("shape"))
        b.net.ops.append(Op("RESHAPE", [f, shp], [f2], ("ReshapeOptions", dict(NewShape=[nrow, ic]))))
        wt = b.const([oc, ic], "float32", np.linspace(-1, 1, oc * ic), name=b.fresh("w"))
        bt = b.const([oc], "float32", np.linspace(0, 1, oc), name=b.fresh("b"))
        g = b.net.add(T(b.fresh("t"), [nrow, oc], "float32"))
        b.net.ops.append(Op("FULLY_CONNECTED", [f2, wt, bt], [g], ("FullyConnectedOptions", dict(FusedActivationFunction=rng.choice([0, 1])))))
        o = b.fm([nrow, oc], xt.dtype)
        b.net.ops.append(Op("QUANTIZE", [g], [o], ("QuantizeOptions", {})))
        feats.add("const_weights_fc_on_cpu_float")
        feats.add("float_detour")
        return o
    if kind == "tconv_cpu" and _rank4(b, cur) and xt.shape[1] * xt.shape[2] <= 64 and xt.shape[3] <= 16:
        # TRANSPOSE_CONV kept off the NPU by stride 3, with a fused activation
        n, h, w, c = xt.shape
        oc = rng.choice([2, 4])
        wd = "int8" if xt.dtype != "uint8" else "uint8"
        wt = b.const([oc, 3, 3, c], wd, b.rand_weights([oc, 3, 3, c], wd), [0.02], [0 if wd == "int8" else 128], 0, b.fresh("w"))
        os_ = b.const([4], "int32", [n, h * 3, w * 3, oc], name=b.fresh("oshape"))
        bt = b.const([oc], "int32" if xt.dtype != "int16" else "int64", np.arange(oc), [0.001], [0], 0, b.fresh("b"))
        y = b.fm([n, h * 3, w * 3, oc], xt.dtype)
        act = rng.choice([0, 1, 3])
        b.net.ops.append(Op("TRANSPOSE_CONV", [os_, wt, cur, bt], [y], ("TransposeConvOptions", dict(
            Padding=0, StrideW=3, StrideH=3, FusedActivationFunction=act)), version=rng.choice([1, 3])))
        feats.add("transpose_conv_on_cpu" + ("_fused_activation" if act else ""))
        return y
    if kind == "custom_mid_missing":
        # third-party operator with an omitted optional operand (-1) *before* a real operand: [a, -1, c] (also [-1, a], [a, -1, -1, c])
        other = rng.choice(live)
        ins = rng.choice([[cur, -1, other], [-1, cur], [cur, -1, -1, other], [cur, other, -1, cur]])
        o = b.fm(xt.shape, xt.dtype, scale=xt.scales[0], zp=xt.zps[0])
        b.net.ops.append(Op("CUSTOM", ins, [o], None, custom_code=rng.choice(["OptionalMiddle", "ThirdPartyOp"]),
                            custom_options=bytes(rng.getrandbits(8) for _ in range(rng.choice([2, 5, 9])))))
        feats.add("third_party_custom")
        feats.add("omitted_operand_before_real_operand")
        return o
    if kind == "svdf_float":
        # float SVDF on the CPU: [input, weights_feature, weights_time, bias = -1, state (variable)]
        isz = xt.shape[-1]
        batch = int(np.prod(xt.shape[:-1]))
        rank, units, mem = 1, rng.choice([2, 3]), rng.choice([2, 4])
        nf = units * rank
        f = b.net.add(T(b.fresh("t"), xt.shape, "float32"))
        b.net.ops.append(Op("DEQUANTIZE", [cur], [f], ("DequantizeOptions", {})))
        f2 = b.net.add(T(b.fresh("t"), [batch, isz], "float32"))
        shp = b.const([2], "int32", [batch, isz], name=b.fresh("shape"))
        b.net.ops.append(Op("RESHAPE", [f, shp], [f2], ("ReshapeOptions", dict(NewShape=[batch, isz]))))
        wf = b.const([nf, isz], "float32", np.linspace(-1, 1, nf * isz), name=b.fresh("wf"))
        wt = b.const([nf, mem], "float32", np.linspace(0, 1, nf * mem), name=b.fresh("wt"))
        state = b.net.add(T(b.fresh("state"), [batch, mem * nf], "float32", variable=True))
        with_bias = rng.random() < 0.25
        bias = b.const([units], "float32", np.zeros(units), name=b.fresh("b")) if with_bias else -1
        g = b.net.add(T(b.fresh("t"), [batch, units], "float32"))
        b.net.ops.append(Op("SVDF", [f2, wf, wt, bias, state], [g], ("SVDFOptions", dict(Rank=rank, FusedActivationFunction=rng.choice([0, 1])))))
        o = b.fm([batch, units], xt.dtype)
        b.net.ops.append(Op("QUANTIZE", [g], [o], ("QuantizeOptions", {})))
        feats.add("svdf_float_cpu")
        feats.add("variable_tensor_operand")
        if not with_bias:
            feats.add("omitted_operand_before_real_operand")
        return o
    if kind == "tconv_mid_missing" and _rank4(b, cur) and xt.shape[1] * xt.shape[2] <= 64 and xt.shape[3] <= 8:
        # float TRANSPOSE_CONV with the bias slot omitted but followed by a further (fifth) operand
        n, h, w, c = xt.shape
        oc = 2
        f = b.net.add(T(b.fresh("t"), xt.shape, "float32"))
        b.net.ops.append(Op("DEQUANTIZE", [cur], [f], ("DequantizeOptions", {})))
        wt = b.const([oc, 2, 2, c], "float32", np.linspace(-1, 1, oc * 4 * c), name=b.fresh("w"))
        os_ = b.const([4], "int32", [n, h * 2, w * 2, oc], name=b.fresh("oshape"))
        extra = b.const([1], "float32", [0.0], name=b.fresh("extra"))
        g = b.net.add(T(b.fresh("t"), [n, h * 2, w * 2, oc], "float32"))
        b.net.ops.append(Op("TRANSPOSE_CONV", [os_, wt, f, -1, extra], [g], ("TransposeConvOptions", dict(
            Padding=0, StrideW=2, StrideH=2, FusedActivationFunction=rng.choice([0, 1])))))
        o = b.fm([n, h * 2, w * 2, oc], xt.dtype)
        b.net.ops.append(Op("QUANTIZE", [g], [o], ("QuantizeOptions", {})))
        feats.add("omitted_operand_before_real_operand")
        feats.add("float_detour")
        return o
    if kind == "custom_const_in":
        c = b.const(xt.shape[-1:], xt.dtype, np.arange(xt.shape[-1]) % 100, xt.scales, xt.zps, 0)
        return third_party(b, [cur, c] if rng.random() < 0.5 else [c, cur], 1, feats=feats)[0]
    if kind == "const_only":
        # an operator all of whose inputs are constants, feeding a CPU operator and (maybe) an NPU one
        shp = [1, 1, 1, xt.shape[-1]] if _rank4(b, cur) else list(xt.shape)
        which = rng.choice(["custom", "quantize_same", "quantize_float", "neg"])
        if which == "quantize_float":
            c = b.const(shp, "float32", np.linspace(-1, 1, int(np.prod(shp))))
        else:
            c = b.const(shp, xt.dtype, (np.arange(int(np.prod(shp))) % 50) - 10 * (xt.dtype != "uint8"), [netgen.rand_scale(rng)],
                        [netgen.rand_zp(rng, xt.dtype)])
        k = b.fm(shp, xt.dtype)
        if which == "custom":
            b.net.ops.append(Op("CUSTOM", [c], [k], None, custom_code="ConstGen", custom_options=b"\x01\x02"))
        elif which.startswith("quantize"):
            b.net.ops.append(Op("QUANTIZE", [c], [k], ("QuantizeOptions", {})))
        else:
            b.net.ops.append(Op("NEG", [c], [k], ("NegOptions", {})))
        feats.add("const_only_op_" + which)
        o = b.binary(rng.choice(["ADD", "MUL", "SUB"]), cur, k)
        if rng.random() < 0.5:
            o = third_party(b, [o, k], 1, feats=feats)[0]
        return o
    if kind == "shape_use":
        s = b.net.add(T(b.fresh("shape_out"), [len(xt.shape)], "int32"))
        b.net.ops.append(Op("SHAPE", [cur], [s], ("ShapeOptions", dict(OutType=2))))
        o = b.fm(xt.shape, xt.dtype, scale=xt.scales[0], zp=xt.zps[0])
        if rng.random() < 0.5:
            b.net.ops.append(Op("RESHAPE", [cur, s], [o], ("ReshapeOptions", dict(NewShape=list(xt.shape)))))
            feats.add("shape_feeds_reshape")
        else:
            b.net.ops.append(Op("CUSTOM", [cur, s], [o], None, custom_code="UsesShape", custom_options=b"shape"))
            feats.add("shape_feeds_custom")
        return o
    if kind == "pool_global_cpu" and _rank4(b, cur):
        # kernel == stride == feature map (fixup_pool_strides territory) but kept off the NPU by a float / batch detour
        n, h, w, c = xt.shape
        if rng.random() < 0.5:
            f = b.fm(xt.shape, "float32")
            b.net.ops.append(Op("DEQUANTIZE", [cur], [f], ("DequantizeOptions", {})))
            g = b.fm([n, 1, 1, c], "float32")
            b.net.ops.append(Op(rng.choice(["MAX_POOL_2D", "AVERAGE_POOL_2D"]), [f], [g], ("Pool2DOptions", dict(
                Padding=rng.choice([0, 1]), StrideW=w, StrideH=h, FilterWidth=w, FilterHeight=h, FusedActivationFunction=0))))
            o = b.fm([n, 1, 1, c], xt.dtype)
            b.net.ops.append(Op("QUANTIZE", [g], [o], ("QuantizeOptions", {})))
            feats.add("global_pool_float_cpu")
        elif h % 2 == 0 and rng.random() < 0.7:
            # quantised, kept on the CPU by batch 2 (fixup_pool_strides has already rewritten its options by then)
            r = b.reshape(cur, [2, h // 2, w, c])
            p = b.fm([2, 1, 1, c], xt.dtype, scale=xt.scales[0], zp=xt.zps[0])
            b.net.ops.append(Op(rng.choice(["MAX_POOL_2D", "AVERAGE_POOL_2D"]), [r], [p], ("Pool2DOptions", dict(
                Padding=rng.choice([0, 1]), StrideW=w, StrideH=h // 2, FilterWidth=w, FilterHeight=h // 2, FusedActivationFunction=0))))
            o = b.reshape(p, [1, 2, 1, c])
            feats.add("global_pool_batch2_cpu")
        else:
            o = b.fm([n, 1, 1, c], xt.dtype, scale=xt.scales[0], zp=xt.zps[0])
            b.net.ops.append(Op(rng.choice(["MAX_POOL_2D", "AVERAGE_POOL_2D"]), [cur], [o], ("Pool2DOptions", dict(
                Padding=rng.choice([0, 1]), StrideW=w, StrideH=h, FilterWidth=w, FilterHeight=h, FusedActivationFunction=0))))
            feats.add("global_pool_quantised")
        return o
    if kind == "topk_like":
        # two-output builtin operator left on the CPU: UNPACK along the batch axis of a [2, ...] reshape, or SPLIT_V
        if xt.shape[-1] % 2 == 0 and xt.shape[-1] >= 2:
            half = list(xt.shape[:-1]) + [xt.shape[-1] // 2]
            sizes = b.const([2], "int32", [half[-1], half[-1]])
            axis = b.const([], "int32", [len(xt.shape) - 1])
            o1 = b.fm(half, xt.dtype, scale=xt.scales[0], zp=xt.zps[0])
            o2 = b.fm(half, xt.dtype, scale=xt.scales[0], zp=xt.zps[0])
            f = b.net.add(T(b.fresh("t"), xt.shape, "float32"))
            b.net.ops.append(Op("DEQUANTIZE", [cur], [f], ("DequantizeOptions", {})))
            f1 = b.net.add(T(b.fresh("t"), half, "float32"))
            f2 = b.net.add(T(b.fresh("t"), half, "float32"))
            b.net.ops.append(Op("SPLIT_V", [f, sizes, axis], [f1, f2], ("SplitVOptions", dict(NumSplits=2))))
            b.net.ops.append(Op("QUANTIZE", [f1], [o1], ("QuantizeOptions", {})))
            b.net.ops.append(Op("QUANTIZE", [f2], [o2], ("QuantizeOptions", {})))
            live.append(o2)
            feats.add("builtin_multi_output_cpu")
            return o1
        return third_party(b, [cur], 1, feats=feats)[0]
    if kind == "opt_missing":
        # builtin operator on the CPU whose option table is absent in the source
        o = b.fm(xt.shape, xt.dtype, scale=xt.scales[0], zp=xt.zps[0])
        b.net.ops.append(Op(rng.choice(["NEG", "EXP", "FLOOR_MOD", "SQUARE"]) if xt.dtype != "int8" else "NEG", [cur, cur][:1], [o], None))
        feats.add("options_absent_in_source")
        return o
    return third_party(b, [cur], 1, feats=feats)[0]


def npu_segment(b, cur, feats, live):
    rng = b.rng
    xt = b.t(cur)
    if not (_q(b, cur) and _rank4(b, cur)):
        return None
    n, h, w, c = xt.shape
    kind = rng.choice(["conv", "conv1x1", "dwconv", "maxpool", "avgpool", "add_self", "add_skip", "mul_const", "relu", "sigmoid",
                       "tanh", "lrelu", "concat2", "pad", "slice", "split_concat", "softmax", "reshape_pair", "minmax", "resize", "fc",
                       "resize_same"])
    b.net.desc.append(kind)
    if kind == "conv":
        k = rng.choice([(1, 1), (3, 3), (3, 3), (2, 2), (1, 3)])
        return b.conv(cur, rng.choice([4, 8, 16]), k, rng.choice([(1, 1), (1, 1), (2, 2)]), (1, 1), rng.choice(["SAME", "VALID"]),
                      act=rng.choice([0, 1, 3]))
    if kind == "conv1x1":
        return b.conv(cur, rng.choice([8, 16, 32]), (1, 1), (1, 1), (1, 1), "SAME", act=rng.choice([0, 1]))
    if kind == "dwconv":
        return b.dwconv(cur, rng.choice([(3, 3), (2, 2), (1, 1)]), rng.choice([(1, 1), (2, 2)]), (1, 1), rng.choice(["SAME", "VALID"]))
    if kind in ("maxpool", "avgpool"):
        return b.pool(cur, "MAX_POOL_2D" if kind == "maxpool" else "AVERAGE_POOL_2D", rng.choice([(2, 2), (3, 3), (1, 1)]),
                      rng.choice([(1, 1), (2, 2)]), rng.choice(["SAME", "VALID"]))
    if kind == "add_self":
        feats.add("duplicated_operand")
        return b.binary(rng.choice(["ADD", "SUB", "MUL"]), cur, cur)
    if kind == "add_skip":
        cands = [t for t in live if b.t(t).shape == xt.shape and b.t(t).dtype == xt.dtype and b.t(t).scales]
        if not cands:
            return None
        return b.binary(rng.choice(["ADD", "SUB", "MUL"]), cur, rng.choice(cands), act=rng.choice([0, 1]))
    if kind == "mul_const":
        shp = rng.choice([[1, 1, 1, c], [1, 1, 1, 1]])
        lo, hi = netgen._qrange(xt.dtype)
        r = np.random.RandomState(rng.getrandbits(32))
        c2 = b.const(shp, xt.dtype, r.randint(lo, hi + 1, int(np.prod(shp))), [netgen.rand_scale(rng)], [netgen.rand_zp(rng, xt.dtype)])
        args = (cur, c2) if rng.random() < 0.6 else (c2, cur)
        return b.binary(rng.choice(["MUL", "ADD", "SUB"]), *args)
    if kind == "relu":
        return b.unary(rng.choice(["RELU", "RELU6"]), cur)
    if kind == "sigmoid":
        return b.unary("LOGISTIC", cur)
    if kind == "tanh":
        return b.unary("TANH", cur)
    if kind == "lrelu":
        return b.unary("LEAKY_RELU", cur)
    if kind == "softmax":
        return b.unary("SOFTMAX", cur)
    if kind == "concat2":
        cands = [t for t in live if len(b.t(t).shape) == 4 and b.t(t).shape[:3] == xt.shape[:3] and b.t(t).dtype == xt.dtype and b.t(t).scales]
        if not cands:
            return None
        return b.concat([cur, rng.choice(cands)], 3)
    if kind == "pad":
        return b.pad(cur, [[0, 0], [rng.randint(0, 2), rng.randint(0, 2)], [rng.randint(0, 2), rng.randint(0, 2)], [0, 0]])
    if kind == "slice" and h >= 2 and w >= 2:
        b0, b1 = rng.randint(0, h - 1), rng.randint(0, w - 1)
        return b.strided_slice(cur, [0, b0, b1, 0], [1, rng.randint(b0 + 1, h), rng.randint(b1 + 1, w), c])
    if kind == "split_concat" and c % 2 == 0:
        o1, o2 = b.split(cur, 2, 3)
        o1 = b.unary("RELU", o1)
        return b.concat([o2, o1], 3)
    if kind == "reshape_pair":
        r = b.reshape(cur, [1, h * w, 1, c] if rng.random() < 0.5 else [1, 1, h * w, c])
        r = b.unary("RELU", r)
        return b.reshape(r, [n, h, w, c])
    if kind == "minmax":
        return b.binary(rng.choice(["MINIMUM", "MAXIMUM"]), cur, cur)
    if kind == "resize" and h * w <= 64:
        return b.resize(cur, 2, rng.choice(["RESIZE_BILINEAR", "RESIZE_NEAREST_NEIGHBOR"]))
    if kind == "resize_same":
        # resize to the size it already has: Vela turns it into a no-op; its result must survive (name, consumers)
        st = b.const([2], "int32", [h, w], name=b.fresh("size"))
        o = b.fm(xt.shape, xt.dtype, scale=xt.scales[0], zp=xt.zps[0])
        rk = rng.choice(["RESIZE_BILINEAR", "RESIZE_NEAREST_NEIGHBOR"])
        b.net.ops.append(Op(rk, [cur, st], [o], ("ResizeBilinearOptions" if rk == "RESIZE_BILINEAR" else "ResizeNearestNeighborOptions",
                                                 dict(AlignCorners=False, HalfPixelCenters=False))))
        feats.add("resize_to_same_size")
        return o
    if kind == "fc":
        flat = b.reshape(cur, [1, h * w * c])
        if h * w * c > 4096:
            return None
        y = b.fc(flat, rng.choice([8, 16]))
        return b.reshape(y, [1, 1, 1, b.t(y).shape[-1]])
    return None


def c11_net(rng, idx=0):
    dtype = rng.choice(["int8", "int8", "int8", "uint8", "int16"])
    b = B(rng, f"c11_{idx}", dtype)
    feats = set()
    h, w, c = rng.randint(2, 14), rng.randint(2, 14), rng.choice([2, 3, 4, 8, 16])
    b.set_extremes(0.15)
    x = b.input([1, h, w, c])
    b.net.desc.append(f"c11 dtype={dtype} in={[1, h, w, c]}")
    live = [x]
    if rng.random() < 0.3:
        x2 = b.input([1, h, w, c])
        live.append(x2)
        feats.add("two_feature_inputs")
    cur = x
    pattern = rng.choice(["NCN", "CNC", "NCNCN", "CN", "NC", "C", "NNCNN", "CC", "NCCN"])
    for ch in pattern:
        for _ in range(rng.randint(1, 2)):
            new = (npu_segment if ch == "N" else cpu_segment)(b, cur, feats, live)
            if new is None:
                b.net.desc[-1] += ":skipped"
                continue
            cur = new
            live.append(cur)
    if cur == x:
        cur = third_party(b, [x], 1, feats=feats)[0]
        live.append(cur)
    outs = [cur]
    # several outputs taken from the middle (including outputs of NPU operators that are also consumed)
    mids = [t for t in live[1:-1] if t not in b.net.inputs]
    for _ in range(rng.choice([0, 0, 1, 1, 2, 3])):
        if mids:
            e = rng.choice(mids)
            if e not in outs:
                outs.append(e)
                feats.add("multiple_outputs")
    for e in getattr(b, "extra_outputs", []):
        if e not in outs:
            outs.append(e)          # side results of rejected operators (second SPLIT / UNPACK result, big RESHAPE branch)
            feats.add("multiple_outputs")
    if rng.random() < 0.5:
        rng.shuffle(outs)
    # a dead branch: operators that do not reach any output
    if rng.random() < 0.2:
        d = b.unary("RELU", rng.choice(live)) if _q(b, live[-1]) and all(_q(b, t) for t in live) else None
        if d is not None:
            third_party(b, [d], 1, code="DeadOp", feats=feats)
            feats.add("dead_operators")
    net = b.finish(outs)
    r = rng.random()
    if r < 0.06:
        net.outputs = net.outputs + [net.outputs[0]]
        feats.add("duplicated_subgraph_output_entry")
    elif r < 0.12:
        net.inputs = net.inputs + [net.inputs[0]]
        feats.add("duplicated_subgraph_input_entry")
    elif r < 0.16:
        # two different tensors with the same name (a constant and a feature map that are both used)
        named = [t for t in net.tensors]
        if len(named) >= 4:
            a, c2 = rng.sample(range(len(named)), 2)
            net.tensors[a].name = net.tensors[c2].name
            feats.add("duplicate_tensor_names")
    elif r < 0.20:
        # an input that is also an output
        net.outputs = net.outputs + [net.inputs[0]]
        feats.add("input_is_output")
    # operator versions above 1 on a random subset
    for o in net.ops:
        if rng.random() < 0.1:
            o.version = rng.choice([2, 3, 4])
            feats.add("operator_version_gt1")
    if len(net.inputs) > 1:
        feats.add("multiple_inputs")
    # quantisation min/max (as written by converters that keep the calibration range) on all / some quantised tensors
    r = rng.random()
    if r < 0.55:
        some = r >= 0.4
        for t in net.tensors:
            if t.scales is not None and len(t.scales) == 1 and t.dtype in ("int8", "uint8", "int16") and not (some and rng.random() < 0.5):
                lo, hi = netgen._qrange(t.dtype)
                z = (t.zps or [0])[0]
                t.qmin = [float(np.float32(t.scales[0] * (lo - z)))]
                t.qmax = [float(np.float32(t.scales[0] * (hi - z)))]
                feats.add("quantisation_min_max")
    unusual_encodings(rng, net, feats)
    if getattr(b, "want_fsym", False):
        net.extra_opts = ["--force-symmetric-int-weights"]
    if b.extreme:
        feats.add("quantisation_extremes")
    net.features = feats
    return net


def unusual_encodings(rng, net, feats):
    """Legal but unusual encodings (netgen.ENCODINGS) on tensors that survive into the output: subgraph inputs / outputs and
    operands of operators, so that a reader/writer that mis-reads an absent optional field is seen. About 45 % of the networks
    get one to three of them."""
    if rng.random() >= 0.45:
        return
    used = sorted({i for o in net.ops for i in list(o.inputs) + list(o.outputs) if i >= 0} | set(net.inputs) | set(net.outputs))
    io = sorted(set(net.inputs) | set(net.outputs))
    names = [t.name for t in net.tensors]

    def pick(pred):
        pool = [i for i in (io if rng.random() < 0.5 else used) if pred(net.tensors[i]) and not getattr(net.tensors[i], "enc", None)]
        return rng.choice(pool) if pool else None

    def quantised(t):
        return t.scales is not None and len(t.scales) == 1 and t.dtype in ("int8", "uint8", "int16")

    def plain(t):
        return t.scales is None and t.data is None and getattr(t, "qmin", None) is None

    for kind in rng.sample(["no_zp", "no_zp", "no_scale", "empty_qvectors", "empty_quant_table", "minmax_only", "qdim_per_tensor",
                            "no_name", "no_shape", "shape_signature", "empty_data_buffer", "own_empty_buffer", "net"], rng.randint(1, 3)):
        if kind == "no_zp":
            # scale present, zero_point vector absent (= zero point 0)
            i = pick(quantised)
            if i is not None:
                net.tensors[i].zps = [0]
                if getattr(net.tensors[i], "qmin", None) is not None:
                    net.tensors[i].qmin = net.tensors[i].qmax = None
                net.tensors[i].enc = {"no_zp"}
                feats.add("enc_scale_without_zero_point")
        elif kind == "no_scale":
            # zero_point without scale, on a tensor that is not quantised (float / int32 / bool): carries no meaning
            i = pick(plain)
            if i is not None:
                net.tensors[i].scales, net.tensors[i].zps = [1.0], [rng.choice([0, 0, 3])]
                net.tensors[i].enc = {"no_scale"}
                feats.add("enc_zero_point_without_scale")
        elif kind in ("empty_qvectors", "empty_quant_table"):
            i = pick(plain)
            if i is not None:
                net.tensors[i].enc = {kind}
                feats.add("enc_" + kind)
        elif kind == "minmax_only":
            i = pick(plain)
            if i is not None and net.tensors[i].dtype == "float32":
                net.tensors[i].qmin, net.tensors[i].qmax = [-1.0], [1.0]
                net.tensors[i].enc = {"minmax_only"}
                feats.add("enc_min_max_without_scale")
        elif kind == "qdim_per_tensor":
            i = pick(lambda t: quantised(t) and len(t.shape) >= 1)
            if i is not None:
                net.tensors[i].qdim = rng.randint(1, len(net.tensors[i].shape)) - 1 or len(net.tensors[i].shape) - 1
                net.tensors[i].enc = {"qdim_per_tensor"}
                feats.add("enc_quantized_dimension_on_per_tensor_scale")
        elif kind == "no_name":
            # one unnamed tensor (two would be duplicate names: outside the domain of the name-based comparison)
            i = pick(lambda t: True)
            if i is not None and "" not in names:
                net.tensors[i].name = ""
                net.tensors[i].enc = {"no_name"}
                names.append("")
                feats.add("enc_tensor_without_name")
        elif kind == "no_shape":
            i = pick(lambda t: t.shape == [])
            if i is not None:
                net.tensors[i].enc = {"no_shape"}
                feats.add("enc_scalar_without_shape_vector")
        elif kind == "shape_signature":
            i = pick(lambda t: len(t.shape) >= 1)
            if i is not None:
                net.tensors[i].enc = {"shape_signature"}
                feats.add("enc_explicit_shape_signature")
        elif kind in ("empty_data_buffer", "own_empty_buffer"):
            i = pick(lambda t: t.data is None)
            if i is not None:
                if kind == "own_empty_buffer":
                    net.tensors[i].own_empty_buffer = True
                else:
                    net.tensors[i].enc = {kind}
                feats.add("enc_" + kind)
        else:
            net.enc = set(rng.sample(["old_opcodes", "no_sg_name", "no_description"], rng.randint(1, 3)))
            for e in net.enc:
                feats.add("enc_" + e)
