#!/venv/bin/python
"""C13 — any structurally valid model either compiles or is rejected with a diagnosis.
Observation of the real compiler on generated (network, option) points, judged by the Lean outcome
specification (Spec/Outcome.lean). An escaping exception is a violation with the network as replay;
known crashes are keyed by <ExceptionType>@<module>.<function> of the innermost repository frame."""
import os

import c13_cli
import c13_corpus
import c13_gen
import common
import pending
import pipe_common
from common import Check, main_wrapper


def refine_site(site, o):
    """Known crashes are keyed by exception site plus, where the unchanged tree's failures share a sharper condition,
    that condition - so that a different failure at the same site is still reported. (The arena-cache refinement of
    use_fast_storage_for_feature_maps went with repair C13-36; sites inside the helper-arithmetic modules are refined with the
    calling lowering, see c13_keys.py.)"""
    import c13_keys

    return c13_keys.refine(site, o)      # helper arithmetic (fp_math / scaling / numeric_util): keyed with the calling lowering


def main():
    ck = Check("C13", "other")
    ck.lean_stage(["VelaVerif.Props.C13", "VelaVerif.Props.C13Cli"])
    # repairs written but not yet in the tree under test (known_findings.txt `fixed: ... PENDING-n [was key=...]`): their
    # keys stay open exactly as long as the patch still applies forward to this tree (see pending.py)
    open_pending = pending.register(ck)
    n = 12000 if ck.thorough else 1200
    profiles = ["weird", "mixed", "cpu", "pattern", "lut", "pattern", "weights", "cascade", "weird", "pattern", "elementwise", "pattern"]
    # quantisation / option extremes on every operator that computes with the quantisation parameters (extremes_gen.py) and
    # operators kept off the NPU of every kind a rewrite pass reads, --force-symmetric-int-weights cases (reject_gen.py)
    profiles += ["act_extremes", "act_extremes", "rejected"]
    own = None
    cli_stats = None
    if os.environ.get("VERIF_C13_ONLY") == "cli":
        # development / mutation self-tests: the command-line stream alone (harness/c13_cli.py)
        own = []
        cli_stats = c13_cli.run(ck)
    if ck.replay_arg:
        # replays of the regression corpus / the targeted families are compiled by their own workers
        import json

        import pipeline

        rp = json.load(open(ck.replay_arg))
        rp = rp.get("replay", rp)
        prof = str(rp.get("profile", ""))
        if prof.startswith("c13cli:"):
            own = []
            cli_stats = c13_cli.run(ck, only=rp["vector"])
        if prof.startswith(("c13reg:", "c13x:")):
            pipeline.load_vela()
            own = [c13_corpus.compile_one(prof[7:])] if prof.startswith("c13reg:") else [c13_gen.compile_one((rp["seed"], rp["index"]))]
    outs = own if own is not None else pipe_common.run_corpus(ck, n, profiles=profiles, want={"more_opts": True}, corpus_first=False, sweep=True)
    if not ck.replay_arg and own is None:
        # the command-line layer: option vectors x a tiny network against the Lean model of main()'s validation
        cli_stats = c13_cli.run(ck)
    if not ck.replay_arg and own is None:
        # deterministic reproducers of every repaired crash first: a regression is a plain VIOLATION
        # ... then the targeted families (operator neighbourhoods the general profiles rarely produce, see c13_gen.py)
        outs = c13_corpus.run() + c13_gen.run(ck.seed, 3900 if ck.thorough else 390) + outs
        # in addition: gen2:<p> = the OUTPUT of profile <p> compiled again (harness/regen.py); the ending judged is the last one
        outs += pipe_common.run_corpus(ck, n // 8, profiles=["gen2:mixed", "gen2:pattern", "gen2:cpu"], want={"more_opts": True}, corpus_first=False)
    reqs = []
    for o in outs:
        if "harness_exception" in o:
            raise common.InfraError("pipeline worker failed:\n" + o["harness_exception"])
        st = o["status"]
        w, p = int(bool(o.get("wrote_output"))), int(bool(o.get("printed_error")))
        if st in ("ok", "vela-error") and o.get("ret") is not None:
            reqs.append(f"outcome returned {int(o['ret'])} {w} {p}")
        elif st == "vela-error":
            reqs.append(f"outcome velaerror {w} {p}")
        elif st == "system-exit":
            code = o.get("ret")
            reqs.append(f"outcome sysexit {int(code) if isinstance(code, int) else 1} {w} {p}")
        else:
            reqs.append(f"outcome exception {w} {p}")
    verdicts = ck.model(reqs, parallel=False)
    nontrivial = set()
    bad = 0
    for o, rq, v in zip(outs, reqs, verdicts):
        ck.count("status_" + o["status"])
        ck.count("profile_" + ("c13reg" if o["profile"].startswith("c13reg:") else o["profile"]))
        for k in o.get("src_ops", []):
            ck.count("op_" + k)
        nontrivial.add((o["profile"], tuple(o.get("src_ops", [])), tuple(o.get("desc", {}).get("inputs", [[]])[0] if o.get("desc") else ())))
        if v != "1":
            bad += 1
            site = refine_site(o.get("exc_site") or ("exit:" + str(o.get("ret"))), o)
            ck.violation(f"compiler ended with {o['status']} ({o.get('exc')}) at {site} for network {o['idx']} ({o['profile']}) "
                         f"ops={o.get('src_ops')} opts={o.get('opts')}",
                         {"profile": o["profile"], "seed": o["seed"], "index": o["idx"], "opts": o.get("opts"),
                          "network": o.get("desc"), "status": o["status"], "exception": o.get("exc"), "site": site,
                          "traceback_tail": o.get("tb"), "stdout_tail": o.get("stdout_tail"),
                          "how_to_replay": ("c13_corpus.compile_one(profile[7:])" if o["profile"].startswith("c13reg:") else
                                            "c13_gen.compile_one((seed, index))" if o["profile"].startswith("c13x:") else
                                            "pipe_common._worker((seed, index, profile, {'more_opts': True}))")},
                         key=site)
    for o, rq, v in list(zip(outs, reqs, verdicts))[:4]:
        ck.sample({"network": o.get("desc"), "opts": o.get("opts"), "outcome": rq, "acceptable": v})
    ck.finish({
        "explanation": "Every generated structurally valid model x option combination is compiled in-process through vela.main; the "
                       "ending (status, output written, error printed, escaping exception) is judged by the Lean predicate "
                       "Outcome.acceptable. The claim that no pass raises anything but VelaError is observed, not proved.",
        "evaluations": len(outs) + (cli_stats or {}).get("cli_vectors", 0),
        "distinct_nontrivial": len(nontrivial) + (cli_stats or {}).get("cli_distinct_requests", 0),
        "rule": "case = (generated network, CLI options); distinct by (profile, operator list, input shape); every case is non-trivial "
                "(it runs the whole compiler); command-line stream: case = option vector, distinct by the model request line "
                "(option values + environment facts), every case runs the real vela.main",
        "unacceptable_endings": bad,
        "regression_corpus": len(c13_corpus.ENTRIES),
        "pending_repairs_open_in_this_tree": sorted(open_pending),
        "command_line_stream": cli_stats,
    }, assumptions=["generated models are structurally valid TFLite (built with the schema's own builder classes)",
                    "NumPy 2.5.3 / Python 3.12 as installed"])


main_wrapper(main)
