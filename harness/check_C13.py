#!/venv/bin/python
"""C13 — any structurally valid model either compiles or is rejected with a diagnosis.
Observation of the real compiler on generated (network, option) points, judged by the Lean outcome
specification (Spec/Outcome.lean). An escaping exception is a violation with the network as replay;
known crashes are keyed by <ExceptionType>@<module>.<function> of the innermost repository frame."""
import common
import pipe_common
from common import Check, main_wrapper


def refine_site(site, o):
    """Known crashes are keyed by exception site plus, where the unchanged tree's failures share a sharper condition,
    that condition — so that a different failure at the same site is still reported."""
    opts = o.get("opts") or []
    if site == "AssertionError@scheduler.use_fast_storage_for_feature_maps":
        # unchanged tree: only with a tiny arena cache (<= 16 KiB) under --optimise Performance
        cache = int(opts[opts.index("--arena-cache-size") + 1]) if "--arena-cache-size" in opts else 393216
        return site + (":arena-cache<=16384" if cache <= 16384 else ":arena-cache>16384")
    return site


def main():
    ck = Check("C13", "other")
    ck.lean_stage(["VelaVerif.Props.C13"])
    n = 12000 if ck.thorough else 1200
    profiles = ["weird", "mixed", "cpu", "pattern", "lut", "pattern", "weights", "cascade", "weird", "pattern", "elementwise", "pattern"]
    outs = pipe_common.run_corpus(ck, n, profiles=profiles, want={"more_opts": True}, corpus_first=False)
    if not ck.replay_arg:
        # in addition: gen2:<p> = the OUTPUT of profile <p> compiled again (harness/regen.py); the ending judged is the last one
        outs += pipe_common.run_corpus(ck, n // 8, profiles=["gen2:mixed", "gen2:pattern", "gen2:cpu"], want={"more_opts": True}, corpus_first=False)
    reqs = []
    for o in outs:
        if "harness_exception" in o:
            raise common.InfraError("pipeline worker failed:\n" + o["harness_exception"])
        st = o["status"]
        w, p = int(bool(o.get("wrote_output"))), int(bool(o.get("printed_error")))
        if st in ("ok", "vela-error") and o.get("ret") is not None:
            reqs.append(f"outcome returned {int(o['ret'])} {w} {p}")
        elif st == "vela-error":
            reqs.append(f"outcome velaerror {w} {p}")
        elif st == "system-exit":
            code = o.get("ret")
            reqs.append(f"outcome sysexit {int(code) if isinstance(code, int) else 1} {w} {p}")
        else:
            reqs.append(f"outcome exception {w} {p}")
    verdicts = ck.model(reqs, parallel=False)
    nontrivial = set()
    bad = 0
    for o, rq, v in zip(outs, reqs, verdicts):
        ck.count("status_" + o["status"])
        ck.count("profile_" + o["profile"])
        for k in o.get("src_ops", []):
            ck.count("op_" + k)
        nontrivial.add((o["profile"], tuple(o.get("src_ops", [])), tuple(o.get("desc", {}).get("inputs", [[]])[0] if o.get("desc") else ())))
        if v != "1":
            bad += 1
            site = refine_site(o.get("exc_site") or ("exit:" + str(o.get("ret"))), o)
            ck.violation(f"compiler ended with {o['status']} ({o.get('exc')}) at {site} for network {o['idx']} ({o['profile']}) "
                         f"ops={o.get('src_ops')} opts={o.get('opts')}",
                         {"profile": o["profile"], "seed": o["seed"], "index": o["idx"], "opts": o.get("opts"),
                          "network": o.get("desc"), "status": o["status"], "exception": o.get("exc"), "site": site,
                          "traceback_tail": o.get("tb"), "stdout_tail": o.get("stdout_tail"),
                          "how_to_replay": "pipe_common._worker((seed, index, profile, {'more_opts': True}))"},
                         key=site)
    for o, rq, v in list(zip(outs, reqs, verdicts))[:4]:
        ck.sample({"network": o.get("desc"), "opts": o.get("opts"), "outcome": rq, "acceptable": v})
    ck.finish({
        "explanation": "Every generated structurally valid model x option combination is compiled in-process through vela.main; the "
                       "ending (status, output written, error printed, escaping exception) is judged by the Lean predicate "
                       "Outcome.acceptable. The claim that no pass raises anything but VelaError is observed, not proved.",
        "evaluations": len(outs),
        "distinct_nontrivial": len(nontrivial),
        "rule": "case = (generated network, CLI options); distinct by (profile, operator list, input shape); every case is non-trivial "
                "(it runs the whole compiler)",
        "unacceptable_endings": bad,
    }, assumptions=["generated models are structurally valid TFLite (built with the schema's own builder classes)",
                    "NumPy 2.5.3 / Python 3.12 as installed"])


main_wrapper(main)
