"""C06 support: random legal NpuOperation lists built with the public api.py classes, a recorder that
captures the integers the real generator obtains from *other* mechanisms (wait dependency, BLOCKDEP,
SHRAM layout, scale quantiser - covered by C04 / C15 / C09), and the canonical one-line description of an
operation list that is sent to the Lean side (`c06` request, parsed by Handlers/Emit.lean).

Nothing in here decides pass/fail.
"""
import contextlib

import numpy as np

REGION_SHRAM = 0x103

DTYPES = ["UINT8", "INT8", "UINT16", "INT16", "INT32"]


def api():
    from ethosu.vela import api as a

    return a


# ------------------------------------------------------------------------------------------------
# generator


class Alloc:
    """bump allocator per region; every allocation is 16-byte aligned unless asked otherwise"""

    def __init__(self, rng, limit, high=False):
        self.next = {}
        self.rng = rng
        self.limit = limit
        self.high = high       # place some allocations above 4 GiB (40-bit addressing, U65 only)

    def get(self, region, size, align=16):
        base = self.next.get(region)
        if base is None:
            base = self.rng.choice([0, 0, 16, 256, 4096, 1 << 20])
            if self.high and self.rng.random() < 0.5:
                base = self.rng.choice([(1 << 32) - 4096, 1 << 32, (1 << 32) + 4096, 3 << 32, (1 << 39)])
        base = (base + align - 1) // align * align
        size = max(int(size), 1)
        if base + size > self.limit:
            raise OverflowError("region full")
        self.next[region] = base + size + self.rng.choice([0, 0, 16, 48, 1024])
        return base


def default_strides(a, shape, dtype, layout):
    es = dtype.size_in_bytes()
    if layout == a.NpuLayout.NHWC:
        sc = es
        sx = shape.depth * sc
        sy = shape.width * sx
    else:
        sx = 16 * es
        sc = sx * shape.width
        sy = es * shape.width * ((shape.depth + 15) // 16 * 16)
    return sy, sx, sc


def make_fm(rng, al, shape, dtype, layout=None, region=None, quant="rand", tiles=True, strides=True, zp=None):
    a = api()
    fm = a.NpuFeatureMap()
    fm.data_type = dtype
    fm.shape = shape
    fm.layout = layout if layout is not None else rng.choice([a.NpuLayout.NHWC, a.NpuLayout.NHCWB16])
    fm.region = region if region is not None else rng.choice([0, 1, 1, 2, 3, 5, 7])
    es = dtype.size_in_bytes()
    sy, sx, sc = default_strides(a, shape, dtype, fm.layout)
    if strides and rng.random() < 0.2:
        # explicit strides: a view into a wider / taller buffer
        if fm.layout == a.NpuLayout.NHWC:
            sx = sx + es * rng.choice([0, 1, 3, 16])
            sy = shape.width * sx + es * rng.choice([0, 2, 64])
        else:
            sc = sc + 16 * rng.choice([0, 1, 4])
            sy = sy + 16 * rng.choice([0, 1, 8]) + sc * 0
            sy = max(sy, sc * ((shape.depth + 15) // 16))
        fm.strides = a.NpuShape3D(height=sy, width=sx, depth=sc)
    nbricks = (shape.depth + 15) // 16
    size = shape.height * sy + (sc * nbricks if fm.layout == a.NpuLayout.NHCWB16 else 0) + 64
    align = 16 if fm.layout == a.NpuLayout.NHCWB16 else es
    h0, h1, w0 = shape.height, shape.height, shape.width
    addrs = [al.get(fm.region, size, max(align, rng.choice([1, 2, 4, 16]) // 1 if align == 1 else align)), 0, 0, 0]
    if es > 1 and fm.layout == a.NpuLayout.NHWC:
        addrs[0] = addrs[0] // es * es
    if tiles and rng.random() < 0.25 and shape.height > 1:
        h0 = rng.randint(1, shape.height - 1)
        addrs[2] = al.get(fm.region, size, 16)
        h1 = h0
    if tiles and rng.random() < 0.15 and shape.width > 1:
        w0 = rng.randint(1, shape.width - 1)
        addrs[1] = al.get(fm.region, size, 16)
        h1 = rng.randint(1, shape.height) if rng.random() < 0.5 else h0
        if h1 < shape.height and h0 < shape.height:
            addrs[3] = al.get(fm.region, size, 16)
        elif h1 < shape.height:
            # tile 3 exists only when tile 2 exists
            h1 = shape.height
    fm.tiles = a.NpuTileBox(height_0=h0, height_1=h1, width_0=w0, addresses=addrs)
    if quant == "none":
        fm.quantization = None
    else:
        if zp is None:
            r = rng.random()
            if dtype == a.NpuDataType.INT32:
                zp = 0
            elif r < 0.3:
                zp = 0
            elif r < 0.5:
                zp = rng.choice([dtype.min_value(), dtype.max_value()]) if dtype.size_in_bits() <= 16 else 0
            else:
                zp = rng.randint(max(dtype.min_value(), -32768), min(dtype.max_value(), 32767))
        scale = None if quant == "noscale" else rng.choice([1.0, 0.5, 0.25, 0.0078125, 0.003921568859368563, 0.02352941222488880,
                                                          0.1, 0.007843138, 0.20392157, 2.0, 1.0 / 2048, 1.0 / 4096])
        fm.quantization = a.NpuQuantization(scale_f32=scale, zero_point=zp)
    return fm


def rand_dim(rng, big=False):
    r = rng.random()
    if big and r < 0.04:
        return rng.choice([255, 256, 257, 1023, 4096, 65535, 65536])
    if r < 0.3:
        return rng.randint(1, 4)
    if r < 0.8:
        return rng.randint(1, 20)
    return rng.randint(1, 70)


def rand_depth(rng, big=False):
    r = rng.random()
    if big and r < 0.03:
        return rng.choice([255, 256, 1024, 65535, 65536])
    if r < 0.5:
        return rng.choice([1, 3, 4, 8, 16, 16, 32, 64])
    return rng.randint(1, 80)


def rand_activation(rng, ofm_dtype):
    a = api()
    r = rng.random()
    if r < 0.35:
        return None
    if r < 0.6:
        act = a.NpuActivation(a.NpuActivationOp.NONE_OR_RELU)
        c = rng.random()
        if c < 0.4:
            act.min, act.max = 0.0, None
        elif c < 0.7:
            act.min, act.max = 0.0, rng.choice([6.0, 1.0, 127.0, 3.5])
        elif c < 0.85:
            act.min, act.max = rng.choice([-1.0, -128.0, -1e6, -40000.0]), rng.choice([1.0, 255.0, 1e6, 40000.0])
        else:
            act.min, act.max = None, rng.choice([0.0, 10.0])
        return act
    if r < 0.72:
        return a.NpuActivation(a.NpuActivationOp.TANH)
    if r < 0.84:
        return a.NpuActivation(a.NpuActivationOp.SIGMOID)
    act = a.NpuActivation(a.NpuActivationOp.TABLE_LOOKUP)
    act.lookup_table_index = rng.randint(0, 7)
    if rng.random() < 0.3:
        act.min, act.max = rng.choice([-200.0, 0.0]), rng.choice([100.0, 300.0])
    return act


def pick_block_config(rng, op, arch):
    """a block config the generator itself accepts (register_command_stream_generator.get_arch_block_config)"""
    a = api()
    from ethosu.vela import register_command_stream_generator as g

    ub = arch.ofm_ublock
    up = op.ifm_upscale != a.NpuResamplingMode.NONE
    minh = max(ub.height, 2 if up else 1)
    minw = max(ub.width, 2 if up else 1)
    trav = getattr(op, "block_traversal", a.NpuBlockTraversal.DEPTH_FIRST)
    for attempt in range(40):
        if attempt < 30:
            h = minh * rng.choice([1, 1, 2, 3, 4, 8, 16, 32 // minh])
            w = minw * rng.choice([1, 1, 2, 3, 4, 8, 16, 32, 64 // minw])
            d = ub.depth * rng.choice([1, 1, 2, 2, 3, 4, 8, 16, 128 // ub.depth])
        else:
            h, w, d = minh, minw, ub.depth
        if h > 32 or w > 64 or d > 128:
            continue
        op.block_config = a.NpuShape3D(height=h, width=w, depth=d)
        try:
            g.get_arch_block_config(op, trav, arch)
            return True
        except AssertionError:
            continue
    return False


def conv_like_shapes(rng, big):
    """ofm h/w, kernel, strides, dilation, padding -> consistent ifm h/w (no upscaling)"""
    a = api()
    for _ in range(50):
        kw, kh = rng.choice([1, 1, 2, 3, 3, 5, 7]), rng.choice([1, 1, 2, 3, 3, 5, 8])
        sx, sy = rng.choice([1, 1, 1, 2, 2, 3]), rng.choice([1, 1, 1, 2, 2, 3])
        dx, dy = rng.choice([1, 1, 1, 2]), rng.choice([1, 1, 1, 2])
        oh, ow = rand_dim(rng, big), rand_dim(rng, big)
        kdh, kdw = dy * (kh - 1) + 1, dx * (kw - 1) + 1
        pt, pb = rng.randint(0, kdh // 2), rng.randint(0, kdh // 2)
        pl, pr = rng.randint(0, kdw // 2), rng.randint(0, kdw // 2)
        if rng.random() < 0.4:
            pt = pb = pl = pr = 0
        ih = (oh - 1) * sy + kdh - pt - pb
        iw = (ow - 1) * sx + kdw - pl - pr
        if ih < 1 or iw < 1 or ih > 65536 or iw > 65536:
            continue
        return oh, ow, ih, iw, a.NpuKernel(kw, kh, sx, sy, dx, dy), a.NpuPadding(top=pt, left=pl, bottom=pb, right=pr)
    return 1, 1, 1, 1, a.NpuKernel(1, 1), a.NpuPadding(0, 0, 0, 0)


class Ctx:
    def __init__(self, rng, arch, al):
        self.rng, self.arch, self.al = rng, arch, al
        self.prev_ofm = None
        self.last_dma_dst = None     # NpuAddressRange written by the latest DMA (candidate weight buffer -> DMA_WAIT)


def maybe_upscale(rng, op, ih, iw):
    """2x2 upscaling: the IFM in memory is half the size the kernel walks over"""
    a = api()
    if rng.random() < 0.15 and ih % 2 == 0 and iw % 2 == 0:
        op.ifm_upscale = rng.choice([a.NpuResamplingMode.NEAREST, a.NpuResamplingMode.TRANSPOSE])
        return ih // 2, iw // 2
    return ih, iw


def weights_for(rng, al, arch, n=None, dma_dst=None):
    a = api()
    region = rng.choice([0, 0, 1, 2])
    n = n if n is not None else (rng.choice([1, 2]) if arch.ncores == 2 else 1)
    ws, bs = [], []
    for i in range(n):
        ln = 16 * rng.choice([1, 2, 5, 30, 481, 4096])
        if i == 0 and dma_dst is not None and dma_dst.region < 8 and dma_dst.address % 16 == 0 and dma_dst.length % 16 == 0 \
                and dma_dst.length > 0 and rng.random() < 0.5:
            region = dma_dst.region          # double-buffered weights: the conv must wait for the DMA
            ws.append(a.NpuAddressRange(region=region, address=dma_dst.address, length=dma_dst.length))
            continue
        ws.append(a.NpuAddressRange(region=region, address=al.get(region, ln, 16), length=ln))
    if rng.random() < 0.9:
        bregion = region if rng.random() < 0.7 else rng.choice([0, 1, 2])
        for _ in range(n):
            ln = 16 * rng.choice([1, 2, 3, 10, 29])
            # scale (bias) base addresses carry no alignment check in the generator; keep them 16-byte aligned (hardware rule)
            bs.append(a.NpuAddressRange(region=bregion, address=al.get(bregion, ln, 16), length=ln))
    return ws, bs


def in_fm(ctx, shape, dtype, **kw):
    """IFM: with some probability the previous OFM (same registers again -> elision, BLOCKDEP < 3)"""
    p = ctx.prev_ofm
    if p is not None and ctx.rng.random() < 0.45 and p.shape == shape and p.data_type == dtype:
        a = api()
        fm = a.NpuFeatureMap()
        fm.data_type, fm.shape, fm.layout, fm.region, fm.tiles = p.data_type, p.shape, p.layout, p.region, p.tiles
        fm.quantization, fm.strides = p.quantization, p.strides
        return fm
    return make_fm(ctx.rng, ctx.al, shape, dtype, **kw)


def gen_conv(ctx, depthwise, big):
    a = api()
    rng = ctx.rng
    op = a.NpuConvDepthWiseOperation() if depthwise else a.NpuConv2DOperation()
    oh, ow, ih, iw, op.kernel, op.padding = conv_like_shapes(rng, big)
    ih, iw = maybe_upscale(rng, op, ih, iw)
    od = rand_depth(rng, big)
    idp = od if depthwise else rand_depth(rng, big)
    dt = rng.choice([a.NpuDataType.UINT8, a.NpuDataType.INT8, a.NpuDataType.INT8, a.NpuDataType.INT16])
    if ctx.prev_ofm is not None and rng.random() < 0.5 and not big:
        p = ctx.prev_ofm
        if p.shape.height == ih and p.shape.width == iw and (not depthwise or p.shape.depth == od):
            idp, dt = p.shape.depth, p.data_type
    q = "rand" if rng.random() < 0.9 else "none"
    op.ifm = in_fm(ctx, a.NpuShape3D(height=ih, width=iw, depth=idp), dt, quant=q)
    odt = dt if rng.random() < 0.8 else rng.choice([a.NpuDataType.UINT8, a.NpuDataType.INT8, a.NpuDataType.INT16, a.NpuDataType.INT32])
    op.ofm = make_fm(rng, ctx.al, a.NpuShape3D(height=oh, width=ow, depth=od), odt,
                     quant="none" if op.ifm.quantization is None else "rand")
    op.weights, op.biases = weights_for(rng, ctx.al, ctx.arch, dma_dst=ctx.last_dma_dst)
    if not depthwise:
        op.block_traversal = rng.choice([a.NpuBlockTraversal.DEPTH_FIRST, a.NpuBlockTraversal.PART_KERNEL_FIRST])
    op.activation = rand_activation(rng, odt)
    op.rounding_mode = rng.choice([a.NpuRoundingMode.TFL, a.NpuRoundingMode.TFL, a.NpuRoundingMode.TRUNCATE, a.NpuRoundingMode.NATURAL])
    return op


def gen_pool(ctx, big):
    a = api()
    rng = ctx.rng
    sub = rng.choice([a.NpuPoolingOp.MAX, a.NpuPoolingOp.AVERAGE, a.NpuPoolingOp.AVERAGE, a.NpuPoolingOp.REDUCE_SUM])
    op = a.NpuPoolingOperation(sub)
    oh, ow, ih, iw, op.kernel, op.padding = conv_like_shapes(rng, big)
    op.kernel.dilation_x = op.kernel.dilation_y = 1
    kdh, kdw = op.kernel.height, op.kernel.width
    ih = (oh - 1) * op.kernel.stride_y + kdh - op.padding.top - op.padding.bottom
    iw = (ow - 1) * op.kernel.stride_x + kdw - op.padding.left - op.padding.right
    if ih < 1 or iw < 1:
        op.padding = a.NpuPadding(0, 0, 0, 0)
        ih = (oh - 1) * op.kernel.stride_y + kdh
        iw = (ow - 1) * op.kernel.stride_x + kdw
    if ih > 65536 or iw > 65536:
        # the IFM tile registers hold at most 65536 rows / columns: fall back to a 1x1 window
        op.kernel = a.NpuKernel(1, 1)
        op.padding = a.NpuPadding(0, 0, 0, 0)
        ih, iw = oh, ow
    ih, iw = maybe_upscale(rng, op, ih, iw)
    od = rand_depth(rng, big)
    idp = od
    dt = rng.choice([a.NpuDataType.UINT8, a.NpuDataType.INT8, a.NpuDataType.INT8, a.NpuDataType.INT16])
    if sub == a.NpuPoolingOp.REDUCE_SUM:
        idp, od = rand_depth(rng, big), 1
        dt = rng.choice([a.NpuDataType.INT8, a.NpuDataType.INT16, a.NpuDataType.INT32])
    layout = a.NpuLayout.NHWC if sub == a.NpuPoolingOp.REDUCE_SUM and (dt == a.NpuDataType.INT32 or ctx.arch.ncores == 2) else None
    op.ifm = in_fm(ctx, a.NpuShape3D(height=ih, width=iw, depth=idp), dt, layout=layout,
                   quant=rng.choice(["rand", "rand", "rand", "noscale"]))
    if sub == a.NpuPoolingOp.REDUCE_SUM and op.ifm.layout != a.NpuLayout.NHWC and layout is not None:
        op.ifm = make_fm(rng, ctx.al, op.ifm.shape, dt, layout=layout)
    odt = dt if sub != a.NpuPoolingOp.REDUCE_SUM else a.NpuDataType.INT32
    if rng.random() < 0.15:
        odt = rng.choice([a.NpuDataType.UINT8, a.NpuDataType.INT8, a.NpuDataType.INT16])
    op.ofm = make_fm(rng, ctx.al, a.NpuShape3D(height=oh, width=ow, depth=od), odt,
                     quant=rng.choice(["rand", "rand", "rand", "noscale"]))
    op.activation = rand_activation(rng, odt)
    if op.activation is not None and op.activation.op_type in (a.NpuActivationOp.TANH, a.NpuActivationOp.SIGMOID) \
            and op.ifm.quantization.scale_f32 is None:
        op.activation = None
    r = rng.random()
    if r < 0.15:
        op.fused_quantize = True
        if op.ifm.quantization.scale_f32 is None or op.ofm.quantization.scale_f32 is None:
            op.fused_quantize = False
    elif r < 0.3:
        op.rescale = rng.choice([0.5, 1.0, 2.0, 0.75, 3.0])
    op.rounding_mode = rng.choice([a.NpuRoundingMode.TFL, a.NpuRoundingMode.TRUNCATE, a.NpuRoundingMode.NATURAL])
    if not pool_scale_accepted(op):
        # OFM scale wider than 32 bits (rejected with a VelaError): requantise by 1 instead
        op.rescale = None
        op.ofm.quantization = a.NpuQuantization(scale_f32=op.ifm.quantization.scale_f32, zero_point=op.ofm.quantization.zero_point)
        if not pool_scale_accepted(op):
            op.activation = None
    return op


def pool_scale_accepted(op):
    """does generate_ofm_scaling_for_pooling accept the operation (only consulted when the global OFM scale is used)"""
    a = api()
    from ethosu.vela import register_command_stream_generator as g

    if op.sub_op_type not in (a.NpuPoolingOp.AVERAGE, a.NpuPoolingOp.REDUCE_SUM) or sum(op.padding) != 0:
        return True
    try:
        g.generate_ofm_scaling_for_pooling(g.CommandStreamEmitter(), op)
        return True
    except g.VelaError:
        return False


def gen_elementwise(ctx, big):
    a = api()
    rng = ctx.rng
    E = a.NpuElementWiseOp
    sub = rng.choice([E.ADD, E.ADD, E.SUB, E.MUL, E.MUL, E.ABS, E.MIN, E.MAX, E.LRELU, E.CLZ, E.SHR, E.SHL])
    op = a.NpuElementWiseOperation(sub)
    h, w, d = rand_dim(rng, big), rand_dim(rng, big), rand_depth(rng, big)
    if sub in (E.CLZ, E.SHL):
        dt = a.NpuDataType.INT32
    elif sub == E.SHR:
        dt = rng.choice([a.NpuDataType.INT32, a.NpuDataType.INT8])
    else:
        dt = rng.choice([a.NpuDataType.UINT8, a.NpuDataType.INT8, a.NpuDataType.INT8, a.NpuDataType.INT16, a.NpuDataType.INT32])
    noq = sub in (E.ADD, E.SUB, E.MUL, E.MIN, E.MAX, E.SHR, E.SHL, E.CLZ) and rng.random() < 0.15
    q = "none" if noq else "rand"
    shape = a.NpuShape3D(height=h, width=w, depth=d)
    op.ifm = in_fm(ctx, shape, dt, quant=q)
    if op.ifm.quantization is None:
        q = "none"
    elif q == "none":
        q = "rand"
    unary = sub in (E.ABS, E.LRELU, E.CLZ)
    if not unary:
        if rng.random() < 0.3:
            # scalar operand
            op.ifm2 = a.NpuFeatureMap()
            op.ifm2.data_type = dt
            op.ifm2.quantization = None if q == "none" else a.NpuQuantization(
                scale_f32=rng.choice([1.0, 0.5, 0.25]), zero_point=rng.choice([0, 0, 3, -5]) if dt.is_signed() else rng.choice([0, 7]))
            # choose the quantised value first so that it is representable in the IFM2 data type and in the 16-bit register
            lo, hi = max(dt.min_value(), -30000), min(dt.max_value(), 30000)
            q = rng.choice([lo, hi, 0 if lo <= 0 else lo, rng.randint(lo, hi), rng.randint(max(lo, -8), min(hi, 8))])
            if sub in (E.SHL, E.SHR):
                q = rng.randint(0, 31)
            sc2 = 1.0 if op.ifm2.quantization is None else op.ifm2.quantization.scale_f32
            zp2 = 0 if op.ifm2.quantization is None else op.ifm2.quantization.zero_point
            op.ifm2_scalar = float((q - zp2) * sc2)
            if q_f32(op.ifm2_scalar, op.ifm2.quantization) != q:
                op.ifm2_scalar = float(q_f32(0.0, op.ifm2.quantization) * 0)
        else:
            s2 = a.NpuShape3D(height=h if rng.random() < 0.8 else 1, width=w if rng.random() < 0.8 else 1,
                              depth=d if rng.random() < 0.8 else 1)
            dt2 = dt
            op.ifm2 = make_fm(rng, ctx.al, s2, dt2, quant=q)
            if rng.random() < 0.2 and op.ifm.quantization is not None:
                op.ifm2.quantization = op.ifm.quantization       # same scale -> simplified add/sub scaling
        op.reversed_operands = rng.random() < 0.3
    odt = dt
    if sub == E.MUL and rng.random() < 0.3:
        odt = a.NpuDataType.INT32
    elif sub in (E.ADD, E.SUB) and rng.random() < 0.15:
        odt = rng.choice([a.NpuDataType.INT8, a.NpuDataType.UINT8, a.NpuDataType.INT16])
    op.ofm = make_fm(rng, ctx.al, shape, odt, quant=q)
    if sub in (E.LRELU, E.ABS) and op.ofm.quantization is None:
        op.ofm.quantization = a.NpuQuantization(scale_f32=0.5, zero_point=0)
    op.activation = rand_activation(rng, odt)
    if sub in (E.ADD, E.SUB, E.MUL) and rng.random() < 0.15:
        op.rescale = (rng.randint(1, (1 << 31) - 1), rng.randint(0, 63))
    op.rounding_mode = rng.choice([a.NpuRoundingMode.TFL, a.NpuRoundingMode.TRUNCATE, a.NpuRoundingMode.NATURAL])
    return op


def gen_dma(ctx):
    a = api()
    rng, arch = ctx.rng, ctx.arch
    ln = 16 * rng.choice([1, 2, 16, 64, 128, 1000])
    to_shram = rng.random() < 0.3
    sreg = rng.choice([0, 0, 1, 2])
    if arch.is_ethos_u65_system and not to_shram and rng.random() < 0.5:
        ln = rng.choice([1, 3, 17, 250, 1001])
        src = ctx.al.get(sreg, ln, 1) + rng.choice([0, 1, 5])
    else:
        src = ctx.al.get(sreg, ln, 16)
    p = ctx.prev_ofm
    if p is not None and not to_shram and rng.random() < 0.3 and p.tiles.addresses[0] % 16 == 0:
        # read what the previous operation wrote -> KERNEL_WAIT
        sreg, src = p.region, p.tiles.addresses[0]
        ln = 16 * rng.choice([1, 2, 4])
    if to_shram:
        ln = rng.choice([256, 512, 1024, 2048])
        slot = rng.randint(0, (2048 - ln) // 256)
        dreg, dst = REGION_SHRAM, int(arch.shram_lut_address) + 256 * slot
    else:
        dreg = rng.choice([1, 2, 1, 5])
        if ctx.prev_ofm is not None and rng.random() < 0.2:
            dreg = ctx.prev_ofm.region
        dst = ctx.al.get(dreg, ln + 8, 16)
        if arch.is_ethos_u65_system and rng.random() < 0.4:
            dst += rng.choice([1, 2, 7])
    op = a.NpuDmaOperation(a.NpuAddressRange(sreg, src, ln), a.NpuAddressRange(dreg, dst, ln))
    if rng.random() < 0.15:
        op.channel, op.mode = rng.choice([0, 1]), rng.choice([0, 1])
    ctx.last_dma_dst = op.dest
    return op


def gen_op_list(rng, arch, n, big=False, high=False):
    """a list of `n` operations that the generator's own checks accept (by construction, not by trial)"""
    al = Alloc(rng, int(arch.max_address_offset), high=high and arch.is_ethos_u65_system)
    ctx = Ctx(rng, arch, al)
    ops = []
    kinds = ["conv", "conv", "dw", "pool", "pool", "ew", "ew", "ew", "dma", "dma"]
    if rng.random() < 0.25:
        kinds = [rng.choice(kinds)] * 3 + ["dma"]      # homogeneous lists elide the most
    tries = 0
    while len(ops) < n and tries < 10 * n:
        tries += 1
        k = rng.choice(kinds)
        if k == "dma":
            op = gen_dma(ctx)
        else:
            op = {"conv": lambda: gen_conv(ctx, False, big), "dw": lambda: gen_conv(ctx, True, big),
                  "pool": lambda: gen_pool(ctx, big), "ew": lambda: gen_elementwise(ctx, big)}[k]()
            if not pick_block_config(rng, op, arch):
                continue
            if rng.random() < 0.12 and ops and not isinstance(ops[-1], api().NpuDmaOperation) and type(ops[-1]) is type(op):
                pass
            ctx.prev_ofm = op.ofm
        ops.append(op)
    return ops


# ------------------------------------------------------------------------------------------------
# recorder: integers that come from mechanisms other properties cover


class Rec:
    def __init__(self):
        self.ops = []       # one dict per operation, in generation order
        self.unmodelled = None   # set when a mechanism the model does not contain rejected the list (block config fit, memory limits)

    def cur(self):
        return self.ops[-1]


@contextlib.contextmanager
def recording():
    """Wrap, inside register_command_stream_generator, the helpers whose *results* C06 takes as given:
    get_wait_dependency (C04), calc_blockdep (C04), get_arch_block_config (C15) and the arguments of the three
    scale-register writes + op_to_scale (C09).  The generator's use of those results is what C06 checks."""
    from ethosu.vela import register_command_stream_generator as g
    from ethosu.vela.ethos_u55_regs.ethos_u55_regs import cmd1

    rec = Rec()
    o_wait, o_bd, o_abc, o_sc, o_c1 = (g.get_wait_dependency, g.calc_blockdep, g.get_arch_block_config,
                                        g.generate_scaling_for_elementwise, g.CommandStreamEmitter.cmd1_with_offset)
    o_pool = g.generate_ofm_scaling_for_pooling
    o_lim = g.check_mem_limits

    def w_lim(*a, **k):
        try:
            return o_lim(*a, **k)
        except g.VelaError:
            rec.unmodelled = "check_mem_limits"                # range check of the memory accesses (C02), not modelled
            raise
    scale_cmds = {cmd1.NPU_SET_OFM_SCALE: "ofm_scale", cmd1.NPU_SET_OPA_SCALE: "opa_scale", cmd1.NPU_SET_OPB_SCALE: "opb_scale"}

    def w_wait(arch, npu_op, *a, **k):
        r = o_wait(arch, npu_op, *a, **k)
        rec.ops.append({"op": npu_op, "kwait": int(r.npu), "dwait": int(r.dma)})
        return r

    def w_bd(arch, prev_op, npu_op):
        r = o_bd(arch, prev_op, npu_op)
        rec.cur()["blockdep"] = int(min(r, arch.max_blockdep))
        return r

    def w_abc(npu_op, trav, arch):
        try:
            r = o_abc(npu_op, trav, arch)
        except AssertionError:
            rec.unmodelled = "block_config_does_not_fit"      # try_block_config (C15), not part of the emitter model
            raise
        rec.cur()["shram"] = (int(r.layout.ib_end), int(r.layout.ab_start), int(r.layout.ib_start2), int(g.acc_format_map[r.acc_type]))
        return r

    def w_sc(emit, npu_op):
        r = o_sc(emit, npu_op)
        rec.cur()["op_to_scale"] = int(r)
        return r

    def w_c1(self, cmd, offset, param=0x0):
        if cmd in scale_cmds and rec.ops:
            rec.cur()[scale_cmds[cmd]] = (int(offset), int(param))
        return o_c1(self, cmd, offset, param)

    def w_pool(emit, pool_op):
        try:
            return o_pool(emit, pool_op)
        except g.VelaError as e:
            # the scale is rejected before it reaches the emitter: read the (scale, shift) the function had computed
            tb = e.__traceback__
            while tb is not None:
                if tb.tb_frame.f_code.co_name == "generate_ofm_scaling_for_pooling" and "scale" in tb.tb_frame.f_locals:
                    loc = tb.tb_frame.f_locals
                    rec.cur()["ofm_scale"] = (int(loc["scale"]), int(loc.get("shift", 0)))
                tb = tb.tb_next
            raise

    g.get_wait_dependency, g.calc_blockdep, g.get_arch_block_config = w_wait, w_bd, w_abc
    g.generate_scaling_for_elementwise, g.CommandStreamEmitter.cmd1_with_offset = w_sc, w_c1
    g.generate_ofm_scaling_for_pooling = w_pool
    g.check_mem_limits = w_lim
    try:
        yield rec
    finally:
        g.get_wait_dependency, g.calc_blockdep, g.get_arch_block_config = o_wait, o_bd, o_abc
        g.generate_scaling_for_elementwise, g.CommandStreamEmitter.cmd1_with_offset = o_sc, o_c1
        g.generate_ofm_scaling_for_pooling = o_pool
        g.check_mem_limits = o_lim


# ------------------------------------------------------------------------------------------------
# canonical description


def q_f32(value, quant):
    """independent transcription of `quantise`: float32 division, round half away from zero, + zero point"""
    scale = np.float32(1 if quant is None or quant.scale_f32 is None else quant.scale_f32)
    zp = 0 if quant is None else int(quant.zero_point)
    q = np.float32(value) / scale
    q = float(q)
    r = int(abs(q) + 0.5)
    return zp + (r if q >= 0 else -r)


def d_fm(fm):
    a = api()
    if fm is None:
        return "-"
    dt = fm.data_type
    t = fm.tiles
    hasq = 0 if fm.quantization is None else 1
    zp = 0 if fm.quantization is None else int(fm.quantization.zero_point)
    hass = 0 if fm.strides is None else 1
    s = fm.strides if fm.strides is not None else a.NpuShape3D(0, 0, 0)
    scaled = 1 if (fm.quantization is not None and fm.quantization.scale_f32 is not None) else 0
    vals = [dt.size_in_bits(), int(dt.is_signed()), int(fm.region), fm.shape.height, fm.shape.width, fm.shape.depth,
            t.height_0, t.height_1, t.width_0, t.addresses[0], t.addresses[1], t.addresses[2], t.addresses[3],
            hasq, zp, 1 if fm.layout == a.NpuLayout.NHCWB16 else 0, hass, s.height, s.width, s.depth, scaled]
    return ":".join(str(int(v)) for v in vals)


def d_ranges(rs):
    return "+".join(f"{int(r.region)}:{int(r.address)}:{int(r.length)}" for r in rs) if rs else "-"


POOL = {"MAX": 0, "AVERAGE": 1, "REDUCE_SUM": 2}
EW = {"MUL": 0, "ADD": 1, "SUB": 2, "MIN": 3, "MAX": 4, "LRELU": 5, "ABS": 6, "CLZ": 7, "SHR": 8, "SHL": 9}   # hardware encoding (spec side)
ACT = {"NONE_OR_RELU": 0, "TANH": 1, "SIGMOID": 2, "TABLE_LOOKUP": 3}      # api ordinal, not the register value
ROUND = {"TFL": 0, "TRUNCATE": 1, "NATURAL": 2}
UPSCALE = {"NONE": 0, "NEAREST": 1, "TRANSPOSE": 2}


def d_op(op, r):
    """one operation as protocol text. `r` = recorder dict for this operation."""
    a = api()
    from ethosu.vela.operation import ExplicitScaling

    if isinstance(op, a.NpuDmaOperation):
        return "|".join(["D", f"{int(op.src.region)}:{int(op.src.address)}:{int(op.src.length)}",
                         f"{int(op.dest.region)}:{int(op.dest.address)}:{int(op.dest.length)}",
                         str(int(op.channel)), str(int(op.mode)), str(r["kwait"]), str(r["dwait"])])
    kind = {a.NpuConv2DOperation: 0, a.NpuConvDepthWiseOperation: 1, a.NpuPoolingOperation: 2, a.NpuElementWiseOperation: 3}[type(op)]
    sub = 0
    if kind == 2:
        sub = list(a.NpuPoolingOp).index(op.sub_op_type)         # api ordinal; the Lean side maps names independently
    elif kind == 3:
        sub = list(a.NpuElementWiseOp).index(op.sub_op_type)
    k = op.kernel
    kern = "-" if k is None else ":".join(map(str, [k.width, k.height, k.stride_x, k.stride_y, k.dilation_x, k.dilation_y]))
    p = op.padding
    pad = "-" if p is None else ":".join(map(str, [int(p.top), int(p.left), int(p.bottom), int(p.right)]))
    act = op.activation
    if act is None:
        acts = "-"
    else:
        qmin = "n" if act.min is None else str(q_f32(act.min, op.ofm.quantization))
        qmax = "n" if act.max is None else str(q_f32(act.max, op.ofm.quantization))
        acts = f"{ACT[act.op_type.name]}:{qmin}:{qmax}:{int(act.lookup_table_index)}"
    scalar = "-"
    if op.ifm2_scalar is not None:
        scalar = str(q_f32(op.ifm2_scalar, op.ifm2.quantization))
    bc = op.block_config
    rescale = getattr(op, "rescale", None)
    # rescale kind: 0 none, 1 plain value / tuple, 2 ExplicitScaling per-tensor, 3 ExplicitScaling per-channel
    rk = 0 if rescale is None else (1 if type(rescale) is not ExplicitScaling else (3 if rescale.per_channel else 2))
    trav = 1 if getattr(op, "block_traversal", a.NpuBlockTraversal.DEPTH_FIRST) == a.NpuBlockTraversal.PART_KERNEL_FIRST else 0
    sh = r.get("shram", (0, 0, 0, 0))

    def sc(name):
        v = r.get(name)
        return "n:n" if v is None else f"{v[0]}:{v[1]}"

    oracle = ":".join(map(str, [sh[0], sh[1], sh[2], sh[3], r.get("blockdep", 0), r["kwait"], r["dwait"], r.get("op_to_scale", 0)]))
    return "|".join(["B", str(kind), str(sub), d_fm(op.ifm), d_fm(op.ifm2), scalar, d_fm(op.ofm), kern, pad,
                     d_ranges(op.weights), d_ranges(op.biases), acts, f"{bc.height}:{bc.width}:{bc.depth}",
                     str(ROUND[op.rounding_mode.name]), str(UPSCALE[op.ifm_upscale.name]), str(trav),
                     str(int(getattr(op, "reversed_operands", False))), str(rk), str(int(bool(op.fused_quantize))),
                     oracle, sc("ofm_scale"), sc("opa_scale"), sc("opb_scale")])


def request(acc_index, ops, recs, words, tag="c06"):
    assert len(ops) == len(recs), (len(ops), len(recs))
    body = ";".join(d_op(o, r) for o, r in zip(ops, recs))
    return f"{tag} acc={acc_index} ops={body} words={','.join(str(int(w)) for w in words)}"
