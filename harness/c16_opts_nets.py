"""C16 pipeline level, option / quantisation extremes (kept apart from c16_nets.py, whose `cases` it extends):

* `--force-symmetric-int-weights` ON for convolutions / depthwise convolutions / fully connected operators that stay on
  the CPU for ANOTHER reason (stride 4, batch 2, non-constant weights) with asymmetric int8 weights: per-tensor zero point
  127 / -128 / 3, per-axis vectors (random, both ends alternating, a single non-zero entry), constant and non-constant
  weights, a weight tensor shared with an accelerated convolution.  The option rewrites the weight zero points BEFORE the
  supported-operator check; the operator must be written with the source's zero points (Spec.unchangedOnCpuDesc compares the
  whole vector and the quantised dimension).
* operators of every kind a rewrite pass reads, kept off the NPU (reject_gen.rejected_op), alone on a fresh input.

`cases(rng, thorough)` -> [(label, Net)]; `all_cases(rng, thorough)` = c16_nets.cases + these (same indices for replay)."""
import random

import c16_nets
import netgen
import reject_gen


def _fresh(rng, dtype, shape):
    b = netgen.B(rng, "c16o", dtype)
    x = b.input(list(shape))
    return b, x


def _finish(b, o, label):
    outs = [o] + [e for e in getattr(b, "extra_outputs", []) if e != o]
    net = b.finish(outs)
    if getattr(b, "want_fsym", False):
        net.extra_opts = ["--force-symmetric-int-weights"]
    net.desc.append(label)
    return net


def fsym_cases(rng):
    out = []
    # ("conv_shared" — the same weights also on an accelerated convolution — is C11's: with the option the accelerated twin
    # contradicts the listed constraint_weights_symmetric by design)
    for op in ("conv", "dw", "fc"):
        for zstyle in ("tensor127", "tensor3", "axis", "axis_ends", "axis_one"):
            for const in (True, False):
                for why in ("stride4", "batch2", "dyn_weights"):
                    if why == "dyn_weights" and const:
                        continue
                    for dtype in ("int8", "int16"):
                        if dtype == "int16" and (zstyle in ("tensor3", "axis_one") or why == "batch2"):
                            continue          # keep the grid small: int16 gets the main styles only
                        b, x = _fresh(rng, dtype, (1, 8, 6, 4))
                        feats, live = set(), [x]
                        tgt = len(b.net.ops)
                        o = reject_gen.fsym_op(b, x, feats, live, op, zstyle, const, why)
                        if o is None:
                            continue
                        label = f"fsym {op} {zstyle} {'const' if const else 'dynamic'} weights kept on the CPU by {why} {dtype} --force-symmetric-int-weights"
                        net = _finish(b, o, label)
                        # the operator under test: the first CONV_2D / DEPTHWISE_CONV_2D / FULLY_CONNECTED appended
                        net.tgt = next((i for i in range(tgt, len(net.ops)) if net.ops[i].kind in ("CONV_2D", "DEPTHWISE_CONV_2D", "FULLY_CONNECTED")), tgt)
                        out.append((label, net))
    return out


def rejected_cases(rng, n):
    out = []
    kinds = list(reject_gen.KINDS)
    for i in range(n):
        kind = kinds[i % len(kinds)]
        dtype = rng.choice(["int8", "int8", "uint8", "int16"])
        b, x = _fresh(rng, dtype, (1, rng.choice([4, 6, 8]), rng.choice([3, 6]), rng.choice([2, 4, 8])))
        feats, live = set(), [x]
        o = reject_gen.rejected_op(b, x, feats, live, kind)
        if o is None:
            continue
        label = "rejected " + " ".join(d for d in b.net.desc if d.startswith("rejected:"))
        out.append((label, _finish(b, o, label)))
    for v in ("big", "big_minus1", "big_dyn", "dyn_shape", "minus1_quant_mismatch", "no_operand_mismatch", "no_option_mismatch", "big_squeeze", "big_expand"):
        b, x = _fresh(rng, rng.choice(["int8", "uint8"]), (1, 4, 6, 4))
        feats, live = set(), [x]
        o = reject_gen.reshape_cpu(b, x, feats, live, v)
        if o is None:
            continue
        if o == x:
            o = b.unary("RELU", x)
        out.append(("reshape on the CPU: " + v, _finish(b, o, "reshape_cpu " + v)))
    return out


def cases(rng, thorough=False):
    return fsym_cases(rng) + rejected_cases(rng, 3 * len(reject_gen.KINDS) if thorough else len(reject_gen.KINDS))


def all_cases(rng, thorough=False):
    """c16_nets.cases followed by the cases of this file (drawn from an rng of their own, so that c16_nets' networks and
    indices do not move)"""
    base = c16_nets.cases(rng, thorough)
    out = base + cases(random.Random(rng.getrandbits(32) ^ 0x0C16), thorough)
    # round 5: every accelerated operator kind on ranks 1-6 with positive / negative axis attributes (harness/gen_ranksweep.py),
    # appended last and drawn from an rng of their own so that the indices above do not move
    import gen_ranksweep

    return out + gen_ranksweep.c16_cases(random.Random(rng.getrandbits(32) ^ 0x5C16), thorough)
