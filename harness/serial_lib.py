"""Serialisation into memory tensors and the reported memory figures: correspondence and Lean Spec on the real values
(stage of ./check C12; design.d/Serialise.md).

install()           wrap, in the harness process before the workers fork (no /repo hooks, read-only on the real objects):
                    npu_serialisation.serialise_npu_subgraph_into_tensors / rewrite_npu_call_ops,
                    tensor_allocation.allocate / allocate_tensors, weight_compressor.encode_weight_and_scale_tensor,
                    compiler_driver.compiler_driver (reset)
extra(res)          worker side, after one compilation: the model requests (`serial`, `reported`) with the real outcome in the
                    model's answer format, and the Spec requests (`serflash`, `serspan`, `serorder`, `serreport`) whose values are
                    read from the OUTPUT FILE with the plain walker and from the captured source constants
stage(ck, outs)     check side: run the Lean model and the Lean Spec, compare, report
"""
import csv
import io
import re
import struct
import traceback
import zlib

_installed = False
_orig = {}
_sample = {"every": 1, "count": 0}
_st = {}
MAX_BYTES = 400000          # a compilation with more constant bytes than this is left to the other stages (request size)


def _reset():
    _st.clear()
    _st.update(calls=[], sgs=[], cops=[], enc={}, errors=[], alloc_stack=[], startup=[], skipped=None)


_reset()


def _i(x):
    v = int(x)
    if v != x:
        raise ValueError(f"non-integral value {x!r}")
    return v


def _adler(b):
    return zlib.adler32(bytes(b)) & 0xFFFFFFFF


def _u8(values):
    """bytes of a uint8 memory tensor"""
    import numpy as np

    return np.asarray(values, dtype=np.uint8).tobytes()


def _opt(a):
    return "-" if a is None else str(_i(a))


def _comp_text(tag, t):
    return f"{tag}!{_opt(t.address)}!{_i(t.storage_size())}!{bytes(t.buffer).hex()}"


def _fm_text(tag, t):
    import numpy as np

    if t.values is None:
        vals = "-"
        isz = 0
    else:
        v = np.asarray(t.values)
        if v.dtype.kind not in "iub":
            raise Unsupported("constant feature map with non-integer values")
        vals = "v" + ".".join(str(int(x)) for x in v.flatten().tolist())
        isz = v.dtype.itemsize
    return f"{tag}!{_opt(t.address)}!{int(t.mem_type)}!{_i(t.dtype.size_in_bytes())}!{isz}!{vals}"


class Unsupported(Exception):
    pass


def _describe_sg(sg, arch):
    """the inputs of serialise_npu_subgraph_into_tensors as the request text of one subgraph + the source constants"""
    from ethosu.vela.nn_graph import PassPlacement
    from ethosu.vela.tensor import MemType

    npu = sg.placement == PassPlacement.Npu
    mu = ",".join(f"{int(a)}:{_i(n)}" for a, n in sg.memory_used.items())
    if not npu:
        return f"0@{mu}@@", [], 0
    words = ".".join(str(_i(w)) for w in sg.register_command_stream)
    ops, sources, nbytes = [], [], 0
    for sched_op in sg.sched_ops:
        ifm, ifm2, _, _, _ = sched_op.parent_op.get_ifm_ifm2_weights_biases_ofm()
        op_info = sg.schedule.cost_map[sched_op]
        items = []
        for tag, t in (("W", op_info.npu_weights_tensor), ("S", op_info.npu_scales_tensor)):
            if t:
                items.append(_comp_text(tag, t))
                cap = _st["enc"].get(id(t))
                src = cap[1] if cap is not None and cap[0] is t else None
                sources.append({"kind": "raw", "addr": t.address, "bytes": src if src is not None else bytes(t.buffer),
                                "captured": src is not None, "name": t.name, "len": _i(t.storage_size())})
                nbytes += len(t.buffer)
        for tag, t in (("I", ifm), ("J", ifm2)):
            if t and t.mem_type not in (MemType.Scratch, MemType.Scratch_fast):
                items.append(_fm_text(tag, t))
                if t.values is not None:
                    sources.append({"kind": "ints", "addr": t.address, "tens": t, "name": t.name})
                    nbytes += t.values.size * 4
        if sched_op.parent_op.activation_lut:
            lt = sched_op.parent_ps.lut_tensor
            if lt is None:
                items.append("L-")
            else:
                items.append(_fm_text("L", lt))
                if lt.values is not None:
                    sources.append({"kind": "ints", "addr": lt.address, "tens": lt, "name": lt.name})
                    nbytes += lt.values.size * 4
        ops.append("/".join(items))
    return f"1@{mu}@{words}@{';'.join(ops)}", sources, nbytes


def install(every=1):
    """every = n: only every n-th compilation of a worker process is recorded (thorough tier: request volume)"""
    global _installed
    if _installed:
        return
    _installed = True
    _sample["every"] = max(1, int(every))
    from ethosu.vela import compiler_driver, npu_serialisation as ns, tensor_allocation as ta, weight_compressor as wc
    from ethosu.vela.operation import Op

    def note(fn):
        def g(*a, **kw):
            try:
                return fn(*a, **kw)
            except Unsupported as e:
                _st["skipped"] = str(e)
            except Exception:
                _st["errors"].append(traceback.format_exc()[-1500:])
        return g

    # ---- encoded streams at the moment the encoder returns them ----------------------------------------------------
    orig_enc = wc.encode_weight_and_scale_tensor

    def encode_weight_and_scale_tensor(*a, **kw):
        r = orig_enc(*a, **kw)
        try:
            for t in r:
                if t is not None and id(t) not in _st["enc"]:
                    _st["enc"][id(t)] = (t, bytes(t.buffer))
        except Exception:
            _st["errors"].append(traceback.format_exc()[-1500:])
        return r

    wc.encode_weight_and_scale_tensor = encode_weight_and_scale_tensor
    from ethosu.vela import scheduler as sc

    if getattr(sc, "encode_weight_and_scale_tensor", None) is orig_enc:
        sc.encode_weight_and_scale_tensor = encode_weight_and_scale_tensor

    # ---- allocate / allocate_tensors -------------------------------------------------------------------------------
    orig_allocate = ta.allocate

    def allocate(*a, **kw):
        r = orig_allocate(*a, **kw)
        try:
            _st["alloc_stack"].append((bool(r[0].ranges), _i(r[1])))
        except Exception:
            _st["errors"].append(traceback.format_exc()[-1500:])
        return r

    ta.allocate = allocate
    prev_at = ta.allocate_tensors          # may already be wrapped by another stage: keep the chain

    def allocate_tensors(nng, sg, arch, mem_area, mem_type_set, *a, **kw):
        n0 = len(_st["alloc_stack"])
        r = prev_at(nng, sg, arch, mem_area, mem_type_set, *a, **kw)
        try:
            if len(_st["alloc_stack"]) > n0:
                nonempty, total = _st["alloc_stack"][-1]
                max_size = kw.get("max_size")
                dry = bool(kw.get("dry_test"))
                ok = max_size is None or total <= max_size
                _st["calls"].append({"sg": sg, "root": sg is nng.get_root_subgraph(), "area": int(mem_area),
                                     "types": [int(m) for m in mem_type_set], "total": total,
                                     "recorded": bool(nonempty and ok and not dry)})
        except Exception:
            _st["errors"].append(traceback.format_exc()[-1500:])
        return r

    ta.allocate_tensors = allocate_tensors

    # ---- serialise_npu_subgraph_into_tensors -----------------------------------------------------------------------
    orig_ser = ns.serialise_npu_subgraph_into_tensors
    _orig.update(ser=orig_ser, copy_c=ns.copy_compressed_values_to_memory_tensor, copy_i=ns.copy_ifm_values_to_memory_tensor)

    @note
    def before_ser(sg, arch, scratch_tens, scratch_fast_tens, flash_tens):
        text, sources, nbytes = _describe_sg(sg, arch)
        first = not _st["sgs"]
        if first and not (scratch_tens is None and scratch_fast_tens is None and flash_tens is None):
            raise Unsupported("first serialised subgraph is handed existing memory tensors")
        return {"text": text, "sources": sources, "nbytes": nbytes, "sg": sg}

    def serialise_npu_subgraph_into_tensors(sg, arch, scratch_tens, scratch_fast_tens, flash_tens):
        rec = before_ser(sg, arch, scratch_tens, scratch_fast_tens, flash_tens)
        r = orig_ser(sg, arch, scratch_tens, scratch_fast_tens, flash_tens)
        if rec is not None:
            rec["out"] = r
            rec["cmd"] = getattr(sg, "command_stream_tensor", None)
            _st["sgs"].append(rec)
            _st["arch"] = arch
        return r

    ns.serialise_npu_subgraph_into_tensors = serialise_npu_subgraph_into_tensors

    # ---- rewrite_npu_call_ops ----------------------------------------------------------------------------------------
    orig_rw = ns.rewrite_npu_call_ops

    @note
    def before_rw(sg):
        from ethosu.vela.nn_graph import PassPlacement

        if sg.placement != PassPlacement.Cpu:
            return None
        ops = [op for cps in sg.cascaded_passes for ps in cps.passes for op in ps.ops if op.type == Op.CustomNpuOp]
        cps0 = sg.cascaded_passes[0]
        _st["alias"] = bool(cps0.passes and cps0.passes[0].outputs is cps0.outputs)
        return {"ops": [(op, list(op.inputs)) for op in ops], "startup": list(cps0.outputs)}

    @note
    def after_rw(sg, rec):
        npu = [r["sg"] for r in _st["sgs"] if r["text"].startswith("1@")]

        def kind(t, callee):
            if t is callee.command_stream_tensor:
                return 0
            if t is callee.flash_tensor:
                return 1
            if t is callee.scratch_tensor:
                return 2
            if t is callee.scratch_fast_tensor:
                return 3
            return 9

        for op, before in rec["ops"]:
            callee = op.attrs["subgraph"]
            ci = next((i for i, s in enumerate(npu) if s is callee), -1)
            kinds = [kind(t, callee) for t in op.inputs]
            kept = len(op.inputs) >= len(before) and all(a is b for a, b in zip(op.inputs[len(op.inputs) - len(before):], before))
            _st["cops"].append({"callee": ci, "n": len(before), "kinds": kinds, "kept": kept})
        after = list(sg.cascaded_passes[0].outputs)
        new = after[:max(0, len(after) - len(rec["startup"]))]
        allmem = {}
        for s in npu:
            allmem[id(s.command_stream_tensor)] = 0
            allmem[id(s.flash_tensor)] = 1
            allmem[id(s.scratch_tensor)] = 2
            allmem[id(s.scratch_fast_tensor)] = 3
        _st["startup"] += [allmem.get(id(t), 9) for t in new]

    def rewrite_npu_call_ops(sg, arch):
        rec = before_rw(sg)
        r = orig_rw(sg, arch)
        if rec is not None:
            after_rw(sg, rec)
        return r

    ns.rewrite_npu_call_ops = rewrite_npu_call_ops

    orig_driver = compiler_driver.compiler_driver

    def wrap_driver(*a, **kw):
        _reset()
        return orig_driver(*a, **kw)

    compiler_driver.compiler_driver = wrap_driver



# ------------------------------------------------------------------------------------------------
# function level: generated tensors through the REAL copy functions and the real serialiser (stub objects, real NumPy)
class _O:
    def __init__(self, **kw):
        self.__dict__.update(kw)


def _exc_kind(e):
    m = str(e)
    if isinstance(e, ValueError):
        return "err:broadcast"
    if isinstance(e, AttributeError):
        if "'flatten'" in m:
            return "err:novalues"
        if "'address'" in m:
            return "err:nolut"
        return "err:notensor"
    if isinstance(e, TypeError):
        return "err:novalues" if "item assignment" in m else "err:noaddress"
    raise e


def _stub_comp(rng, room):
    n = rng.choice([0, 1, 1, 15, 16, 16, 16, 17, 32, 48, 64, 80])
    st = max(16, (n + 15) // 16 * 16) if rng.random() < 0.8 else rng.choice([n, n + 1, 16, 32])
    if n == 0:
        st = rng.choice([16, 1])
    addr = None if rng.random() < 0.04 else rng.choice([0, 16, 32, max(0, room - st), max(0, room - st + 8), room, room + 16, rng.randrange(0, room + 1)])
    buf = bytearray(rng.randrange(256) for _ in range(n))
    return _O(address=addr, buffer=buf, storage_size=(lambda st=st: st)), f"!{_opt(addr)}!{st}!{bytes(buf).hex()}"


def _stub_fm(rng, room, arena_ok=True):
    import numpy as np
    from ethosu.vela.data_type import DataType
    from ethosu.vela.tensor import MemType

    dt, npdt = rng.choice([(DataType.int8, np.int8), (DataType.uint8, np.uint8), (DataType.int16, np.int16), (DataType.int32, np.int32),
                           (DataType.int64, np.int64), (DataType.uint16, np.uint16), (DataType.int16, np.int32), (DataType.int8, np.int16),
                           (DataType.int32, np.int16), (DataType.uint8, np.int8)])
    k = rng.choice([0, 1, 1, 2, 3, 5, 8, 16, 33])
    info = np.iinfo(npdt)
    vals = [rng.choice([info.min, info.max, 0, -1 if info.min < 0 else 1, rng.randrange(info.min, info.max + 1)]) for _ in range(k)]
    shape = (k,) if k % 2 or k == 0 else (2, k // 2)
    values = None if rng.random() < 0.05 else np.array(vals, dtype=npdt).reshape(shape)
    mt = rng.choice([MemType.Permanent_NPU, MemType.Permanent_NPU, MemType.Permanent_CPU, MemType.Unknown] +
                    ([MemType.Scratch, MemType.Scratch_fast] if arena_ok else []))
    nb = k * (np.dtype(npdt).itemsize if dt.size_in_bytes() > 1 else 1)
    addr = None if rng.random() < 0.04 else rng.choice([0, 16, max(0, room - nb), max(0, room - nb + 1), room, rng.randrange(0, room + 1)])
    t = _O(address=addr, values=values, dtype=dt, mem_type=mt)
    vs = "-" if values is None else "v" + ".".join(map(str, vals))
    return t, f"!{_opt(addr)}!{int(mt)}!{dt.size_in_bytes()}!{np.dtype(npdt).itemsize if values is not None else 0}!{vs}"


def stub(rng, n):
    """n generated copies through copy_compressed_values_to_memory_tensor / copy_ifm_values_to_memory_tensor and n // 4 generated
    subgraph descriptions through serialise_npu_subgraph_into_tensors (first and later calls, faulty hand-overs)"""
    import numpy as np
    import pipeline

    pipeline.load_vela()
    from ethosu.vela import npu_serialisation as ns
    from ethosu.vela.architecture_features import Accelerator, MemPort, create_default_arch
    from ethosu.vela.nn_graph import PassPlacement

    copy_c = _orig.get("copy_c", ns.copy_compressed_values_to_memory_tensor)
    copy_i = _orig.get("copy_i", ns.copy_ifm_values_to_memory_tensor)
    ser = _orig.get("ser", ns.serialise_npu_subgraph_into_tensors)
    recs = []
    for i in range(n):
        room = rng.choice([0, 16, 48, 64, 128])
        mem = np.array([rng.randrange(256) if rng.random() < 0.5 else 0 for _ in range(room)], dtype=np.uint8)
        mt = _O(values=mem.copy())
        if rng.random() < 0.5:
            t, txt = _stub_comp(rng, room)
            line, fn = f"sercopy mem={mem.tobytes().hex()} it=W{txt}", copy_c
        else:
            t, txt = _stub_fm(rng, room, arena_ok=False)
            line, fn = f"sercopy mem={mem.tobytes().hex()} it=I{txt}", copy_i
        try:
            fn(mt, t)
            real = f"ok {len(mt.values)}:{_adler(_u8(mt.values))}"
        except Exception as e:  # noqa: B902
            real = _exc_kind(e)
        recs.append({"kind": "copy", "line": line, "real": real})
    archs = {}
    port = {MemPort.Axi0: "0", MemPort.Axi1: "1"}
    accs = list(Accelerator)
    for i in range(n // 4):
        acc = rng.choice(accs)
        arch = archs.setdefault(acc, create_default_arch(acc))
        room = rng.choice([0, 64, 256, 512])
        ops, texts = [], []
        cost = {}
        pos = 0
        for _ in range(rng.choice([0, 1, 2, 3])):
            items = []
            w = sc_ = ifm = ifm2 = None
            lut = False
            lt = None
            faulty = rng.random() < 0.15
            if rng.random() < 0.7:
                w, txt = _stub_comp(rng, room)
                if not faulty:
                    w.address, st = pos, w.storage_size()
                    nb = st if len(w.buffer) != 1 else st
                    w.buffer = bytearray(rng.randrange(256) for _ in range(st))
                    pos += st
                    txt = f"!{pos - st}!{st}!{bytes(w.buffer).hex()}"
                items.append("W" + txt)
            if rng.random() < 0.5:
                sc_, txt = _stub_comp(rng, room)
                items.append("S" + txt)
            if rng.random() < 0.6:
                ifm, txt = _stub_fm(rng, room)
                items.append("I" + txt)
            if rng.random() < 0.3:
                ifm2, txt = _stub_fm(rng, room)
                items.append("J" + txt)
            if rng.random() < 0.3:
                lut = True
                if rng.random() < 0.1:
                    items.append("L-")
                else:
                    lt, txt = _stub_fm(rng, room)
                    items.append("L" + txt)
            so = _O(parent_op=_O(get_ifm_ifm2_weights_biases_ofm=(lambda a=ifm, b=ifm2: (a, b, None, None, None)), activation_lut=lut),
                    parent_ps=_O(lut_tensor=lt))
            cost[so] = _O(npu_weights_tensor=w, npu_scales_tensor=sc_)
            ops.append(so)
            texts.append("/".join(items))
        words = [rng.randrange(1 << 32) for _ in range(rng.choice([0, 1, 4, 7, 9]))]
        npu = rng.random() < 0.9
        fa, sa = arch.permanent_storage_mem_area, arch.feature_map_storage_mem_area
        mu = {}
        if rng.random() < 0.9:
            mu[fa] = max(room, pos) if rng.random() < 0.85 else rng.choice([0, 16, room])
        if rng.random() < 0.3:
            mu[sa] = mu.get(sa, 0) + rng.choice([0, 1024])
        sg = _O(placement=PassPlacement.Npu if npu else PassPlacement.Cpu, memory_used=mu, register_command_stream=words, name=f"stub{i}",
                sched_ops=ops, schedule=_O(cost_map=cost))
        mode = rng.choice(["first", "first", "later", "later", "faulty"])
        s = q = f = None
        intxt = "-,-,-,-"
        if mode != "first":
            fsz = rng.choice([0, 64, 256, 512])
            s = ns.make_memory_tensor("s", sa, 3, rng.choice([0, 4096]), False, arch)
            q = ns.make_memory_tensor("q", arch.fast_storage_mem_area, 4, rng.choice([0, 128]), False, arch)
            f = ns.make_memory_tensor("f", fa, 2, fsz, True, arch)
            f.values = np.array([rng.randrange(256) for _ in range(fsz)], dtype=np.uint8)
            if mode == "faulty":
                which = rng.choice(["s", "q", "f", "sq"])
                s = None if "s" in which else s
                q = None if "q" in which else q
                f = None if "f" in which else f
            hx = "-" if f is None else (f.values.tobytes().hex() or "e")
            intxt = (f"{'-' if s is None else s.shape[0]},{'-' if q is None else q.shape[0]},{'-' if f is None else f.shape[0]},{hx}")
        sgtxt = f"{int(npu)}@{','.join(f'{int(a)}:{n_}' for a, n_ in mu.items())}@{'.'.join(map(str, words))}@{';'.join(texts)}"
        if not npu:
            sgtxt = f"0@{','.join(f'{int(a)}:{n_}' for a, n_ in mu.items())}@@"
        line = (f"serial1 acc={accs.index(acc)} ports={port[arch.const_mem_area]}{port[arch.arena_mem_area]}{port[arch.cache_mem_area]} "
                f"axi={int(arch.axi0_port)},{int(arch.axi1_port)} in={intxt} sg={sgtxt}")
        try:
            rs, rq, rf = ser(sg, arch, s, q, f)
            sz = lambda t: "-" if t is None else str(int(t.shape[0]))      # noqa: E731
            fl = "-" if rf is None else f"{int(rf.shape[0])}:{len(rf.values)}:{_adler(_u8(rf.values))}"
            cm = "-"
            if npu:
                ct = sg.command_stream_tensor
                cm = f"{int(ct.shape[0])}:{_adler(_u8(ct.values))}"
            real = f"ok s={sz(rs)} q={sz(rq)} f={fl} cmd={cm}"
        except Exception as e:  # noqa: B902
            real = _exc_kind(e)
        recs.append({"kind": "serial1", "line": line, "real": real})
    return [{"profile": "serial_stub", "idx": n, "seed": getattr(rng, "stub_seed", 0), "opts": None, "desc": "generated tensors through the real copy functions / serialiser",
             "serial": {"errors": [], "skipped": None, "model": recs, "spec": [], "counts": {}}}]


# ------------------------------------------------------------------------------------------------
AREA_COL = {1: "sram", 2: "dram", 3: "on_chip_flash", 4: "off_chip_flash"}
AREA_DISPLAY = {"SRAM": 1, "DRAM": 2, "On-chip Flash": 3, "Off-chip Flash": 4}


def _mem_text(t):
    if t is None:
        return "none"
    from ethosu.vela.tensor import MemType

    arena = t.mem_type in (MemType.Scratch, MemType.Scratch_fast)
    off = (0 if t.address is None else _i(t.address)) if arena else -1
    return f"{_i(t.shape[0])}:{int(t.mem_area)}:{int(t.mem_type)}:{int(t.purpose)}:{off}:{0 if arena else 1}"


def _src_bytes(s):
    """(request text, byte length) of a source constant for the Spec request"""
    import numpy as np

    if s["kind"] == "raw":
        return f"{_i(s['addr'])}!r!{bytes(s['bytes']).hex()}", len(s["bytes"])
    v = np.asarray(s["tens"].values)
    flat = v.flatten().tolist()
    esz = v.dtype.itemsize if s["tens"].dtype.size_in_bytes() > 1 else 1
    return f"{_i(s['addr'])}!i{esz}!" + ".".join(str(int(x)) for x in flat), esz * len(flat)


def extra(res):
    """worker side, after one compilation (res: pipeline.CompileResult)"""
    out = {"errors": list(_st["errors"]), "skipped": _st["skipped"], "model": [], "spec": [], "counts": {}}
    _sample["count"] += 1
    if _sample["every"] > 1 and _sample["count"] % _sample["every"] != 1:
        _reset()
        return None
    try:
        if res is None or res.status != "ok" or res.out_model is None or not _st["sgs"] or _st["skipped"]:
            return out
        _extra(res, out)
    except Unsupported as e:
        out["skipped"] = str(e)
    except Exception:
        out["errors"].append(traceback.format_exc()[-1500:])
    finally:
        _reset()
    return out


def _extra(res, out):
    import numpy as np
    import fbwalk
    import pipeline
    from ethosu.vela import high_level_command_to_npu_op as hl
    from ethosu.vela.architecture_features import Accelerator
    from ethosu.vela.nn_graph import PassPlacement
    from ethosu.vela.architecture_features import MemPort
    from ethosu.vela.tensor import MemArea, MemType

    arch = _st["arch"]
    nng = res.nng
    root = nng.get_root_subgraph()
    recs = _st["sgs"]
    if sum(r["nbytes"] for r in recs) > MAX_BYTES:
        out["skipped"] = "more constant bytes than the stage handles"
        return
    npu_recs = [r for r in recs if r["text"].startswith("1@")]
    first = npu_recs[0]["sg"]
    scratch, fast, flash = first.scratch_tensor, first.scratch_fast_tensor, first.flash_tensor
    acc = list(Accelerator).index(arch.accelerator_config)
    port = {MemPort.Axi0: "0", MemPort.Axi1: "1"}
    ports = port[arch.const_mem_area] + port[arch.arena_mem_area] + port[arch.cache_mem_area]
    root_calls = [c for c in _st["calls"] if c["root"]]
    calls_text = ";".join(f"{c['area']}:{'/'.join(map(str, c['types']))}:{c['total']}:{int(c['recorded'])}" for c in root_calls)
    # the first NPU subgraph's books come from its own recorded calls: memory_used was read by the serialiser (request text)
    cops = ";".join(f"{c['callee']}:{c['n']}" for c in _st["cops"])
    line = (f"serial acc={acc} ports={ports} axi={int(arch.axi0_port)},{int(arch.axi1_port)} calls={calls_text} "
            f"sgs={'~'.join(r['text'] for r in recs)} cops={cops} alias={int(bool(_st.get('alias')))}")
    # ---- the real outcome in the model's answer format
    flash_vals = _u8(flash.values)
    ranges = []
    for r in npu_recs:
        for s in r["sources"]:
            if s["addr"] is None:
                continue
            n = s["len"] if s["kind"] == "raw" else _src_bytes(s)[1]
            a = _i(s["addr"])
            ranges.append(f"{a}:{n}:{_adler(flash_vals[a:a + n])}")
    cmds = ",".join(f"{_i(r['cmd'].shape[0])}:{_adler(_u8(r['cmd'].values))}" for r in npu_recs)
    real = (f"ok scratch={_mem_text(scratch)} fast={_mem_text(fast)} "
            f"flash={_i(flash.shape[0])}:{len(flash_vals)}:{_adler(flash_vals)}:{int(flash.mem_area)}:{int(flash.mem_type)} "
            f"cmds={cmds} ranges={','.join(ranges)} inputs={';'.join(','.join(map(str, c['kinds'])) for c in _st['cops'])} "
            f"startup={','.join(map(str, _st['startup']))}")
    nsrc = sum(len(r["sources"]) for r in npu_recs)
    out["model"].append({"kind": "serial", "line": line, "real": real, "nsrc": nsrc, "kept": all(c["kept"] for c in _st["cops"]),
                         "spilling": bool(arch.is_spilling_enabled()), "nsg": len(npu_recs)})
    out["counts"]["weights_not_captured"] = sum(1 for r in npu_recs for s in r["sources"] if s["kind"] == "raw" and not s["captured"])
    # ---- reported figures: model request
    bw = [int(a) for a in (MemArea.Sram, MemArea.Dram, MemArea.OnChipFlash, MemArea.OffChipFlash) if np.sum(nng.bandwidths[a]) > 0]
    ids = {}

    def eq(t):
        return ids.setdefault(t.equivalence_id, len(ids))

    W, O = [], []
    for sg in nng.subgraphs:
        for so in sg.sched_ops:
            oi = sg.schedule.cost_map[so]
            ow, ew = so.parent_op.weights, oi.npu_weights_tensor
            if ow:
                O.append(f"{eq(ow)}:{_i(ow.values.itemsize)}:{_i(ow.values.size)}")
            if ew:
                W.append(f"{eq(ew)}:{len(ew.buffer)}")
    rep_line = f"reported calls={calls_text} bw={','.join(map(str, bw))} W={','.join(W)} O={','.join(O)}"
    row = {}
    if res.csv:
        rows = list(csv.DictReader(io.StringIO(res.csv)))
        row = rows[-1] if rows else {}
    csv_bytes = []
    for a in (1, 2, 3, 4):
        v = float(row.get(AREA_COL[a] + "_memory_used", "nan"))
        b = v * 1024.0
        if b != int(b):
            raise Unsupported("CSV memory figure is not a whole number of bytes")
        csv_bytes.append(int(b))
    console = []
    for m in re.finditer(r"^Total (SRAM|DRAM|On-chip Flash|Off-chip Flash) used\s+([0-9]+)\.([0-9]{2}) KiB", res.stdout, re.M):
        e = (AREA_DISPLAY[m.group(1)], int(m.group(2)) * 100 + int(m.group(3)))
        if e not in console:          # the summary may be printed more than once (verbose options)
            console.append(e)
    pt = root.memory_used_per_type
    rep_real = (f"csv={','.join(map(str, csv_bytes))} console={','.join(f'{a}:{h}' for a, h in console)} "
                f"enc={_i(float(row.get('total_npu_encoded_weights', 'nan')))} orig={_i(float(row.get('total_original_weights', 'nan')))} "
                f"pt={_i(pt.get(MemType.Scratch, 0))},{_i(pt.get(MemType.Scratch_fast, 0))}")
    nng_ok = (_i(nng.total_npu_encoded_weights) == _i(float(row.get('total_npu_encoded_weights', 'nan'))) and
              all(_i(nng.memory_used.get(MemArea(a), 0)) == b for a, b in zip((1, 2, 3, 4), csv_bytes)))
    out["model"].append({"kind": "reported", "line": rep_line, "real": rep_real, "nng_matches_csv": nng_ok})
    # ---- Spec on the real values: the OUTPUT FILE
    model = fbwalk.parse(res.out_model)
    sg0 = model["subgraphs"][0]
    meta = model["buffers"][model["metadata"]["OfflineMemoryAllocation"]]
    offs = struct.unpack("<%di" % (len(meta) // 4), meta)[3:]
    eops = [e for e in pipeline.ethosu_ops(model) if e[0] == 0]
    if not eops:
        raise Unsupported("no Ethos-U operator in subgraph 0 of the output file")

    def fkind(t):
        n = t["name"] or ""
        for suffix, k in (("_command_stream", 0), ("_flash", 1), ("_scratch_fast", 3), ("_scratch", 2)):
            if n.endswith(suffix):
                return k
        return 9

    # the memory tensors of the file are found by NAME (the order of the operands is what (c) judges)
    by_kind = {}
    for i in eops[0][1]["inputs"]:
        by_kind.setdefault(fkind(sg0["tensors"][i]), i)
    if not all(k in by_kind for k in (0, 1, 2, 3)):
        raise Unsupported("the Ethos-U operator of the output file lacks a memory tensor (by name)")
    ins0 = [by_kind[0], by_kind[1], by_kind[2], by_kind[3]]
    ft, st_, qt = sg0["tensors"][ins0[1]], sg0["tensors"][ins0[2]], sg0["tensors"][ins0[3]]
    file_flash = bytes(model["buffers"][ft["buffer"]] or b"")
    # (a) constants tensor of the file against the source constants
    placed, seen = [], set()
    for r in npu_recs:
        for s in r["sources"]:
            if s["addr"] is None:
                continue
            txt, _n = _src_bytes(s)
            if txt not in seen:
                seen.add(txt)
                placed.append(txt)
    out["spec"].append({"kind": "flash", "line": f"serflash flash={file_flash.hex()} P={';'.join(placed)}",
                        "what": f"constants tensor of the output file ({len(file_flash)} bytes) against {len(placed)} source constants"})
    # (b) scratch tensors of the file against every tensor of their memory
    spill = bool(arch.is_spilling_enabled())
    tens = {}
    for sg in nng.subgraphs:
        for ps in sg.passes:
            for t in ps.inputs + ps.outputs + ps.intermediates:
                if t is not None:
                    tens[id(t)] = t
        for so in sg.sched_ops:
            for t in sg.schedule.cost_map[so].buffered_weight_tensors:
                tens[id(t)] = t
    mem_ids = {id(x) for r in npu_recs for x in (r["sg"].scratch_tensor, r["sg"].scratch_fast_tensor, r["sg"].flash_tensor, r["cmd"])}

    def members(types, area):
        l = []
        for t in tens.values():
            if id(t) in mem_ids or t.mem_type not in types or t.mem_area != area or t.address is None:
                continue
            l.append(f"{_i(t.address)}:{_i(t.storage_size())}")
        return sorted(set(l))

    s_types = (MemType.Scratch,) if spill else (MemType.Scratch, MemType.Scratch_fast)
    out["spec"].append({"kind": "span_scratch",
                        "line": f"serspan what=scratch off={offs[ins0[2]]} size={fbwalk.tensor_bytes(st_)} T={','.join(members(s_types, arch.feature_map_storage_mem_area))}",
                        "what": "scratch tensor of the output file against address + storage_size() of every arena tensor of the compiled graph"})
    q_types = (MemType.Scratch_fast,)
    q_members = members(q_types, arch.fast_storage_mem_area)
    out["spec"].append({"kind": "span_fast",
                        "line": f"serspan what=fast-scratch off={offs[ins0[3]]} size={fbwalk.tensor_bytes(qt)} T={','.join(q_members)}",
                        "what": "fast-scratch tensor of the output file against every Scratch_fast tensor of the compiled graph"})
    out["counts"]["dedicated_sram"] = int(spill)
    out["counts"]["fast_members"] = len(q_members) if spill else 0
    # (c) operand order in the file, regions of the real generator
    joint = not any(c["types"] == [int(MemType.Scratch_fast)] for c in root_calls)     # allocation lists of _update_tensor_allocation
    regions = [(hl.get_region(MemType.Permanent_NPU, arch), 1), (hl.get_region(MemType.Permanent_CPU, arch), 1),
               (hl.get_region(MemType.Scratch, arch), 2), (hl.get_region(MemType.Scratch_fast, arch), 2 if joint else 3)]
    for si, op, _mems, _rest in eops:
        kinds = [fkind(sg0["tensors"][i]) for i in op["inputs"]]
        out["spec"].append({"kind": "order", "line": f"serorder kinds={','.join(map(str, kinds))} regions={','.join(f'{r}:{k}' for r, k in regions)}",
                            "what": "operands of an Ethos-U operator of the output file (by tensor name suffix) and get_region of every memory type"})
    # the file's memory tensors are the real ones: payload and constants byte for byte, the scratch tensors without data
    file_cmds = []
    for _si, op, _m, _r in eops:
        ci = next((i for i in op["inputs"] if fkind(sg0["tensors"][i]) == 0), op["inputs"][0])
        file_cmds.append(bytes(model["buffers"][sg0["tensors"][ci]["buffer"]] or b""))
    real_cmds = [_u8(r["cmd"].values) for r in npu_recs]
    out["file"] = {"flash_same": file_flash == flash_vals, "cmds_same": sorted(file_cmds) == sorted(real_cmds),
                   "scratch_no_data": not model["buffers"][st_["buffer"]] and not model["buffers"][qt["buffer"]]}
    # (d) reported against the published extents (file)
    cmd_bytes = sum(len(c) for c in file_cmds)
    fa, sa, qa = int(arch.permanent_storage_mem_area), int(arch.feature_map_storage_mem_area), int(arch.fast_storage_mem_area)
    figs, cons = [], []
    ext = {"scratch": (sa, fbwalk.tensor_bytes(st_)), "fast-scratch": (qa, fbwalk.tensor_bytes(qt)),
           "constants+command-streams": (fa, len(file_flash) + cmd_bytes)}
    if fa == sa:
        ext["constants+command-streams+scratch"] = (fa, len(file_flash) + cmd_bytes + fbwalk.tensor_bytes(st_))
    for name, (a, e) in ext.items():
        if a in (1, 2, 3, 4):
            figs.append(f"{AREA_COL[a]}_memory_used/{name}:{csv_bytes[a - 1]}:{e}")
            for ca, h in console:
                if ca == a:
                    cons.append(f"console-{AREA_COL[a]}/{name}:{h}:{e}")
    out["spec"].append({"kind": "report", "line": f"serreport F={','.join(figs)} C={','.join(cons)}",
                        "what": "CSV and console memory figures against the byte sizes of the memory tensors in the output file"})


def stub_rng(seed):
    """the generator of the stub stream of one check run (kept apart from ck.rng so that a replay can regenerate the stream)"""
    import random

    r = random.Random(seed * 7919 + 17)
    r.stub_seed = seed
    return r


def replay(ck):
    """--replay of a violation found on the stub stream: the stream is regenerated (profile serial_stub, seed, index = length)"""
    import json

    if not ck.replay_arg:
        return False
    r = json.load(open(ck.replay_arg))
    rp = r.get("replay", r)
    if rp.get("profile") != "serial_stub":
        return False
    st = stage(ck, stub(stub_rng(rp["seed"]), rp["index"]))
    ck.finish(dict(st, programs=1, evaluations=st["serial_model_requests"], distinct_nontrivial=st["serial_distinct_nontrivial"],
                   rule="replay of the generated calls of the real copy functions / serialiser", exhaustive=False))
    return True


def extra_c12(res):
    """want['extra'] of check_C12: the record of the other stages with this stage's record added"""
    import sched_lib

    d = sched_lib.extra_c12(res)
    d["serial"] = extra(res)
    return d


TITLES = {"flash": "the constants tensor of the output file does not hold the source constants",
          "span_scratch": "the scratch tensor does not start at 0 / span every arena tensor",
          "span_fast": "the fast-scratch tensor does not start at 0 / span every fast-scratch tensor",
          "order": "region n of the command stream is not operand n + 1 of the Ethos-U operator",
          "report": "a reported memory figure is below the extent published in the output file"}
NAMES = {"copy": "Model/Serialise.copyCompressed / copyIfm = npu_serialisation.copy_compressed_values_to_memory_tensor / "
                 "copy_ifm_values_to_memory_tensor (generated tensors, real NumPy)",
         "serial1": "Model/Serialise.serialise = npu_serialisation.serialise_npu_subgraph_into_tensors (generated subgraph descriptions)",
         "serial": "Model/Serialise.serialiseAll + finalSizes + rewriteInputs = npu_serialisation.serialise_npu_subgraph_into_tensors / "
                   "rewrite_npu_call_ops and the sizing in compiler_driver",
         "reported": "Model/Reported.books / csvMemory / consoleMemory / totalEncoded = tensor_allocation.allocate_tensors bookkeeping, "
                     "stats_writer.write_summary_metrics_csv / print_performance_metrics, npu_performance weight totals"}


def _diff(model, real):
    """first differing field of two answers"""
    fm, fr = model.split(" "), real.split(" ")
    for a, b in zip(fm, fr):
        if a != b:
            if len(a) > 200 or len(b) > 200:
                la, lb = a.split(","), b.split(",")
                for i, (x, y) in enumerate(zip(la, lb)):
                    if x != y:
                        return f"{a.split('=')[0]}[{i}]: model {x} real {y}"
            return f"model {a[:200]} real {b[:200]}"
    return f"model {model[:200]} real {real[:200]}"


def stage(ck, outs, prefix="serial_"):
    import time

    import common

    t0 = time.time()
    recs, owners, specs, sowners = [], [], [], []
    file_bad = {}
    for o in outs:
        s = o.get("serial")
        if s is None and isinstance(o.get("extra"), dict):
            s = o["extra"].get("serial")
        if not s:
            continue
        for e in s["errors"]:
            raise common.InfraError("serialisation-stage harness failed inside a worker:\n" + e)
        if s.get("skipped"):
            ck.count(prefix + "skipped")
            ck.count(prefix + "skipped: " + s["skipped"])
            continue
        if not s["model"]:
            continue
        ck.count(prefix + "compilations")
        for k, v in s["counts"].items():
            ck.count(prefix + k, v)
        f = s.get("file") or {}
        for k in ("flash_same", "cmds_same", "scratch_no_data"):
            if not f.get(k, True):
                file_bad.setdefault(k, []).append(o)
        for r in s["model"]:
            recs.append(r)
            owners.append(o)
        for sp in s["spec"]:
            specs.append(sp)
            sowners.append(o)

    def rp(o, extra_):
        d = {"profile": o["profile"], "seed": o["seed"], "index": o["idx"], "opts": o.get("opts"), "network": o.get("desc"),
             "how_to_replay": "pipe_common._worker((seed, index, profile, {'out_model': True, 'extra': serial_lib.extra_c12})) after "
                              "serial_lib.install()"}
        d.update(extra_)
        return d

    answers = ck.model([r["line"] for r in recs]) if recs else []
    sans = ck.model([s["line"] for s in specs]) if specs else []
    rejected = {}
    nspec = {}
    for s, o, a in zip(specs, sowners, sans):
        nspec[s["kind"]] = nspec.get(s["kind"], 0) + 1
        if a == "ok":
            continue
        if not a.startswith("fail"):
            raise common.InfraError(f"Spec request failed: {a[:200]}: {s['line'][:300]}")
        rejected.setdefault((o["profile"], o["idx"], o["seed"]), []).append((s, a))
    for key, lst in rejected.items():
        o = next(o for o in sowners if (o["profile"], o["idx"], o["seed"]) == key)
        by_kind = {}
        for s, a in lst:
            by_kind.setdefault(s["kind"], []).append((s, a))
        for kind, l2 in by_kind.items():
            s, a = l2[0]
            ck.violation(f"serialisation: {TITLES.get(kind, kind)}: {a[:400]} [{s['what']}] "
                         f"(network {o['idx']} {o['profile']} {o.get('opts')})",
                         rp(o, {"spec_request": s["line"][:3000], "verdict": a[:1000]}), found_input=True)
    for k, l in file_bad.items():
        o = next((x for x in l if (x["profile"], x["idx"], x["seed"]) in rejected), l[0])
        ck.violation(f"serialisation: the memory tensors of the output file are not the serialised ones ({k} is false, {len(l)} compilation(s)) "
                     f"(network {o['idx']} {o['profile']} {o.get('opts')})",
                     rp(o, {"correspondence": "output file (plain walker) vs sg.flash_tensor / command_stream_tensor values"}),
                     found_input=(o["profile"], o["idx"], o["seed"]) in rejected)
    disagreements = []
    kinds = {}
    nontrivial = set()
    for r, o, a in zip(recs, owners, answers):
        kinds[r["kind"]] = kinds.get(r["kind"], 0) + 1
        if a is None or a.startswith("err") or a == "?":
            if a is None or not a.startswith("err:"):
                raise common.InfraError(f"model request failed: {str(a)[:200]}: {r['line'][:300]}")
        if r["kind"] == "serial":
            if r.get("nsrc", 0) >= 2:
                nontrivial.add(zlib.adler32(r["line"].encode()))
            ck.count(prefix + "source_constants", r.get("nsrc", 0))
            ck.count(prefix + ("dedicated_sram_compilations" if r.get("spilling") else "shared_or_sram_only_compilations"))
            if r.get("nsg", 1) > 1:
                ck.count(prefix + "compilations_with_several_npu_subgraphs")
            if not r.get("kept", True):
                disagreements.append((r, o, "the original operands of a call operator are not kept behind the memory tensors"))
                continue
        elif r["kind"] in ("copy", "serial1"):
            ck.count(prefix + "stub_" + r["kind"] + "_" + ("ok" if r["real"].startswith("ok") else r["real"]))
        elif not r.get("nng_matches_csv", True):
            disagreements.append((r, o, "nng.memory_used / total_npu_encoded_weights differ from the CSV row"))
            continue
        if a != r["real"]:
            disagreements.append((r, o, _diff(a, r["real"])))
    seen_kind = set()
    for r, o, why in disagreements:
        if r["kind"] in seen_kind:
            continue
        seen_kind.add(r["kind"])
        same = [x for x in disagreements if x[0]["kind"] == r["kind"]]
        hit = next((x for x in same if (x[1]["profile"], x[1]["idx"], x[1]["seed"]) in rejected), None)
        if hit is not None:
            r, o, why = hit
        key = (o["profile"], o["idx"], o["seed"])
        ck.violation(f"serialisation: model and code disagree on {r['kind']} ({len(same)} compilation(s)): {why[:500]} "
                     f"(network {o['idx']} {o['profile']} {o.get('opts')})",
                     rp(o, {"correspondence": NAMES.get(r["kind"]), "request": r["line"][:3000], "real": r["real"][:2000],
                            "spec_rejects_same_network": key in rejected}), found_input=key in rejected)
    return {prefix + "stage_s": round(time.time() - t0, 2), prefix + "model_requests": len(recs), prefix + "spec_requests": len(specs),
            prefix + "distinct_nontrivial": len(nontrivial), prefix + "disagreements": len(disagreements),
            prefix + "spec_rejections": sum(len(v) for v in rejected.values()), prefix + "requests_by_kind": kinds,
            prefix + "spec_by_kind": nspec}
