"""Helpers of check_C10: protocol lines for Model/Box, Model/Stripes, Model/Cascade and Spec/Receptive,
calls into the real code (in-process), mock scheduler objects that drive the real
`generate_high_level_commands_for_sched_op`, and the worker-side extraction for compiled networks.

Nothing here decides pass/fail: it only builds requests and canonicalises what the real code returned."""
from types import SimpleNamespace

DASH8 = ["-"] * 8


def _c(v):
    return [str(int(x)) for x in v]


def tin_tokens(box_s, box_e, strides, skirt, ifm, full_depth, concat, kdil, split, up, bin_ew):
    """the 34 tokens of a `box` request; strides = (sy, sx) | None; skirt = (t, l, b, r) | None;
    split = (offset4, shape4) | None"""
    t = _c(box_s) + _c(box_e)
    t += _c(strides) if strides is not None else ["-", "-"]
    t += _c(skirt) if skirt is not None else ["-"] * 4
    t += _c(ifm) + [str(int(bool(full_depth)))] + _c(concat) + [str(int(kdil))]
    t += (_c(split[0]) + _c(split[1])) if split is not None else DASH8
    t += [str(int(up)), str(int(bool(bin_ew)))]
    return t


def real_transform(box_s, box_e, strides, skirt, ifm, full_depth, concat, kdil, split, up, bin_ew):
    """call the real Box.transform_with_strides_and_skirt; canonical answer line"""
    from ethosu.vela.high_level_command_stream import Box
    from ethosu.vela.operation import NpuBlockType, Op
    from ethosu.vela.shape4d import Shape4D

    try:
        b = Box(list(box_s), list(box_e))
    except AssertionError:
        return "err:input"
    try:
        nb, pt, pb = b.transform_with_strides_and_skirt(
            [1, strides[0], strides[1], 1] if strides is not None else None,
            list(skirt) if skirt is not None else None,
            Shape4D(list(ifm)),
            NpuBlockType.ConvolutionMxN if full_depth else NpuBlockType.ConvolutionDepthWise,
            list(concat),
            kdil,
            Shape4D(list(split[0])) if split is not None else None,
            Shape4D(list(split[1])) if split is not None else None,
            up,
            Op.Add if bin_ew else Op.Conv2DBias,
        )
    except AssertionError:
        return "err:assert"
    except ZeroDivisionError:
        return "err:value"
    return "ok " + " ".join(_c(nb.start_coord) + _c(nb.end_coord) + [str(int(pt)), str(int(pb))])


def real_create_padding(vp, explicit, first, last, cmd_top, cmd_bottom, bx0, bx1, read, ifm_w, tile):
    from ethosu.vela.high_level_command_to_npu_op import create_padding
    from ethosu.vela.operation import NpuBlockType, Padding
    from ethosu.vela.shape4d import Shape4D
    from ethosu.vela.tensor import TensorFormat
    from ethosu.vela.api import NpuOperationType

    primary_op = SimpleNamespace(
        type=SimpleNamespace(npu_block_type=NpuBlockType.VectorProduct if vp else NpuBlockType.ConvolutionDepthWise),
        attrs={"explicit_padding": tuple(explicit), "padding": Padding.TILE if tile else Padding.EXPLICIT},
        read_offsets=[Shape4D([0, 0, read[0], 0]) if read is not None else None, None],
        read_shapes=[Shape4D([1, 1, read[1], 1]) if read is not None else None, None],
    )
    cmd = SimpleNamespace(is_first_h_stripe=bool(first), is_last_h_stripe=bool(last), pad_top=cmd_top, pad_bottom=cmd_bottom,
                          ifm_box=SimpleNamespace(start_coord=[0, 0, bx0, 0], end_coord=[1, 1, bx1, 1]),
                          ps=SimpleNamespace(ifm_shapes=[Shape4D([1, 1, ifm_w, 1])]),
                          ifm_tensor=SimpleNamespace(format=TensorFormat.NHCWB16, dtype=None))
    if tile and not vp:
        # tile padding rewrites the tile addresses; only the returned NpuPadding is compared
        from ethosu.vela import high_level_command_to_npu_op as hl
        orig = hl.modify_tile_addresses_for_padding
        hl.modify_tile_addresses_for_padding = lambda tiles, *a, **k: tiles
        try:
            npu_op = SimpleNamespace(op_type=NpuOperationType.ConvDepthWise, ifm=SimpleNamespace(tiles=None))
            p = create_padding(cmd, primary_op, npu_op)
        finally:
            hl.modify_tile_addresses_for_padding = orig
    else:
        p = create_padding(cmd, primary_op, SimpleNamespace(op_type=None, ifm=None))
    return f"{int(p.top)} {int(p.left)} {int(p.bottom)} {int(p.right)}"


# ------------------------------------------------------------------------------------------------
# operator descriptor (everything the generator reads for one sched_op), from real or mock objects


def opdesc(sched_op, schedule):
    """Mirror of the parameter extraction at the top of generate_high_level_commands_for_sched_op.
    Returns a dict of plain ints/lists."""
    from ethosu.vela.architecture_allocator import is_nearest
    from ethosu.vela.numeric_util import round_up_divide
    from ethosu.vela.operation import NpuBlockType, Op
    from ethosu.vela.shape4d import Shape4D

    op_info = schedule.cost_map[sched_op]
    ps = sched_op.parent_ps
    parent_op = sched_op.parent_op
    npu_block_type = ps.npu_block_type
    ifm_t, ifm2_t, w_t, _, _ = parent_op.get_ifm_ifm2_weights_biases_ofm()
    ifm = sched_op.ifm
    ofm_shape = sched_op.ofm.shape
    ks = sched_op.kernel.stride
    skirt = parent_op.attrs.get("skirt", None)
    up = 1
    if sched_op.op_type == Op.Conv2DBackpropInputSwitchedBias:
        up = ofm_shape.height // sched_op.ifm_read_shape.height
    elif is_nearest(sched_op.resampling_mode):
        up = round_up_divide(ofm_shape.height, sched_op.ifm_read_shape.height)
    k_height = 1
    if npu_block_type in (NpuBlockType.Pooling, NpuBlockType.ReduceSum):
        k_height = parent_op.attrs["ksize"][1]
    elif w_t is not None:
        k_height = w_t.shape[0]
    dil = parent_op.attrs.get("dilation", (1, 1, 1, 1))[-3]
    kdil = dil * (k_height - 1) + 1
    slices = list(op_info.ofm_depth_slices)
    ofm_start = Shape4D(0, 0, 0, slices[0])
    ofm_end = ofm_shape
    write_offset = Shape4D(0, 0, 0, 0)
    if parent_op.write_offset is not None:
        write_offset = parent_op.write_offset
        ofm_start = write_offset
        ofm_end = parent_op.write_offset + parent_op.write_shape
    ro, rs = parent_op.read_offsets[0], parent_op.read_shapes[0]
    step = op_info.stripe
    return {
        "s": [int(x) for x in ofm_start.as_list()], "e": [int(x) for x in ofm_end.as_list()],
        "step": [int(step.height), int(step.width)], "slices": [int(x) for x in slices],
        "strides": (int(ks.y), int(ks.x)), "skirt": [int(x) for x in skirt] if skirt is not None else None,
        "ifm": [int(x) for x in ifm.shape.as_list()],
        "full_depth": npu_block_type in (NpuBlockType.ConvolutionMxN, NpuBlockType.VectorProduct, NpuBlockType.ReduceSum),
        "concat": [int(x) for x in write_offset.as_list()], "kdil": int(kdil),
        "split": ([int(x) for x in ro.as_list()], [int(x) for x in rs.as_list()]) if ro is not None else None,
        "up": int(up), "bin_ew": bool(sched_op.op_type.is_binary_elementwise_op()),
    }


def opdesc_token(d):
    head = d["s"] + d["e"] + d["step"] + [len(d["slices"])] + d["slices"]
    tail = tin_tokens([0] * 4, [0] * 4, d["strides"], d["skirt"], d["ifm"], d["full_depth"], d["concat"], d["kdil"],
                      d["split"], d["up"], d["bin_ew"])[8:]
    return ",".join([str(x) for x in head] + tail)


def cmd_token(opi, ofm_box, ifm_box, pt, pb):
    o_s, o_e = ofm_box.start_coord, ofm_box.end_coord
    i_s, i_e = ifm_box.start_coord, ifm_box.end_coord
    return (f"{opi}:{int(o_s[1])},{int(o_e[1])},{int(o_s[2])},{int(o_e[2])},{int(o_s[3])},{int(o_e[3])}:" +
            ",".join(str(int(x)) for x in list(i_s) + list(i_e)) + f":{int(pt)}:{int(pb)}")


# ------------------------------------------------------------------------------------------------
# mock scheduler objects: drive the REAL generator with arbitrary (small) parameters


class NS:
    """attribute bag with identity hash (SimpleNamespace is unhashable)"""

    def __init__(self, **kw):
        self.__dict__.update(kw)


class MockOp:
    """one operator of a mock cascade"""

    def __init__(self, ifm_shape, ofm_shape, kernel_h, stride, dilation, skirt, step, slices, conv=True, pool=False,
                 write_offset=None, write_shape=None, read_offset=None, read_shape=None, upscale=None, elementwise=False):
        self.__dict__.update(locals())


def build_mock_cascade(ops):
    """ops: list of MockOp from first to last. Returns (last sched_op, schedule, [ps...])"""
    from ethosu.vela.operation import NpuBlockType, Op
    from ethosu.vela.shape4d import Shape4D
    from ethosu.vela.ethos_u55_regs.ethos_u55_regs import resampling_mode

    schedule = NS(cost_map={}, cascades={})
    sched_ops, pss = [], []
    casc = 1 if len(ops) > 1 else 0
    prev = None
    for i, m in enumerate(ops):
        if m.elementwise:
            bt, optype = NpuBlockType.ElementWise, Op.Add
        elif m.pool:
            bt, optype = NpuBlockType.Pooling, Op.MaxPool
        elif m.conv:
            bt, optype = NpuBlockType.ConvolutionMxN, Op.Conv2DBias
        else:
            bt, optype = NpuBlockType.ConvolutionDepthWise, Op.DepthwiseConv2DBias
        rmode = resampling_mode.NONE
        if m.upscale == "transpose":
            optype, rmode = Op.Conv2DBackpropInputSwitchedBias, resampling_mode.TRANSPOSE
        elif m.upscale == "nearest":
            rmode = resampling_mode.NEAREST
        ofm_shape = Shape4D(list(m.ofm_shape))
        ifm_shape = Shape4D(list(m.ifm_shape))
        w_t = NS(shape=[m.kernel_h, m.kernel_h, m.ifm_shape[3], m.ofm_shape[3]]) if not (m.pool or m.elementwise) else None
        dh_, dw_ = m.dilation if isinstance(m.dilation, (tuple, list)) else (m.dilation, m.dilation)
        attrs = {"dilation": (1, dh_, dw_, 1)}      # NHWC tuple: height factor at [-3], width factor at [-2]
        if m.skirt is not None:
            attrs["skirt"] = tuple(m.skirt)
        if m.pool:
            attrs["ksize"] = (1, m.kernel_h, m.kernel_h, 1)
        parent_op = NS(
            attrs=attrs, read_offsets=[Shape4D(list(m.read_offset)) if m.read_offset is not None else None, None],
            read_shapes=[Shape4D(list(m.read_shape)) if m.read_shape is not None else None, None],
            write_offset=Shape4D(list(m.write_offset)) if m.write_offset is not None else None,
            write_shape=Shape4D(list(m.write_shape)) if m.write_shape is not None else None,
            activation_lut=None, type=optype, inputs=[], activation=None)
        ifm_t, ofm_t = NS(name=f"ifm{i}"), NS(name=f"ofm{i}")
        parent_op.get_ifm_ifm2_weights_biases_ofm = (lambda a=ifm_t, w=w_t, o=ofm_t: (a, None, w, None, o))
        full = Shape4D([max(a, b) for a, b in zip(m.ofm_shape, (list((Shape4D(list(m.write_offset)) + Shape4D(list(m.write_shape))).as_list())
                                                                  if m.write_offset is not None else m.ofm_shape))])
        ps = NS(npu_block_type=bt, ofm_tensor=ofm_t, ops=[], primary_op=parent_op, ofm_shapes=[full],
                             ifm_shapes=[ifm_shape], name=f"ps{i}")
        sy_ = m.stride[0] if isinstance(m.stride, (tuple, list)) else m.stride
        sx_ = m.stride[1] if isinstance(m.stride, (tuple, list)) else m.stride
        # a real Kernel object (the generator may read any of its fields, not only the stride); a stub whose attributes fall
        # short of the real class turned a seeded change (C10 seed3-m1: k_dilated_height from kernel.dilation) into a harness crash
        from ethosu.vela.operation import Kernel
        kern = Kernel(m.kernel_h, m.kernel_h, stride_x=sx_, stride_y=sy_, dilation_x=dw_, dilation_y=dh_)
        so = NS(parent_ps=ps, parent_op=parent_op, ifm2=None, ofm=NS(shape=ofm_shape),
                             kernel=kern, op_type=optype,
                             resampling_mode=rmode, reversed_operands=False, index=i)
        so.ifm = NS(shape=ifm_shape, connection=NS(producers=[prev] if prev is not None else []))
        so.ifm_read_shape = parent_op.read_shapes[0] if parent_op.read_shapes[0] is not None else ifm_shape
        info = NS(cascade=casc, block_config=NS(old_style_representation=lambda: [1, 1, 1, 1]),
                               stripe=Shape4D([1, m.step[0], m.step[1], m.ofm_shape[3]]), ofm_depth_slices=list(m.slices),
                               npu_weights_tensor=None, npu_scales_tensor=None, buffered_weight_tensors=[])
        schedule.cost_map[so] = info
        sched_ops.append(so)
        pss.append(ps)
        prev = so
    if casc:
        schedule.cascades[1] = NS(start=0, end=len(ops) - 1)
    return sched_ops, schedule, pss


def run_real_generator(sched_ops, schedule, pss):
    """the real generator on (mock) scheduler objects → canonical `ok cmd;cmd…[ err:x]` line"""
    from ethosu.vela.high_level_command_stream import NpuStripe
    from ethosu.vela.high_level_command_stream_generator import generate_high_level_commands_for_sched_op

    out, err = [], ""
    idx = {id(ps): i for i, ps in enumerate(pss)}
    try:
        for c in generate_high_level_commands_for_sched_op(sched_ops[-1], schedule):
            if isinstance(c, NpuStripe):
                out.append(cmd_token(idx[id(c.ps)], c.ofm_box, c.ifm_box, c.pad_top, c.pad_bottom))
    except AssertionError:
        err = " err:assert"
    except ValueError:
        err = " err:value"
    except ZeroDivisionError:
        err = " err:value"
    except AttributeError as e:
        # the generator read a field the mock scheduler objects do not carry: the model can no longer be compared on mocks.
        # Reported as a broken correspondence (the pipeline tier then decides on real compilations), not as a harness crash.
        err = " err:mock-attribute:" + str(e).replace(" ", "_")[:80]
    return "ok " + ";".join(out) + err


# ------------------------------------------------------------------------------------------------
# worker-side extraction from a compiled network (pipe_common `extra` callback): plain data only


def _k_of(op):
    k = op.kernel
    return dict(kh=int(k.height), kw=int(k.width), sy=int(k.stride.y), sx=int(k.stride.x), dy=int(k.dilation.y), dx=int(k.dilation.x))


def extract(res):
    """For every captured stream: per NPU stripe the facts the Lean Spec needs, per cascade the operator
    descriptors (for the model's issue order) and the real issue order."""
    from ethosu.vela import cascade_builder
    from ethosu.vela.high_level_command_stream import DMA, NpuStripe
    from ethosu.vela.operation import NpuBlockType
    from ethosu.vela.tensor import TensorPurpose
    from ethosu.vela.ethos_u55_regs.ethos_u55_regs import resampling_mode

    streams = []
    for art in res.streams:
        sg = art.sg
        if sg is None:
            continue
        cmd_to_npu = {id(c): o for o, c in (art.op_to_cmd or {}).items()}
        tids = {}

        def tid(t, view):
            # a reshaped view of the same bytes has another row geometry: judged separately
            return tids.setdefault((t.equivalence_id, tuple(int(x) for x in t.storage_shape), tuple(int(x) for x in view[:3])), len(tids) + 1)

        def stor_h(t, view):
            ss = t.storage_shape
            return int(ss[1]) if len(ss) == 4 else int(view[1])

        stripes, ps_index = [], {}
        for ci, c in enumerate(sg.high_level_command_stream):
            if isinstance(c, DMA):
                if c.in_tensor.purpose == TensorPurpose.FeatureMap and c.out_tensor.purpose == TensorPurpose.FeatureMap:
                    shp = c.out_tensor.shape
                    h = int(shp[-3]) if len(shp) >= 3 else 1
                    v = ([1] * 4 + [int(x) for x in shp])[-4:]
                    stripes.append({"dma": True, "w_tid": tid(c.out_tensor, v), "w_B": stor_h(c.out_tensor, v), "w_h": h})
                continue
            if not isinstance(c, NpuStripe):
                continue
            ps = c.ps
            op = ps.primary_op
            opi = ps_index.setdefault(id(ps), len(ps_index))
            npu_op = cmd_to_npu.get(id(c))
            pad = getattr(npu_op, "padding", None) if npu_op is not None else None
            ep = op.attrs.get("explicit_padding", None)
            wo = op.write_offset
            # create_npu_elementwise_op swaps cmd.ifm/ifm2 (tensors, boxes, ps.ifm_shapes) when the broadcast operand came first
            swapped = bool(npu_op is not None and getattr(npu_op, "reversed_operands", False) and not c.reversed_operands)
            ro, rs = (op.read_offsets[1], op.read_shapes[1]) if swapped else (op.read_offsets[0], op.read_shapes[0])
            mode = {resampling_mode.NONE: 0, resampling_mode.NEAREST: 1, resampling_mode.TRANSPOSE: 2}[op.ifm_resampling_mode]
            ifm_shape = ps.ifm_shapes[0]
            rec = {
                "dma": False, "op": opi, "name": str(op.name)[:60], "type": op.type.name,
                "orig_type": op.original_type.name if getattr(op, "original_type", None) else None,
                "block": ps.npu_block_type.name, **_k_of(op),
                "explicit_padding": [int(x) for x in ep] if ep is not None else None,
                "skirt": [int(x) for x in op.attrs["skirt"]] if op.attrs.get("skirt") is not None else None,
                "padding_attr": str(op.attrs.get("padding", None)),
                "ifm_shape": [int(x) for x in ifm_shape.as_list()],
                "ofm_shape": [int(x) for x in ps.ofm_shapes[0].as_list()],
                "write_offset": [int(x) for x in wo.as_list()] if wo is not None else None,
                "write_shape": [int(x) for x in op.write_shape.as_list()] if op.write_shape is not None else None,
                "read_offset": [int(x) for x in ro.as_list()] if ro is not None else None,
                "read_shape": [int(x) for x in rs.as_list()] if rs is not None else None,
                "mode": mode,
                "ofm_box": [[int(x) for x in c.ofm_box.start_coord], [int(x) for x in c.ofm_box.end_coord]],
                "ifm_box": [[int(x) for x in c.ifm_box.start_coord], [int(x) for x in c.ifm_box.end_coord]],
                "cmd_pad": [int(c.pad_top), int(c.pad_bottom)], "first": bool(c.is_first_h_stripe), "last": bool(c.is_last_h_stripe),
                "hw_pad": [int(pad.top), int(pad.left), int(pad.bottom), int(pad.right)] if pad is not None else None,
                "ifm_tid": tid(c.ifm_tensor, ifm_shape.as_list()), "ifm_B": stor_h(c.ifm_tensor, ifm_shape.as_list()),
                "ofm_tid": tid(c.ofm_tensor, ps.ofm_shapes[0].as_list()), "ofm_B": stor_h(c.ofm_tensor, ps.ofm_shapes[0].as_list()),
                "ifm_rank": len(c.ifm_tensor.storage_shape), "ofm_rank": len(c.ofm_tensor.storage_shape),
                "has_ifm2": c.ifm2_tensor is not None, "swapped": swapped,
                "ifm2_shape": [int(x) for x in ps.ifm_shapes[1].as_list()] if len(ps.ifm_shapes) > 1 and ps.ifm_shapes[1] is not None else None,
                "ofm_stride_multiplier": op.attrs.get("ofm_stride_multiplier", None) is not None or getattr(op, "ofm_stride_multiplier", None) not in (None, [1, 1, 1]),
                "ifm_stride_multiplier": getattr(op, "ifm_stride_multiplier", None) not in (None, [[1, 1, 1], [1, 1, 1]]),
                "tile_base": (any(int(x) != 0 for x in op.tile_base_offsets_ifm[0]) or any(int(x) != 0 for x in op.tile_base_offsets_ofm))
                if hasattr(op, "tile_base_offsets_ifm") else False,
                "vp": ps.npu_block_type == NpuBlockType.VectorProduct,
                "ifm_box_x": [int(c.ifm_box.start_coord[-2]), int(c.ifm_box.end_coord[-2])] if len(c.ifm_box.start_coord) >= 2 else None,
            }
            stripes.append(rec)
        # cascades: descriptors + real order
        cascades = []
        try:
            sched = sg.schedule
            groups, seen = [], set()
            for so in sg.sched_ops:
                ci_ = sched.cost_map[so].cascade
                if ci_ == 0:
                    groups.append([so])
                elif ci_ not in seen:
                    seen.add(ci_)
                    info = sched.cascades[ci_]
                    groups.append([sg.sched_ops[i] for i in range(info.start, info.end + 1)])
            for g in groups:
                ps_ids = {id(so.parent_ps): i for i, so in enumerate(g)}
                linear = all(g[i].ifm.connection.producers and g[i].ifm.connection.producers[0] is g[i - 1] for i in range(1, len(g)))
                descs = [opdesc_token(opdesc(so, sched)) for so in g]
                def orig_ifm_box(c):
                    n = cmd_to_npu.get(id(c))
                    sw = n is not None and getattr(n, "reversed_operands", False) and not c.reversed_operands
                    return c.ifm2_box if sw else c.ifm_box

                real = [cmd_token(ps_ids[id(c.ps)], c.ofm_box, orig_ifm_box(c), c.pad_top, c.pad_bottom)
                        for c in sg.high_level_command_stream if isinstance(c, NpuStripe) and id(c.ps) in ps_ids]
                buf = []
                for i in range(1, len(g)):
                    try:
                        ci = sched.cost_map[g[i]]
                        pi = sched.cost_map[g[i - 1]]
                        t = g[i].parent_op.ifm if not g[i].reversed_operands else g[i].parent_op.ifm2
                        buf.append({"p": [int(pi.stripe.height), int(pi.stripe.width), int(pi.stripe.depth)],
                                    "c": [int(ci.stripe_input.height), int(ci.stripe_input.width)],
                                    "stor": [int(x) for x in t.storage_shape], "full_h": int(g[i].ifm.shape.height),
                                    "over": int(cascade_builder.ifm_box_overread(g[i])) if hasattr(cascade_builder, "ifm_box_overread") else 0})
                    except Exception:
                        pass
                cascades.append({"n": len(g), "linear": bool(linear), "descs": descs, "real": real, "buffers": buf,
                                 "up_zero": any(opdesc(so, sched)["up"] < 1 for so in g),
                                 "memcpy": any(so.parent_op.type.name == "Memcpy" for so in g)})
        except Exception as e:  # schedule introspection is best effort; the stripe records are the artefact
            cascades.append({"error": repr(e)[:200]})
        import hashlib
        streams.append({"stripes": stripes, "cascades": cascades,
                        "words_sha1": hashlib.sha1(",".join(map(str, art.words or [])).encode()).hexdigest()})
    return streams


# ------------------------------------------------------------------------------------------------
# exact condition of the cascade rolling-buffer defect (Props/C10 rolling_sufficient_of_slack), shared with C03


def round_up(a, b):
    return (a + b - 1) // b * b


def rolling_defect(idx, metas):
    """True iff the NPU operation `idx` (pipeline.op_meta records of one stream) reads a rolling buffer of the documented size
    round_up(p + c, c) whose consumer over-reads its IFM box by more than 1 + the round-up slack:
        stride + skirt_top + skirt_bottom - k_dil > 1 + (B - p - c)
    — the exact inequality under which `rolling_buffer_shape(p, c)` (before its repair) was too small."""
    cons = metas[idx]
    if not cons.get("cascade") or cons.get("skirt_top") is None or cons.get("ifm_storage_h") is None or not cons.get("ifm_shape"):
        return False
    prods = [m for m in metas if m.get("ofm_eq") == cons["ifm_eq"] and m.get("ofm_box") and len(m["ofm_box"][0]) == 4]
    mine = [m for m in metas if m.get("ps_id") == cons["ps_id"] and m.get("ofm_box") and len(m["ofm_box"][0]) == 4]
    if not prods or not mine:
        return False
    p = max(m["ofm_box"][1][1] - m["ofm_box"][0][1] for m in prods)
    q = max(m["ofm_box"][1][1] - m["ofm_box"][0][1] for m in mine)
    kdil = (cons["k_h"] - 1) * cons["dil_y"] + 1
    H = cons["ifm_shape"][1]
    c = min((q - 1) * cons["stride_y"] + kdil, H)
    B = cons["ifm_storage_h"]
    over = cons["stride_y"] + cons["skirt_top"] + cons["skirt_bottom"] - kdil
    return B < H and B == round_up(p + c, c) and over > 1 + (B - p - c)


# ------------------------------------------------------------------------------------------------
# extra network profiles for C10 (used through pipe_common with make_net / sample_config replaced)

C10_PROFILES = ["c10_asym_stride", "c10_pad_tall", "c10_slice", "c10_upscale", "c10_dilated", "c10_pool_chain", "c10_slice_upscale", "c10_asym_dilation"]


def source_conv_options(net):
    """{output tensor name: [kh, kw, stride_h, stride_w, dilation_h, dilation_w]} of the SOURCE model's convolutions, taken from
    the operator options the generator wrote into the flatbuffer (independent of anything Vela derives)"""
    out = {}
    for o in net.ops:
        if o.kind in ("CONV_2D", "DEPTHWISE_CONV_2D") and o.opts:
            od = o.opts[1]
            w = net.tensors[o.inputs[1]].shape
            out[net.tensors[o.outputs[0]].name] = [int(w[1]), int(w[2]), int(od["StrideH"]), int(od["StrideW"]),
                                                   int(od["DilationHFactor"]), int(od["DilationWFactor"])]
    return out


def make_net_c10(rng, idx, profile):
    import json

    net = _make_net_c10(rng, idx, profile)
    net.desc.append("src_conv=" + json.dumps(source_conv_options(net)))
    return net


def _make_net_c10(rng, idx, profile):
    import netgen
    import pipe_common

    if profile == "known_pad_tall":
        b = netgen.B(rng, f"padtall{idx}", "int8")
        x = b.input([1, 128, 16, 16])
        cur = b.conv(x, 16, (3, 3), (1, 1), (1, 1), "SAME")
        cur = b.pad(cur, [[0, 0], [1, 1], [0, 0], [0, 0]])
        cur = b.conv(cur, 16, (2, 2), (1, 1), (1, 1), "VALID")
        cur = b.conv(cur, 16, (3, 3), (3, 3), (1, 1), "SAME")
        cur = b.conv(cur, 16, (3, 3), (1, 1), (1, 1), "SAME")
        b.net.desc.append("conv3x3 -> PAD(1,1 rows) -> conv2x2 VALID -> conv3x3/s3 -> conv3x3, IFM 1x128x16x16")
        return b.finish([cur])
    if profile == "known_odd_upscale":
        b = netgen.B(rng, f"oddup{idx}", "int8")
        x = b.input([1, 4, 4, 16])
        cur = b.conv(x, 16, (3, 3), (1, 1), (1, 1), "SAME")
        cur = b.resize(cur, 4, "RESIZE_NEAREST_NEIGHBOR", False, False)
        cur = b.conv(cur, 16, (3, 3), (2, 2), (1, 1), "SAME")
        b.net.desc.append("conv3x3 -> RESIZE_NEAREST_NEIGHBOR x4 -> conv3x3/s2, IFM 1x4x4x16")
        return b.finish([cur])
    if profile == "c10_asym_stride":
        # cascaded convolutions whose vertical stride differs from the horizontal one, followed by a stride-2 consumer so that the
        # asymmetric operator runs with stripes of more than one row
        b = netgen.B(rng, f"asyms{idx}", "int8")
        h, w, c = rng.choice([37, 40, 48, 64, 72]), rng.choice([32, 48, 64]), rng.choice([8, 16])
        x = b.input([1, h, w, c])
        cur = b.conv(x, c, (3, 3), (1, 1), (1, 1), "SAME")
        st = rng.choice([(3, 1), (2, 1), (3, 1), (1, 2), (1, 3), (3, 2), (2, 3)])
        k = rng.choice([3, 3, 5, 2])
        new = b.conv(cur, c, (k, k), st, (1, 1), rng.choice(["SAME", "SAME", "VALID"])) if rng.random() < 0.7 else \
            b.dwconv(cur, (k, k), st, (1, 1), "SAME")
        cur = new if new is not None else cur
        new = b.conv(cur, c, (3, 3), (2, 2), (1, 1), "SAME")
        cur = new if new is not None else cur
        b.net.desc.append(f"asym_stride in={[1, h, w, c]} k={k} (stride_h, stride_w)={st}")
        return b.finish([cur])
    if profile == "c10_asym_dilation":
        # cascaded SAME convolutions / depthwise with dilation_h != dilation_w, stride 1, tall enough to be striped with --optimise Size
        b = netgen.B(rng, f"asym{idx}", "int8")
        h, w, c = rng.choice([40, 48, 56, 64, 80, 96]), rng.choice([16, 24, 32]), rng.choice([16, 32])
        x = b.input([1, h, w, c])
        cur = b.conv(x, c, (3, 3), (1, 1), (1, 1), "SAME")
        dils = []
        for _ in range(rng.randint(1, 3)):
            k = rng.choice([2, 3, 3, 5])
            d = rng.choice([(1, 2), (2, 1), (2, 1), (3, 1), (1, 3), (3, 2), (2, 3)])
            dils.append((k, d))
            if rng.random() < 0.6:
                new = b.conv(cur, c, (k, k), (1, 1), d, "SAME", act=rng.choice([0, 1]))
            else:
                new = b.dwconv(cur, (k, k), (1, 1), d, "SAME")
            cur = new if new is not None else cur
        cur = b.conv(cur, c, (3, 3), (rng.choice([1, 1, 2]),) * 2, (1, 1), "SAME") or cur
        b.net.desc.append(f"asym_dilation in={[1, h, w, c]} (k, (dil_h, dil_w))={dils}")
        return b.finish([cur])
    if profile == "c10_pad_tall":
        b = netgen.B(rng, f"pad{idx}", "int8")
        h, w, c = rng.choice([48, 64, 96, 128]), rng.choice([16, 32]), rng.choice([16, 32])
        x = b.input([1, h, w, c])
        cur = b.conv(x, c, (3, 3), (1, 1), (1, 1), "SAME")
        k = rng.choice([2, 3, 4, 5])
        t, bo, l, r = (rng.randint(0, k // 2) for _ in range(4))
        cur = b.pad(cur, [[0, 0], [t, bo], [l, r], [0, 0]])
        kind = rng.choice(["conv", "dw"])
        new = b.conv(cur, c, (k, k), (rng.choice([1, 1, 2]),) * 2, (1, 1), "VALID") if kind == "conv" else b.dwconv(cur, (k, k), (1, 1), (1, 1), "VALID")
        cur = new if new is not None else cur
        new = b.conv(cur, c, (3, 3), (rng.choice([1, 2, 3]),) * 2, (1, 1), "SAME")
        cur = new if new is not None else cur
        cur = b.conv(cur, c, (3, 3), (1, 1), (1, 1), "SAME") or cur
        b.net.desc.append(f"pad_tall in={[1, h, w, c]} k={k} pads={(t, bo, l, r)} {kind}")
        return b.finish([cur])
    if profile == "c10_slice":
        b = netgen.B(rng, f"slice{idx}", "int8")
        h, w, c = rng.choice([24, 40, 64]), rng.choice([16, 32]), rng.choice([8, 16])
        x = b.input([1, h, w, c])
        cur = b.conv(x, c, (3, 3), (1, 1), (1, 1), "SAME") if rng.random() < 0.5 else x
        b0, b1 = rng.randint(0, 5), rng.randint(0, 5)
        cur = b.strided_slice(cur, [0, b0, b1, 0], [1, h - rng.randint(0, 4), w - rng.randint(0, 4), c])
        k = rng.choice([1, 3, 3, 5])
        new = b.conv(cur, c, (k, k), (rng.choice([1, 1, 2]),) * 2, (1, 1), rng.choice(["SAME", "VALID"]))
        cur = new if new is not None else cur
        cur = b.conv(cur, c, (3, 3), (1, 1), (1, 1), "SAME") or cur
        b.net.desc.append(f"slice in={[1, h, w, c]} begin={(b0, b1)} k={k}")
        return b.finish([cur])
    if profile == "c10_slice_upscale":
        b = netgen.B(rng, f"slup{idx}", "int8")
        h, w, c = rng.choice([6, 8, 12, 16]), rng.choice([4, 8, 16]), rng.choice([8, 16])
        x = b.input([1, h, w, c])
        cur = b.conv(x, c, (3, 3), (1, 1), (1, 1), "SAME") if rng.random() < 0.5 else x
        b0, b1 = rng.randint(0, 3), rng.randint(0, 2)
        cur = b.strided_slice(cur, [0, b0, b1, 0], [1, h - rng.randint(0, 2), w - rng.randint(0, 1), c])
        if rng.random() < 0.5:
            new = b.transpose_conv(cur, c, rng.choice([(2, 2), (3, 3), (4, 4)]), (2, 2), rng.choice(["SAME", "VALID"]))
        else:
            new = b.resize(cur, 2, rng.choice(["RESIZE_BILINEAR", "RESIZE_NEAREST_NEIGHBOR"]),
                           *rng.choice([(False, False), (True, False), (False, True)]))
        cur = new if new is not None else cur
        cur = b.conv(cur, c, (3, 3), (1, 1), (1, 1), "SAME") or cur
        b.net.desc.append(f"slice_upscale in={[1, h, w, c]} begin={(b0, b1)}")
        return b.finish([cur])
    if profile == "c10_upscale":
        b = netgen.B(rng, f"up{idx}", "int8")
        h, w, c = rng.choice([4, 6, 8, 12, 16]), rng.choice([4, 8, 16]), rng.choice([8, 16])
        x = b.input([1, h, w, c])
        cur = b.conv(x, c, (3, 3), (1, 1), (1, 1), "SAME") if rng.random() < 0.6 else x
        if rng.random() < 0.5:
            new = b.transpose_conv(cur, c, rng.choice([(2, 2), (3, 3), (4, 4)]), (2, 2), rng.choice(["SAME", "VALID"]))
        else:
            new = b.resize(cur, rng.choice([2, 2, 4]), rng.choice(["RESIZE_BILINEAR", "RESIZE_NEAREST_NEIGHBOR"]),
                           *rng.choice([(False, False), (True, False), (False, True)]))
        cur = new if new is not None else cur
        cur = b.conv(cur, c, (3, 3), (rng.choice([1, 2]),) * 2, (1, 1), "SAME") or cur
        b.net.desc.append(f"upscale in={[1, h, w, c]}")
        return b.finish([cur])
    if profile == "c10_dilated":
        b = netgen.B(rng, f"dil{idx}", "int8")
        h, w, c = rng.choice([24, 33, 48, 64]), rng.choice([16, 32]), rng.choice([8, 16, 32])
        x = b.input([1, h, w, c])
        cur = x
        for _ in range(rng.randint(2, 4)):
            k = rng.choice([2, 3, 3, 5])
            d = rng.choice([1, 2, 2, 3])
            new = b.conv(cur, c, (k, k), (1, 1), (d, d), rng.choice(["SAME", "SAME", "VALID"])) if rng.random() < 0.7 else \
                b.dwconv(cur, (k, k), (1, 1), (d, d), "SAME")
            cur = new if new is not None else cur
        b.net.desc.append(f"dilated in={[1, h, w, c]}")
        if cur == x:
            cur = b.unary("RELU", x)
        return b.finish([cur])
    if profile == "c10_pool_chain":
        return netgen.cascade_net(rng, idx, specs=[(rng.choice([2, 3, 4, 5, 7]), rng.choice([1, 2, 3]), rng.choice(["SAME", "VALID"]),
                                                    rng.choice(["conv", "dw", "pool", "pool"])) for _ in range(rng.randint(2, 4))])
    return pipe_common._orig_make_net(rng, idx, profile)


def sample_config_c10(rng, profile):
    import pipe_common

    if profile == "known_pad_tall":
        return ["--accelerator-config", "ethos-u65-256", "--optimise", "Size"]
    if profile == "known_odd_upscale":
        return ["--accelerator-config", "ethos-u65-256", "--optimise", "Size", "--arena-cache-size", "65536"]
    if profile in ("c10_asym_dilation", "c10_asym_stride"):
        return ["--accelerator-config", rng.choice(["ethos-u55-32", "ethos-u55-64", "ethos-u55-128", "ethos-u55-128"]), "--optimise", "Size"]
    if profile in C10_PROFILES:
        acc = rng.choice(["ethos-u55-32", "ethos-u55-64", "ethos-u55-128", "ethos-u55-128", "ethos-u55-256", "ethos-u65-256", "ethos-u65-512"])
        opts = ["--accelerator-config", acc, "--optimise", rng.choice(["Size", "Size", "Size", "Performance"])]
        if rng.random() < 0.3:
            opts += ["--arena-cache-size", str(rng.choice([16384, 65536, 131072]))]
        return opts
    return pipe_common._orig_sample_config(rng, profile)


def install_profiles():
    import pipe_common

    if not hasattr(pipe_common, "_orig_make_net"):
        pipe_common._orig_make_net = pipe_common.make_net
        pipe_common._orig_sample_config = pipe_common.sample_config
        pipe_common.make_net = make_net_c10
        pipe_common.sample_config = sample_config_c10
