"""Generator of small quantised TFLite networks (no tensorflow): a tiny IR, a serialiser built on
flatbuffers.Builder + the schema classes shipped in /repo/ethosu/vela/tflite, and random generators
biased towards what the properties need (cascades, weight buffering, mixed CPU/NPU, corner shapes).

Everything random comes from the `random.Random` passed in, so a network replays from (seed, index).
"""
import importlib
import math

import flatbuffers
import numpy as np

NP = {"int8": np.int8, "uint8": np.uint8, "int16": np.int16, "int32": np.int32, "int64": np.int64,
      "float32": np.float32, "bool": np.bool_}
TT = {"float32": 0, "float16": 1, "int32": 2, "uint8": 3, "int64": 4, "string": 5, "bool": 6, "int16": 7,
      "complex64": 8, "int8": 9}


def _m(name):
    return importlib.import_module("ethosu.vela.tflite." + name)


class T:
    def __init__(self, name, shape, dtype="int8", scales=None, zps=None, qdim=0, data=None, variable=False, qmin=None, qmax=None):
        self.name, self.shape, self.dtype = name, list(shape), dtype
        self.scales, self.zps, self.qdim, self.data, self.variable = scales, zps, qdim, data, variable
        self.qmin, self.qmax = qmin, qmax        # optional QuantizationParameters.min / .max (lists of floats)


class Op:
    def __init__(self, kind, inputs, outputs, opts=None, custom_code=None, custom_options=None, version=1):
        self.kind, self.inputs, self.outputs, self.opts = kind, list(inputs), list(outputs), opts
        self.custom_code, self.custom_options, self.version = custom_code, custom_options, version


class Net:
    def __init__(self, name="net"):
        self.name, self.tensors, self.ops, self.inputs, self.outputs = name, [], [], [], []
        self.desc = []          # human-readable description of how it was generated

    def add(self, t):
        self.tensors.append(t)
        return len(self.tensors) - 1

    def describe(self):
        return {"name": self.name, "ops": [o.kind for o in self.ops],
                "inputs": [self.tensors[i].shape for i in self.inputs], "desc": self.desc}


# option table name -> BuiltinOptions enum name
def _vec(b, elem_size, items, prepend):
    b.StartVector(elem_size, len(items), elem_size)
    for x in reversed(items):
        prepend(x)
    return b.EndVector()


def _bytes_vec(b, data, align=16):
    data = bytes(data)
    b.StartVector(1, len(data), align)
    b.head = b.head - len(data)
    b.Bytes[b.head:b.head + len(data)] = data
    return b.EndVector()


# Legal but unusual encodings of the same model, selected per tensor (`t.enc`) or per network (`net.enc`); a file written
# with any of them means the same to a TFLite runtime as the usual encoding:
#   tensor: no_zp (scale without zero_point vector = zero point 0), no_scale (zero_point without scale), empty_qvectors
#           (present-but-empty scale / zero_point vectors), empty_quant_table (QuantizationParameters without fields), no_name,
#           no_shape (absent shape vector = scalar), shape_signature (explicit, equal to the static shape), empty_data_buffer
#           (own buffer with a zero-length data vector), own_empty_buffer (attribute: own buffer without data vector)
#   network: old_opcodes (only deprecated_builtin_code for codes < 127), no_sg_name, no_description
ENCODINGS = ("no_zp", "no_scale", "empty_qvectors", "empty_quant_table", "no_name", "no_shape", "shape_signature",
             "empty_data_buffer", "old_opcodes", "no_sg_name", "no_description")


def serialize(net):
    b = flatbuffers.Builder(1024)
    BuiltinOperator = _m("BuiltinOperator").BuiltinOperator
    BuiltinOptions = _m("BuiltinOptions").BuiltinOptions
    # buffers: 0 is the empty sentinel
    buf_offsets = []
    Buffer = _m("Buffer")
    tensor_buf = {}
    datas = [None]
    for i, t in enumerate(net.tensors):
        if t.data is not None:
            tensor_buf[i] = len(datas)
            datas.append(np.ascontiguousarray(t.data, dtype=NP[t.dtype]).tobytes())
        else:
            tensor_buf[i] = 0 if not getattr(t, "own_empty_buffer", False) else None
            if tensor_buf[i] is None:
                tensor_buf[i] = len(datas)
                datas.append(None)
            elif "empty_data_buffer" in getattr(t, "enc", ()):
                # a buffer of its own whose data vector is present but has length 0 (legal; semantically no data)
                tensor_buf[i] = len(datas)
                datas.append(b"")
    for d in datas:
        dv = _bytes_vec(b, d) if d is not None else None
        Buffer.Start(b)
        if dv is not None:
            Buffer.AddData(b, dv)
        buf_offsets.append(Buffer.End(b))
    # tensors
    Tensor = _m("Tensor")
    QP = _m("QuantizationParameters")
    t_offsets = []
    for i, t in enumerate(net.tensors):
        # `t.enc`: legal but unusual encodings of the same tensor (see docstring of `ENCODINGS`); nothing changes when unset
        enc = getattr(t, "enc", ())
        name = b.CreateString(t.name) if "no_name" not in enc else None
        shape = _vec(b, 4, t.shape, b.PrependInt32) if "no_shape" not in enc else None
        shape_sig = _vec(b, 4, t.shape, b.PrependInt32) if "shape_signature" in enc else None
        q = None
        qmin, qmax = getattr(t, "qmin", None), getattr(t, "qmax", None)
        if t.scales is not None or qmin is not None or qmax is not None:
            mn = _vec(b, 4, [float(x) for x in qmin], b.PrependFloat32) if qmin is not None else None
            mx = _vec(b, 4, [float(x) for x in qmax], b.PrependFloat32) if qmax is not None else None
            sc = zp = None
            if t.scales is not None:
                sc = _vec(b, 4, [float(x) for x in t.scales], b.PrependFloat32)
                zp = _vec(b, 8, [int(x) for x in (t.zps if t.zps is not None else [0] * len(t.scales))], b.PrependInt64)
            if "no_zp" in enc:
                zp = None        # zero_point vector absent: TFLite reads zero point 0
            if "no_scale" in enc:
                sc = None        # zero_point without scale
            QP.Start(b)
            if mn is not None:
                QP.AddMin(b, mn)
            if mx is not None:
                QP.AddMax(b, mx)
            if sc is not None:
                QP.AddScale(b, sc)
            if zp is not None:
                QP.AddZeroPoint(b, zp)
            QP.AddQuantizedDimension(b, t.qdim)
            q = QP.End(b)
        elif "empty_qvectors" in enc or "empty_quant_table" in enc:
            # a QuantizationParameters table that says nothing: present-but-empty vectors, or no field at all
            sc = zp = None
            if "empty_qvectors" in enc:
                sc = _vec(b, 4, [], b.PrependFloat32)
                zp = _vec(b, 8, [], b.PrependInt64)
            QP.Start(b)
            if sc is not None:
                QP.AddScale(b, sc)
                QP.AddZeroPoint(b, zp)
            q = QP.End(b)
        Tensor.Start(b)
        if shape is not None:
            Tensor.AddShape(b, shape)
        Tensor.AddType(b, TT[t.dtype])
        Tensor.AddBuffer(b, tensor_buf[i])
        if name is not None:
            Tensor.AddName(b, name)
        if q is not None:
            Tensor.AddQuantization(b, q)
        if t.variable:
            Tensor.AddIsVariable(b, True)
        if shape_sig is not None:
            Tensor.AddShapeSignature(b, shape_sig)
        t_offsets.append(Tensor.End(b))
    # operator codes
    codes = []
    for o in net.ops:
        key = (o.kind, o.custom_code, o.version)
        if key not in codes:
            codes.append(key)
    OperatorCode = _m("OperatorCode")
    oc_offsets = []
    for kind, cc, ver in codes:
        ccs = b.CreateString(cc) if cc is not None else None
        code = getattr(BuiltinOperator, kind)
        OperatorCode.Start(b)
        OperatorCode.AddDeprecatedBuiltinCode(b, min(code, 127))
        if not ("old_opcodes" in getattr(net, "enc", ()) and code < 127):
            OperatorCode.AddBuiltinCode(b, code)      # files older than schema v3a carry only the deprecated int8 code
        OperatorCode.AddVersion(b, ver)
        if ccs is not None:
            OperatorCode.AddCustomCode(b, ccs)
        oc_offsets.append(OperatorCode.End(b))
    # operators
    Operator = _m("Operator")
    op_offsets = []
    for o in net.ops:
        opt_off, opt_type = None, 0
        if o.opts is not None:
            oname, fields = o.opts
            mod = _m(oname)
            pre = {}
            for k, v in fields.items():
                if isinstance(v, (list, tuple)):
                    pre[k] = _vec(b, 4, list(v), b.PrependInt32)
            mod.Start(b)
            for k, v in fields.items():
                getattr(mod, "Add" + k)(b, pre.get(k, v))
            opt_off = mod.End(b)
            opt_type = getattr(BuiltinOptions, oname)
        co = _bytes_vec(b, o.custom_options, 1) if o.custom_options is not None else None
        ins = _vec(b, 4, o.inputs, b.PrependInt32)
        outs = _vec(b, 4, o.outputs, b.PrependInt32)
        Operator.Start(b)
        Operator.AddOpcodeIndex(b, codes.index((o.kind, o.custom_code, o.version)))
        Operator.AddInputs(b, ins)
        Operator.AddOutputs(b, outs)
        if opt_off is not None:
            Operator.AddBuiltinOptionsType(b, opt_type)
            Operator.AddBuiltinOptions(b, opt_off)
        if co is not None:
            Operator.AddCustomOptions(b, co)
        op_offsets.append(Operator.End(b))
    SubGraph = _m("SubGraph")
    tv = _vec(b, 4, t_offsets, b.PrependUOffsetTRelative)
    iv = _vec(b, 4, net.inputs, b.PrependInt32)
    ov = _vec(b, 4, net.outputs, b.PrependInt32)
    opv = _vec(b, 4, op_offsets, b.PrependUOffsetTRelative)
    sgname = b.CreateString(net.name) if "no_sg_name" not in getattr(net, "enc", ()) else None
    SubGraph.Start(b)
    SubGraph.AddTensors(b, tv)
    SubGraph.AddInputs(b, iv)
    SubGraph.AddOutputs(b, ov)
    SubGraph.AddOperators(b, opv)
    if sgname is not None:
        SubGraph.AddName(b, sgname)
    sg = SubGraph.End(b)
    Model = _m("Model")
    sgv = _vec(b, 4, [sg], b.PrependUOffsetTRelative)
    ocv = _vec(b, 4, oc_offsets, b.PrependUOffsetTRelative)
    bv = _vec(b, 4, buf_offsets, b.PrependUOffsetTRelative)
    desc = b.CreateString("velaverif netgen") if "no_description" not in getattr(net, "enc", ()) else None
    Model.Start(b)
    Model.AddVersion(b, 3)
    Model.AddOperatorCodes(b, ocv)
    Model.AddSubgraphs(b, sgv)
    if desc is not None:
        Model.AddDescription(b, desc)
    Model.AddBuffers(b, bv)
    m = Model.End(b)
    b.Finish(m, b"TFL3")
    return bytes(b.Output())


# ------------------------------------------------------------------------------------------------
# Builders


def _qrange(dtype):
    return {"int8": (-128, 127), "uint8": (0, 255), "int16": (-32768, 32767)}[dtype]


def rand_scale(rng, lo=-9, hi=-1):
    return float(np.float32(math.ldexp(rng.uniform(0.5, 1.0), rng.randint(lo, hi))))


def rand_zp(rng, dtype):
    if dtype == "int16":
        return 0
    lo, hi = _qrange(dtype)
    return rng.choice([lo, hi, 0 if dtype == "int8" else 128, rng.randint(lo, hi), rng.randint(lo, hi)])


# ---- extremes stream: quantisation parameters at the ends of what a TFLite file can legally carry ------------------
# scales log-uniform over 1e-8 .. 1e3 (heavy tails at both ends), zero points at both ends of the type range, per-axis
# weight zero points != 0, per-axis scales spanning six orders of magnitude, min/max fields, activation parameters
# (LEAKY_RELU alpha 0 / 1 / > 1 / negative, SOFTMAX beta 0 / tiny / large).  A builder draws from it only when
# `B.set_extremes` switched it on for the network, so a network generated without it is unchanged.
EXTREME_SCALES = [1e-8, 1e3, 1.0, 2.0, 3.0, 4.0, 6.0, 0.5, 2.0 ** -24, 255.0, 5.6, 88.0 / 128, 710.0 / 127, 1.0 / 3]
EXTREME_ALPHAS = [0.0, 1.0, 1.5, 8.0, -0.5, -2.0, 1e-8, 1e3, 0.999, 2.0 ** -16]
EXTREME_BETAS = [1.0, 0.0, 1e-6, 10.0, 100.0, -1.0, 1e3]


def extreme_scale(rng):
    r = rng.random()
    if r < 0.30:
        return float(np.float32(10.0 ** rng.uniform(-8, -4)))
    if r < 0.60:
        return float(np.float32(10.0 ** rng.uniform(0, 3)))
    if r < 0.80:
        return float(np.float32(10.0 ** rng.uniform(-4, 0)))
    return float(np.float32(rng.choice(EXTREME_SCALES)))


def extreme_zp(rng, dtype):
    lo, hi = _qrange(dtype)
    if dtype == "int16":
        # TFLite int16 activations are symmetric; a non-zero value is still a legal file
        return rng.choice([0, 0, 0, 0, lo, hi, 1, -1])
    return rng.choice([lo, hi, lo, hi, lo + 1, hi - 1, rng.randint(lo, hi)])


class B:
    """Incremental network builder that tracks shapes."""

    def __init__(self, rng, name="net", dtype="int8"):
        self.rng, self.net, self.dtype, self.n = rng, Net(name), dtype, 0
        self.extreme = 0.0      # probability that one quantisation choice is drawn from the extremes stream

    def set_extremes(self, p_net, p_choice=0.4):
        """with probability `p_net` this network draws (each choice with probability `p_choice`) from the extremes stream"""
        if self.rng.random() < p_net:
            self.extreme = p_choice
            self.net.desc.append(f"extremes={p_choice}")
        return self.extreme

    def ex(self):
        return bool(self.extreme) and self.rng.random() < self.extreme

    def q_scale(self, lo=-9, hi=-1):
        return extreme_scale(self.rng) if self.ex() else rand_scale(self.rng, lo, hi)

    def q_zp(self, dtype):
        return extreme_zp(self.rng, dtype) if self.ex() else rand_zp(self.rng, dtype)

    def weight_quant(self, oc, wd, per_channel):
        """(scales, zero points) of a weight tensor"""
        rng = self.rng
        if self.ex():
            style = rng.choice(["span6", "span6_asym", "asym_axis", "asym_tensor", "one_extreme"])
            n = oc if (per_channel or style in ("span6", "span6_asym", "asym_axis")) and wd == "int8" else 1
            if style.startswith("span6"):
                ws = [float(np.float32(10.0 ** rng.uniform(-7, -1))) for _ in range(n)]
            elif style == "one_extreme":
                ws = [extreme_scale(rng) for _ in range(n)]
            else:
                ws = [rand_scale(rng, -8, -3) for _ in range(n)]
            lo, hi = _qrange(wd)
            if style in ("span6_asym", "asym_axis") and n > 1:
                wz = [rng.choice([lo, hi, 0, 1, -1, rng.randint(lo, hi)]) for _ in range(n)]
                if not any(wz):
                    wz[rng.randrange(n)] = rng.choice([lo, hi, 3])
            elif style == "asym_tensor":
                wz = [rng.choice([lo, hi, hi, 1, 100 if wd == "uint8" else -7])] * n
            else:
                wz = [0] * n if wd == "int8" else [rng.choice([0, 128, 255])] * n
            self.net.desc.append("wq:" + style)
            return ws, wz
        ws = [rand_scale(rng, -8, -3) for _ in range(oc if per_channel else 1)]
        wz = [0] * len(ws) if wd == "int8" else [rng.randint(100, 150)]
        return ws, wz

    def fresh(self, prefix):
        self.n += 1
        return f"{prefix}_{self.n}"

    def fm(self, shape, dtype=None, scale=None, zp=None, name=None):
        dtype = dtype or self.dtype
        if dtype in ("int8", "uint8", "int16"):
            scale = self.q_scale() if scale is None else scale
            zp = self.q_zp(dtype) if zp is None else zp
            return self.net.add(T(name or self.fresh("t"), shape, dtype, [scale], [zp]))
        return self.net.add(T(name or self.fresh("t"), shape, dtype))

    def input(self, shape, dtype=None, **kw):
        i = self.fm(shape, dtype, name=self.fresh("input"), **kw)
        self.net.inputs.append(i)
        return i

    def const(self, shape, dtype, data, scales=None, zps=None, qdim=0, name=None):
        return self.net.add(T(name or self.fresh("c"), shape, dtype, scales, zps, qdim, np.asarray(data, NP[dtype]).reshape(shape)))

    def t(self, i):
        return self.net.tensors[i]

    def rand_weights(self, shape, dtype, style=None):
        rng = self.rng
        lo, hi = (-127, 127) if dtype == "int8" else (0, 255)
        n = int(np.prod(shape))
        style = style or rng.choice(["uniform", "small", "sparse", "const", "two"])
        seed = rng.getrandbits(32)
        r = np.random.RandomState(seed)
        if style == "uniform":
            d = r.randint(lo, hi + 1, n)
        elif style == "small":
            c = (lo + hi) // 2
            d = np.clip(np.round(r.normal(c, 4, n)), lo, hi)
        elif style == "sparse":
            d = r.randint(lo, hi + 1, n) * (r.rand(n) < 0.15)
            if dtype == "uint8":
                d = np.where(d == 0, 128, d)
        elif style == "const":
            d = np.full(n, r.randint(lo, hi + 1))
        else:
            d = r.choice([lo, hi], n)
        return d.astype(NP[dtype]).reshape(shape)

    def _out_hw(self, h, w, kh, kw, sh, sw, dh, dw, padding):
        kh_d, kw_d = (kh - 1) * dh + 1, (kw - 1) * dw + 1
        if padding == "SAME":
            return -(-h // sh), -(-w // sw)
        return (h - kh_d) // sh + 1, (w - kw_d) // sw + 1

    def conv(self, x, oc, k=(3, 3), stride=(1, 1), dilation=(1, 1), padding="SAME", act=0, per_channel=None,
             wstyle=None, bias=True, out_scale=None):
        rng = self.rng
        xt = self.t(x)
        n, h, w, c = xt.shape
        wd = "int8" if xt.dtype in ("int8", "int16") else "uint8"
        per_channel = rng.random() < 0.5 if per_channel is None else per_channel
        per_channel = per_channel and wd == "int8"
        ws, wz = self.weight_quant(oc, wd, per_channel)
        wt = self.const([oc, k[0], k[1], c], wd, self.rand_weights([oc, k[0], k[1], c], wd, wstyle), ws, wz, 0, self.fresh("w"))
        bdt = "int64" if xt.dtype == "int16" else "int32"
        ins = [x, wt]
        if bias:
            bs = [xt.scales[0] * s for s in ws]
            br = np.random.RandomState(rng.getrandbits(32))
            bt = self.const([oc], bdt, br.randint(-2000, 2000, oc), bs, [0] * len(bs), 0, self.fresh("b"))
            ins.append(bt)
        oh, ow = self._out_hw(h, w, k[0], k[1], stride[0], stride[1], dilation[0], dilation[1], padding)
        if oh < 1 or ow < 1:
            return None
        y = self.fm([n, oh, ow, oc], xt.dtype, scale=out_scale)
        self.net.ops.append(Op("CONV_2D", ins, [y], ("Conv2DOptions", dict(
            Padding=0 if padding == "SAME" else 1, StrideW=stride[1], StrideH=stride[0],
            DilationWFactor=dilation[1], DilationHFactor=dilation[0], FusedActivationFunction=act))))
        return y

    def dwconv(self, x, k=(3, 3), stride=(1, 1), dilation=(1, 1), padding="SAME", act=0, mult=1, per_channel=None):
        rng = self.rng
        xt = self.t(x)
        n, h, w, c = xt.shape
        oc = c * mult
        wd = "int8" if xt.dtype in ("int8", "int16") else "uint8"
        per_channel = (rng.random() < 0.5 if per_channel is None else per_channel) and wd == "int8"
        ws, wz = self.weight_quant(oc, wd, per_channel)
        wt = self.const([1, k[0], k[1], oc], wd, self.rand_weights([1, k[0], k[1], oc], wd), ws, wz, 3, self.fresh("w"))
        bdt = "int64" if xt.dtype == "int16" else "int32"
        bs = [xt.scales[0] * s for s in ws]
        br = np.random.RandomState(rng.getrandbits(32))
        bt = self.const([oc], bdt, br.randint(-2000, 2000, oc), bs, [0] * len(bs), 0, self.fresh("b"))
        oh, ow = self._out_hw(h, w, k[0], k[1], stride[0], stride[1], dilation[0], dilation[1], padding)
        if oh < 1 or ow < 1:
            return None
        y = self.fm([n, oh, ow, oc], xt.dtype)
        self.net.ops.append(Op("DEPTHWISE_CONV_2D", [x, wt, bt], [y], ("DepthwiseConv2DOptions", dict(
            Padding=0 if padding == "SAME" else 1, StrideW=stride[1], StrideH=stride[0], DepthMultiplier=mult,
            DilationWFactor=dilation[1], DilationHFactor=dilation[0], FusedActivationFunction=act))))
        return y

    def pool(self, x, kind="MAX_POOL_2D", k=(2, 2), stride=(2, 2), padding="VALID", act=0):
        xt = self.t(x)
        n, h, w, c = xt.shape
        oh, ow = self._out_hw(h, w, k[0], k[1], stride[0], stride[1], 1, 1, padding)
        if oh < 1 or ow < 1:
            return None
        y = self.fm([n, oh, ow, c], xt.dtype, scale=xt.scales[0], zp=xt.zps[0])
        self.net.ops.append(Op(kind, [x], [y], ("Pool2DOptions", dict(
            Padding=0 if padding == "SAME" else 1, StrideW=stride[1], StrideH=stride[0],
            FilterWidth=k[1], FilterHeight=k[0], FusedActivationFunction=act))))
        return y

    def fc(self, x, oc, act=0):
        rng = self.rng
        xt = self.t(x)
        ic = xt.shape[-1]
        n = int(np.prod(xt.shape[:-1]))
        wd = "int8" if xt.dtype in ("int8", "int16") else "uint8"
        if self.ex():
            ws, wz = [extreme_scale(rng)], [extreme_zp(rng, wd) if rng.random() < 0.5 else (0 if wd == "int8" else 128)]
        else:
            ws = [rand_scale(rng, -8, -3)]
            wz = [0] if wd == "int8" else [rng.randint(100, 150)]
        wt = self.const([oc, ic], wd, self.rand_weights([oc, ic], wd), ws, wz, 0, self.fresh("w"))
        bdt = "int64" if xt.dtype == "int16" else "int32"
        br = np.random.RandomState(rng.getrandbits(32))
        bt = self.const([oc], bdt, br.randint(-2000, 2000, oc), [xt.scales[0] * ws[0]], [0], 0, self.fresh("b"))
        y = self.fm([n, oc], xt.dtype)
        self.net.ops.append(Op("FULLY_CONNECTED", [x, wt, bt], [y], ("FullyConnectedOptions", dict(FusedActivationFunction=act))))
        return y

    def binary(self, kind, x, y2, act=0):
        xt, yt = self.t(x), self.t(y2)
        shape = [max(a, b_) for a, b_ in zip(xt.shape, yt.shape)]
        if kind in ("MINIMUM", "MAXIMUM"):
            o = self.fm(shape, xt.dtype, scale=xt.scales[0], zp=xt.zps[0])
            self.net.ops.append(Op(kind, [x, y2], [o], ("MaximumMinimumOptions", {})))
            return o
        o = self.fm(shape, xt.dtype)
        oname = {"ADD": "AddOptions", "SUB": "SubOptions", "MUL": "MulOptions"}[kind]
        self.net.ops.append(Op(kind, [x, y2], [o], (oname, dict(FusedActivationFunction=act))))
        return o

    def unary(self, kind, x):
        xt = self.t(x)
        if kind in ("RELU", "RELU6", "RELU_N1_TO_1"):
            o = self.fm(xt.shape, xt.dtype, scale=xt.scales[0], zp=xt.zps[0])
            self.net.ops.append(Op(kind, [x], [o]))
        elif kind in ("LOGISTIC", "TANH", "SOFTMAX") and xt.dtype in ("int8", "uint8", "int16") and self.ex():
            # extremes stream: any output quantisation (a converter writes the fixed one, the file format allows all)
            o = self.fm(xt.shape, xt.dtype)
            beta = float(self.rng.choice(EXTREME_BETAS))
            self.net.ops.append(Op(kind, [x], [o], ("SoftmaxOptions", dict(Beta=beta)) if kind == "SOFTMAX" else None))
        elif kind == "LOGISTIC":
            o = self.fm(xt.shape, xt.dtype, scale=1.0 / 256 if xt.dtype != "int16" else 1.0 / 32768,
                        zp={"int8": -128, "uint8": 0, "int16": 0}[xt.dtype])
            self.net.ops.append(Op(kind, [x], [o]))
        elif kind == "TANH":
            o = self.fm(xt.shape, xt.dtype, scale=1.0 / 128 if xt.dtype != "int16" else 1.0 / 32768,
                        zp={"int8": 0, "uint8": 128, "int16": 0}[xt.dtype])
            self.net.ops.append(Op(kind, [x], [o]))
        elif kind == "LEAKY_RELU":
            o = self.fm(xt.shape, xt.dtype)
            alpha = float(self.rng.choice(EXTREME_ALPHAS)) if self.ex() else float(self.rng.choice([0.1, 0.2, 0.01, 0.5]))
            self.net.ops.append(Op(kind, [x], [o], ("LeakyReluOptions", dict(Alpha=alpha))))
        elif kind == "SOFTMAX":
            o = self.fm(xt.shape, xt.dtype, scale=1.0 / 256 if xt.dtype != "int16" else 1.0 / 32768,
                        zp={"int8": -128, "uint8": 0, "int16": 0}[xt.dtype])
            beta = float(self.rng.choice(EXTREME_BETAS)) if self.ex() else 1.0
            self.net.ops.append(Op(kind, [x], [o], ("SoftmaxOptions", dict(Beta=beta))))
        else:  # HARD_SWISH, ABS, ...
            o = self.fm(xt.shape, xt.dtype)
            self.net.ops.append(Op(kind, [x], [o]))
        return o

    def reshape(self, x, shape):
        xt = self.t(x)
        o = self.fm(shape, xt.dtype, scale=xt.scales[0] if xt.scales else None, zp=xt.zps[0] if xt.zps else None)
        st = self.const([len(shape)], "int32", shape, name=self.fresh("shape"))
        self.net.ops.append(Op("RESHAPE", [x, st], [o], ("ReshapeOptions", dict(NewShape=list(shape)))))
        return o

    def concat(self, xs, axis=3):
        ts = [self.t(x) for x in xs]
        shape = list(ts[0].shape)
        shape[axis] = sum(t.shape[axis] for t in ts)
        same = self.rng.random() < 0.5
        o = self.fm(shape, ts[0].dtype, scale=ts[0].scales[0] if same else None, zp=ts[0].zps[0] if same else None)
        self.net.ops.append(Op("CONCATENATION", xs, [o], ("ConcatenationOptions", dict(Axis=axis, FusedActivationFunction=0))))
        return o

    def mean_hw(self, x, keep=True):
        xt = self.t(x)
        n, h, w, c = xt.shape
        ax = self.const([2], "int32", [1, 2], name=self.fresh("axes"))
        o = self.fm([n, 1, 1, c] if keep else [n, c], xt.dtype)
        self.net.ops.append(Op("MEAN", [x, ax], [o], ("ReducerOptions", dict(KeepDims=keep))))
        return o

    def resize(self, x, factor=2, kind="RESIZE_BILINEAR", align=False, half=False):
        xt = self.t(x)
        n, h, w, c = xt.shape
        oh, ow = (h * factor, w * factor) if not align else ((h - 1) * factor + 1, (w - 1) * factor + 1)
        st = self.const([2], "int32", [oh, ow], name=self.fresh("size"))
        o = self.fm([n, oh, ow, c], xt.dtype, scale=xt.scales[0], zp=xt.zps[0])
        on = "ResizeBilinearOptions" if kind == "RESIZE_BILINEAR" else "ResizeNearestNeighborOptions"
        self.net.ops.append(Op(kind, [x, st], [o], (on, dict(AlignCorners=align, HalfPixelCenters=half))))
        return o

    def pad(self, x, pads):
        xt = self.t(x)
        pt = self.const([4, 2], "int32", pads, name=self.fresh("pads"))
        shape = [d + p[0] + p[1] for d, p in zip(xt.shape, pads)]
        o = self.fm(shape, xt.dtype, scale=xt.scales[0], zp=xt.zps[0])
        self.net.ops.append(Op("PAD", [x, pt], [o], ("PadOptions", {})))
        return o

    def strided_slice(self, x, begin, end):
        xt = self.t(x)
        bt = self.const([4], "int32", begin, name=self.fresh("begin"))
        et = self.const([4], "int32", end, name=self.fresh("end"))
        st = self.const([4], "int32", [1, 1, 1, 1], name=self.fresh("strides"))
        shape = [e - b_ for b_, e in zip(begin, end)]
        o = self.fm(shape, xt.dtype, scale=xt.scales[0], zp=xt.zps[0])
        self.net.ops.append(Op("STRIDED_SLICE", [x, bt, et, st], [o], ("StridedSliceOptions", dict(
            BeginMask=0, EndMask=0, EllipsisMask=0, NewAxisMask=0, ShrinkAxisMask=0))))
        return o

    def split(self, x, num, axis=3):
        xt = self.t(x)
        at = self.const([], "int32", [axis], name=self.fresh("axis"))
        shape = list(xt.shape)
        shape[axis] //= num
        outs = [self.fm(shape, xt.dtype, scale=xt.scales[0], zp=xt.zps[0]) for _ in range(num)]
        self.net.ops.append(Op("SPLIT", [at, x], outs, ("SplitOptions", dict(NumSplits=num))))
        return outs

    def quantize(self, x, dtype=None):
        xt = self.t(x)
        o = self.fm(xt.shape, dtype or xt.dtype)
        self.net.ops.append(Op("QUANTIZE", [x], [o], ("QuantizeOptions", {})))
        return o

    def transpose_conv(self, x, oc, k=(3, 3), stride=(2, 2), padding="SAME"):
        rng = self.rng
        xt = self.t(x)
        n, h, w, c = xt.shape
        if padding == "SAME":
            oh, ow = h * stride[0], w * stride[1]
        else:
            oh, ow = (h - 1) * stride[0] + k[0], (w - 1) * stride[1] + k[1]
        wd = "int8" if xt.dtype in ("int8", "int16") else "uint8"
        ws = [rand_scale(rng, -8, -3)]
        wz = [0] if wd == "int8" else [128]
        wt = self.const([oc, k[0], k[1], c], wd, self.rand_weights([oc, k[0], k[1], c], wd), ws, wz, 0, self.fresh("w"))
        os_ = self.const([4], "int32", [n, oh, ow, oc], name=self.fresh("oshape"))
        br = np.random.RandomState(rng.getrandbits(32))
        bt = self.const([oc], "int32", br.randint(-2000, 2000, oc), [xt.scales[0] * ws[0]], [0], 0, self.fresh("b"))
        o = self.fm([n, oh, ow, oc], xt.dtype)
        self.net.ops.append(Op("TRANSPOSE_CONV", [os_, wt, x, bt], [o], ("TransposeConvOptions", dict(
            Padding=0 if padding == "SAME" else 1, StrideW=stride[1], StrideH=stride[0]))))
        return o

    # ---- operators Vela must leave on the CPU ---------------------------------------------------
    def cpu_op(self, x, which=None):
        rng = self.rng
        xt = self.t(x)
        which = which or rng.choice(["custom", "float_detour", "floor_div", "cast_bool", "sin_like", "batch_reshape"])
        self.net.desc.append("cpu:" + which)
        if which.startswith("multi"):
            # operators with 2-3 results (gen_multiout.py): "multi" = any kind, "multi:<kind>"; the results other than the
            # returned one are collected in self.side_results - the caller decides whether anybody reads them
            import gen_multiout

            res = gen_multiout.cpu_multi(self, x, which.split(":", 1)[1] if ":" in which else None)
            self.side_results = getattr(self, "side_results", []) + res[1:]
            return res[0]
        if which == "custom":
            o = self.fm(xt.shape, xt.dtype, scale=xt.scales[0], zp=xt.zps[0])
            self.net.ops.append(Op("CUSTOM", [x], [o], None, custom_code="ThirdPartyOp",
                                   custom_options=bytes(rng.getrandbits(8) for _ in range(rng.randint(0, 12)))))
            return o
        if which == "float_detour":
            f = self.fm(xt.shape, "float32")
            self.net.ops.append(Op("DEQUANTIZE", [x], [f], ("DequantizeOptions", {})))
            g = self.fm(xt.shape, "float32")
            self.net.ops.append(Op(rng.choice(["SIN", "COS", "FLOOR", "SQRT"]), [f], [g]))
            o = self.fm(xt.shape, xt.dtype)
            self.net.ops.append(Op("QUANTIZE", [g], [o], ("QuantizeOptions", {})))
            return o
        if which == "floor_div":
            c = self.const(xt.shape[-1:], xt.dtype, np.full(xt.shape[-1:], 3), xt.scales, xt.zps, 0)
            o = self.fm(xt.shape, xt.dtype, scale=xt.scales[0], zp=xt.zps[0])
            self.net.ops.append(Op("FLOOR_DIV", [x, c], [o], ("FloorDivOptions", {})))
            return o
        if which == "cast_bool":
            f = self.fm(xt.shape, "float32")
            self.net.ops.append(Op("CAST", [x], [f], ("CastOptions", dict(InDataType=TT[xt.dtype], OutDataType=0))))
            o = self.fm(xt.shape, xt.dtype)
            self.net.ops.append(Op("QUANTIZE", [f], [o], ("QuantizeOptions", {})))
            return o
        if which == "sin_like":
            o = self.fm(xt.shape, xt.dtype, scale=xt.scales[0], zp=xt.zps[0])
            self.net.ops.append(Op(rng.choice(["ABS", "NEG", "RSQRT", "EXP"]) if xt.dtype != "int8" else "NEG", [x], [o],
                                   None))
            return o
        # reverse along axis: REVERSE_V2 unsupported
        ax = self.const([1], "int32", [len(xt.shape) - 1], name=self.fresh("axis"))
        o = self.fm(xt.shape, xt.dtype, scale=xt.scales[0], zp=xt.zps[0])
        self.net.ops.append(Op("REVERSE_V2", [x, ax], [o], ("ReverseV2Options", {})))
        return o

    def finish(self, outs):
        self.net.outputs = list(outs)
        if self.extreme:
            # min / max fields (calibration range as some converters keep it) on about half of the quantised tensors
            rng = self.rng
            for t in self.net.tensors:
                if t.scales is not None and t.dtype in ("int8", "uint8", "int16") and t.qmin is None and rng.random() < 0.5:
                    lo, hi = _qrange(t.dtype)
                    zps = t.zps if t.zps is not None else [0] * len(t.scales)
                    if rng.random() < 0.85:
                        t.qmin = [float(np.float32(s_ * (lo - z))) for s_, z in zip(t.scales, zps)]
                        t.qmax = [float(np.float32(s_ * (hi - z))) for s_, z in zip(t.scales, zps)]
                    else:
                        t.qmin, t.qmax = rng.choice([([0.0], [0.0]), ([-1e30], [1e30]), ([1.0], [-1.0]), ([-6.0], [6.0])])
        return self.net


# ------------------------------------------------------------------------------------------------
# Random networks

FM_OPS = ["conv", "conv", "conv1x1", "dwconv", "maxpool", "avgpool", "add_self", "add_skip", "mul_const", "relu", "relu6",
          "sigmoid", "tanh", "lrelu", "minmax", "concat2", "resize", "pad", "slice", "split_concat", "sub_const",
          "quantize", "mean", "tconv", "hswish", "softmax"]


def random_net(rng, idx=0, profile="mixed", dtype=None, max_ops=6):
    """profile: mixed | cascade | weights | cpu | elementwise"""
    dtype = dtype or rng.choice(["int8", "int8", "int8", "uint8", "int16"])
    b = B(rng, f"net{idx}", dtype)
    if profile == "cascade":
        h = rng.choice([17, 24, 31, 37, 40, 48, 55, 64, 72, 96])
        w = rng.choice([16, 24, 32, 48, 64])
        c = rng.choice([8, 16, 24, 32])
    elif profile == "weights":
        h, w, c = rng.choice([4, 6, 8]), rng.choice([4, 8]), rng.choice([32, 64, 96, 128])
    else:
        h, w, c = rng.randint(1, 20), rng.randint(1, 20), rng.choice([1, 2, 3, 4, 7, 8, 16, 17, 24, 32])
    b.set_extremes(0.12)
    x = b.input([1, h, w, c])
    b.net.desc.append(f"profile={profile} dtype={dtype} in={[1, h, w, c]}")
    live = [x]
    nops = rng.randint(1, max_ops)
    cur = x
    for _ in range(nops):
        xt = b.t(cur)
        if len(xt.shape) != 4:
            break
        if profile == "cascade":
            kind = rng.choice(["conv", "conv", "conv", "dwconv", "maxpool", "avgpool", "conv1x1", "add_self", "relu"])
        elif profile == "weights":
            kind = rng.choice(["conv", "conv1x1", "conv1x1", "fc_end", "dwconv"])
        elif profile == "elementwise":
            kind = rng.choice(["add_self", "add_skip", "mul_const", "sub_const", "minmax", "relu", "lrelu", "sigmoid", "tanh",
                               "concat2", "quantize"])
        elif profile == "cpu" and rng.random() < 0.35:
            kind = "cpu"
        else:
            kind = rng.choice(FM_OPS + ["cpu"] * (3 if profile in ("cpu", "mixed") else 0))
        n, hh, ww, cc = xt.shape
        new = None
        b.net.desc.append(kind)
        if kind == "conv":
            k = rng.choice([(1, 1), (3, 3), (3, 3), (5, 5), (2, 2), (1, 3), (3, 1), (7, 7), (4, 4)])
            s = rng.choice([(1, 1), (1, 1), (2, 2), (3, 3), (1, 2), (2, 1)])
            d = rng.choice([(1, 1), (1, 1), (1, 1), (2, 2)]) if s == (1, 1) else (1, 1)
            new = b.conv(cur, rng.choice([4, 8, 16, 24, 32, 40]) if profile != "weights" else rng.choice([64, 96, 128, 256]),
                         k, s, d, rng.choice(["SAME", "VALID"]), act=rng.choice([0, 0, 1, 3]))
        elif kind == "conv1x1":
            new = b.conv(cur, rng.choice([8, 16, 32, 64, 128]), (1, 1), (1, 1), (1, 1), "SAME", act=rng.choice([0, 1]))
        elif kind == "dwconv":
            k = rng.choice([(3, 3), (3, 3), (5, 5), (2, 2), (1, 1)])
            s = rng.choice([(1, 1), (1, 1), (2, 2), (3, 3)])
            new = b.dwconv(cur, k, s, (1, 1), rng.choice(["SAME", "VALID"]), act=rng.choice([0, 1, 3]))
        elif kind in ("maxpool", "avgpool"):
            k = rng.choice([(2, 2), (3, 3), (2, 2), (1, 1), (4, 4)])
            s = rng.choice([(1, 1), (2, 2), (2, 2), (3, 3)])
            new = b.pool(cur, "MAX_POOL_2D" if kind == "maxpool" else "AVERAGE_POOL_2D", k, s, rng.choice(["SAME", "VALID"]))
        elif kind == "add_self":
            new = b.binary(rng.choice(["ADD", "SUB", "MUL"]), cur, cur)
        elif kind == "add_skip":
            cands = [t for t in live if b.t(t).shape == xt.shape and b.t(t).dtype == xt.dtype]
            new = b.binary(rng.choice(["ADD", "ADD", "SUB", "MUL"]), cur, rng.choice(cands), act=rng.choice([0, 1]))
        elif kind in ("mul_const", "sub_const"):
            shp = rng.choice([[1, 1, 1, cc], [1, 1, 1, 1], xt.shape])
            lo, hi = _qrange(xt.dtype)
            r = np.random.RandomState(rng.getrandbits(32))
            c2 = b.const(shp, xt.dtype, r.randint(lo, hi + 1, int(np.prod(shp))), [b.q_scale()], [b.q_zp(xt.dtype)])
            args = (cur, c2) if rng.random() < 0.7 else (c2, cur)
            new = b.binary("MUL" if kind == "mul_const" else rng.choice(["SUB", "ADD"]), *args)
        elif kind == "minmax":
            new = b.binary(rng.choice(["MINIMUM", "MAXIMUM"]), cur, cur)
        elif kind in ("relu", "relu6"):
            new = b.unary("RELU" if kind == "relu" else "RELU6", cur)
        elif kind == "sigmoid":
            new = b.unary("LOGISTIC", cur)
        elif kind == "tanh":
            new = b.unary("TANH", cur)
        elif kind == "lrelu":
            new = b.unary("LEAKY_RELU", cur)
        elif kind == "hswish":
            new = b.unary("HARD_SWISH", cur)
        elif kind == "softmax":
            new = b.unary("SOFTMAX", cur)
        elif kind == "concat2":
            cands = [t for t in live if b.t(t).shape[:3] == xt.shape[:3] and b.t(t).dtype == xt.dtype and len(b.t(t).shape) == 4]
            new = b.concat([cur, rng.choice(cands)], 3)
        elif kind == "resize" and hh * ww <= 100:
            new = b.resize(cur, 2, rng.choice(["RESIZE_BILINEAR", "RESIZE_NEAREST_NEIGHBOR"]),
                           *rng.choice([(False, False), (True, False), (False, True)]))
        elif kind == "pad":
            new = b.pad(cur, [[0, 0], [rng.randint(0, 2), rng.randint(0, 2)], [rng.randint(0, 2), rng.randint(0, 2)], [0, 0]])
        elif kind == "slice" and hh >= 2 and ww >= 2:
            b0, b1 = rng.randint(0, hh - 1), rng.randint(0, ww - 1)
            new = b.strided_slice(cur, [0, b0, b1, 0], [1, rng.randint(b0 + 1, hh), rng.randint(b1 + 1, ww), cc])
        elif kind == "split_concat" and cc % 2 == 0:
            o1, o2 = b.split(cur, 2, 3)
            o1 = b.unary("RELU", o1)
            new = b.concat([o2, o1], 3)
        elif kind == "quantize":
            new = b.quantize(cur)
        elif kind == "mean":
            new = b.mean_hw(cur, True)
        elif kind == "tconv" and hh * ww <= 64:
            new = b.transpose_conv(cur, rng.choice([4, 8, 16]), rng.choice([(2, 2), (3, 3)]), (2, 2), rng.choice(["SAME", "VALID"]))
        elif kind == "fc_end":
            flat = b.reshape(cur, [1, hh * ww * cc])
            new = b.fc(flat, rng.choice([10, 16, 64]))
        elif kind == "cpu":
            if profile == "cpu" and rng.random() < 0.3:
                # a multi-output CPU operator; each further result is unread, or becomes a candidate operand / output later on
                new = b.cpu_op(cur, "multi")
                for side in b.side_results[-2:]:
                    st = b.t(side)
                    if rng.random() < 0.4 and len(st.shape) == 4 and st.dtype == xt.dtype and st.scales is not None:
                        live.insert(rng.randint(1, len(live)), side)
            else:
                new = b.cpu_op(cur)
        if new is None:
            b.net.desc[-1] += ":skipped"
            continue
        cur = new
        live.append(cur)
    outs = [cur]
    # sometimes a second output taken from the middle
    if len(live) > 2 and rng.random() < 0.25:
        extra = rng.choice(live[1:-1])
        if extra not in outs:
            outs.append(extra)
    if cur == x:
        cur = b.unary("RELU", x)
        outs = [cur]
    return b.finish(outs)


def cascade_net(rng, idx=0, h=None, w=None, c=None, specs=None, dtype="int8"):
    """A chain of convolutions tall enough that `--optimise Size` on a small accelerator cascades it."""
    b = B(rng, f"casc{idx}", dtype)
    h = h or rng.choice([33, 37, 40, 41, 48, 49, 50, 64])
    w = w or rng.choice([32, 48, 64])
    c = c or rng.choice([16, 32])
    if specs is None:
        b.set_extremes(0.08)
    x = b.input([1, h, w, c])
    cur = x
    specs = specs or [(rng.choice([1, 3, 3, 5]), rng.choice([1, 1, 2, 3]), rng.choice(["SAME", "VALID"]), rng.choice(["conv", "conv", "dw", "pool"]))
                      for _ in range(rng.randint(2, 4))]
    b.net.desc.append(f"cascade in={[1, h, w, c]} specs={specs}")
    for k, s, p, kind in specs:
        if kind == "conv":
            new = b.conv(cur, c, (k, k), (s, s), (1, 1), p, act=rng.choice([0, 1]))
        elif kind == "dw":
            new = b.dwconv(cur, (k, k), (s, s), (1, 1), p)
        elif kind == "lut":
            new = b.unary(rng.choice(["TANH", "LOGISTIC", "LEAKY_RELU", "TANH"]), cur)
        else:
            new = b.pool(cur, rng.choice(["MAX_POOL_2D", "AVERAGE_POOL_2D"]), (max(k, 2), max(k, 2)), (s, s), p)
        if new is None:
            break
        cur = new
    if cur == x:
        cur = b.unary("RELU", x)
    return b.finish([cur])


# ------------------------------------------------------------------------------------------------
# Structurally valid but unusual models (C13/C16: corner shapes, all data types, missing or per-axis
# quantisation, operators Vela does not know how to accelerate)

def weird_net(rng, idx=0):
    dtype = rng.choice(["int8", "uint8", "int16", "int32", "float32", "int8", "int64", "bool"])
    b = B(rng, f"weird{idx}", dtype if dtype in ("int8", "uint8", "int16") else "int8")
    rank = rng.choice([0, 1, 2, 3, 4, 4, 4, 5])
    dims = [rng.choice([1, 1, 2, 3, 5, 7, 8, 13, 16, 17, 31]) for _ in range(rank)]
    if rank >= 1 and rng.random() < 0.3:
        dims[0] = rng.choice([2, 3])          # batch > 1
    kind = rng.choice(["unary", "binary", "reshape", "transpose", "pack", "conv_noq", "conv_peraxis_act", "argmax", "shape",
                       "cast", "fc2d", "pool_big", "conv_big_stride", "dyn_weights", "slice", "float_conv", "int32_add",
                       "gather", "dup_inputs", "no_ops_passthrough", "exp_int8", "squeeze", "pad5", "mean_all"])
    b.net.desc.append(f"weird kind={kind} dtype={dtype} dims={dims}")
    b.set_extremes(0.5, 0.7)

    def tensor(shape, dt=None, quant=True, name=None):
        dt = dt or dtype
        if dt in ("int8", "uint8", "int16") and quant:
            return b.fm(shape, dt, name=name)
        return b.net.add(T(name or b.fresh("t"), shape, dt))

    x = tensor(dims, name=b.fresh("input"))
    b.net.inputs.append(x)
    xt = b.t(x)
    out = None
    if kind == "unary":
        opk = rng.choice(["ABS", "NEG", "RELU", "LOGISTIC", "TANH", "HARD_SWISH", "EXP", "RSQRT", "FLOOR", "SQRT", "LOG", "SIN",
                          "ROUND", "CEIL", "LOGICAL_NOT", "SQUARE", "ELU", "RELU6", "RELU_N1_TO_1"])
        out = tensor(dims)
        b.net.ops.append(Op(opk, [x], [out]))
    elif kind == "binary":
        opk = rng.choice(["ADD", "SUB", "MUL", "DIV", "MINIMUM", "MAXIMUM", "FLOOR_DIV", "FLOOR_MOD", "POW", "SQUARED_DIFFERENCE",
                          "LESS", "GREATER", "EQUAL", "LOGICAL_AND"])
        dims2 = [d if rng.random() < 0.7 else 1 for d in dims]
        y = tensor(dims2, name=b.fresh("input"))
        b.net.inputs.append(y)
        odt = "bool" if opk in ("LESS", "GREATER", "EQUAL", "LOGICAL_AND") else dtype
        out = tensor(dims, odt)
        on = {"ADD": "AddOptions", "SUB": "SubOptions", "MUL": "MulOptions", "DIV": "DivOptions"}.get(opk)
        b.net.ops.append(Op(opk, [x, y], [out], (on, dict(FusedActivationFunction=0)) if on else None))
    elif kind == "reshape":
        n = int(np.prod(dims)) if dims else 1
        shp = rng.choice([[n], [1, n], [n, 1], [1, 1, 1, n], [1, 1, n, 1]])
        out = tensor(shp)
        if xt.scales:
            b.t(out).scales, b.t(out).zps = xt.scales, xt.zps
        st = b.const([len(shp)], "int32", shp)
        b.net.ops.append(Op("RESHAPE", [x, st], [out], ("ReshapeOptions", dict(NewShape=shp))))
    elif kind == "transpose" and rank >= 2:
        perm = list(range(rank))
        rng.shuffle(perm)
        out = tensor([dims[p] for p in perm])
        if xt.scales:
            b.t(out).scales, b.t(out).zps = xt.scales, xt.zps
        pt = b.const([rank], "int32", perm)
        b.net.ops.append(Op("TRANSPOSE", [x, pt], [out], ("TransposeOptions", {})))
    elif kind == "pack":
        out = tensor([2] + dims)
        if xt.scales:
            b.t(out).scales, b.t(out).zps = xt.scales, xt.zps
        b.net.ops.append(Op("PACK", [x, x], [out], ("PackOptions", dict(ValuesCount=2, Axis=0))))
    elif kind in ("conv_noq", "conv_peraxis_act", "conv_big_stride", "dyn_weights", "float_conv") and rank == 4 and dims[3] <= 16:
        n, h, w, c = dims
        oc = rng.choice([1, 3, 8])
        k = rng.choice([1, 3])
        s = 4 if kind == "conv_big_stride" else 1
        if kind == "float_conv":
            b.t(x).dtype, b.t(x).scales, b.t(x).zps = "float32", None, None
            wt = b.const([oc, k, k, c], "float32", np.random.RandomState(1).rand(oc, k, k, c))
            bt = b.const([oc], "float32", np.zeros(oc))
            out = b.net.add(T(b.fresh("t"), [n, -(-h // s), -(-w // s), oc], "float32"))
        else:
            if b.t(x).dtype not in ("int8", "uint8", "int16"):
                b.t(x).dtype, b.t(x).scales, b.t(x).zps = "int8", [0.05], [0]
            if kind == "conv_noq":
                b.t(x).scales, b.t(x).zps = None, None
            if kind == "conv_peraxis_act":
                b.t(x).scales, b.t(x).zps, b.t(x).qdim = [0.1] * c, [0] * c, 3
            if kind == "dyn_weights":
                wt = b.fm([oc, k, k, c], "int8", name=b.fresh("input"))
                b.net.inputs.append(wt)
            else:
                wt = b.const([oc, k, k, c], "int8", b.rand_weights([oc, k, k, c], "int8"), [0.02], [0])
            bt = b.const([oc], "int32", np.zeros(oc), [0.001], [0])
            out = b.fm([n, -(-h // s), -(-w // s), oc], b.t(x).dtype if b.t(x).dtype != "int16" else "int16")
        b.net.ops.append(Op("CONV_2D", [x, wt, bt], [out], ("Conv2DOptions", dict(
            Padding=0, StrideW=s, StrideH=s, DilationWFactor=1, DilationHFactor=1, FusedActivationFunction=0))))
    elif kind == "argmax" and rank >= 1:
        ax = b.const([], "int32", [rank - 1])
        out = b.net.add(T(b.fresh("t"), dims[:-1], rng.choice(["int32", "int64"])))
        b.net.ops.append(Op("ARG_MAX", [x, ax], [out], ("ArgMaxOptions", dict(OutputType=TT[b.t(out).dtype]))))
    elif kind == "shape":
        out = b.net.add(T(b.fresh("t"), [rank], "int32"))
        b.net.ops.append(Op("SHAPE", [x], [out], ("ShapeOptions", dict(OutType=2))))
    elif kind == "cast":
        odt = rng.choice(["float32", "int32", "int8", "uint8", "int16", "bool"])
        out = tensor(dims, odt)
        b.net.ops.append(Op("CAST", [x], [out], ("CastOptions", dict(InDataType=TT[xt.dtype], OutDataType=TT[odt]))))
    elif kind == "fc2d" and rank == 2 and xt.dtype in ("int8", "uint8", "int16") and xt.scales:
        out = b.fc(x, rng.choice([1, 5, 16]))
    elif kind == "pool_big" and rank == 4 and xt.dtype in ("int8", "uint8", "int16") and xt.scales:
        out = b.pool(x, rng.choice(["MAX_POOL_2D", "AVERAGE_POOL_2D"]), (rng.choice([1, 2, 9]), rng.choice([1, 3, 300])),
                     (rng.choice([1, 2, 4]), rng.choice([1, 3])), "SAME")
    elif kind == "slice" and rank >= 1:
        bt_ = b.const([rank], "int32", [0] * rank)
        sz = b.const([rank], "int32", [max(1, d - 1) for d in dims])
        out = tensor([max(1, d - 1) for d in dims])
        if xt.scales:
            b.t(out).scales, b.t(out).zps = xt.scales, xt.zps
        b.net.ops.append(Op("SLICE", [x, bt_, sz], [out], ("SliceOptions", {})))
    elif kind == "int32_add":
        b.t(x).dtype, b.t(x).scales, b.t(x).zps = "int32", None, None
        out = b.net.add(T(b.fresh("t"), dims, "int32"))
        b.net.ops.append(Op(rng.choice(["ADD", "MUL", "SUB"]), [x, x], [out], None))
    elif kind == "gather" and rank >= 1:
        it = b.const([2], "int32", [0, dims[0] - 1])
        out = tensor([2] + dims[1:])
        if xt.scales:
            b.t(out).scales, b.t(out).zps = xt.scales, xt.zps
        b.net.ops.append(Op("GATHER", [x, it], [out], ("GatherOptions", dict(Axis=0))))
    elif kind == "dup_inputs" and xt.dtype in ("int8", "uint8", "int16") and rank == 4:
        a1 = b.binary("ADD", x, x)
        a2 = b.binary("MUL", x, x)
        out = b.binary("ADD", a1, a2)
        return b.finish([out, a1])
    elif kind == "no_ops_passthrough":
        return b.finish([x])
    elif kind == "exp_int8" and xt.dtype in ("int8", "int16"):
        out = tensor(dims)
        b.net.ops.append(Op("EXP", [x], [out]))
    elif kind == "squeeze" and rank >= 1:
        sq = [i for i, d in enumerate(dims) if d == 1]
        out = tensor([d for d in dims if d != 1])
        if xt.scales:
            b.t(out).scales, b.t(out).zps = xt.scales, xt.zps
        b.net.ops.append(Op("SQUEEZE", [x], [out], ("SqueezeOptions", dict(SqueezeDims=sq))))
    elif kind == "pad5" and rank >= 1:
        pt = b.const([rank, 2], "int32", [[1, 0]] * rank)
        out = tensor([d + 1 for d in dims])
        if xt.scales:
            b.t(out).scales, b.t(out).zps = xt.scales, xt.zps
        b.net.ops.append(Op("PAD", [x, pt], [out], ("PadOptions", {})))
    elif kind == "mean_all" and rank >= 1:
        ax = b.const([rank], "int32", list(range(rank)))
        out = tensor([1] * rank if rng.random() < 0.5 else [])
        keep = len(b.t(out).shape) == rank
        b.net.ops.append(Op("MEAN", [x, ax], [out], ("ReducerOptions", dict(KeepDims=keep))))
    if out is None:
        out = tensor(dims)
        b.net.ops.append(Op("RELU", [x], [out]))
        b.net.desc.append("fallback-relu")
    return b.finish([out])


# ------------------------------------------------------------------------------------------------
# Structured topologies that make specific mechanisms fire (multi-input graphs, residual blocks,
# LUT reuse, deep weight slicing, single-channel FC after buffered convs, bias-less convs, ...)

PATTERNS = ["multi_input", "input_npu_and_cpu", "residual", "lut_reuse", "deep_slices", "fc1_after_conv", "nobias",
            "casc_s2_valid", "two_npu_islands", "concat_slices", "shared_weights", "big_fm_u65", "avgpool_chain", "minmax_lrelu", "reshape_fork", "widen_ew", "shared_consts"]
# families defined in netgen_ext.py (imported lazily: that module imports this one)
EXT_PATTERNS = ["lut_mixed", "shape_out", "transpose_perm", "ew_fork", "fc1_two_core", "near_scale"]
EXT_PATTERNS += ["multi_out_cpu", "slice_masks", "rank_sweep"]          # round 5: gen_multiout.py, gen_ssmask.py, gen_ranksweep.py
EXT_PATTERNS += ["io_passthrough", "resize_cascade"]                    # round 6: gen_iopass.py, gen_resizecasc.py
PATTERNS += EXT_PATTERNS


def pattern_net(rng, idx=0, pattern=None, variant=None):
    """`variant` (pattern sweep): deterministic choice of the sub-kind inside a family; None = drawn at random"""
    pattern = pattern or rng.choice(PATTERNS)
    if pattern in EXT_PATTERNS:
        import netgen_ext

        return netgen_ext.build(rng, idx, pattern, variant)
    if pattern == "shared_consts":
        # pattern sweep: variants 0..11 walk through the axes of part 2, later ones draw the axis (from all of them)
        return shared_consts_net(rng, idx, axis=SHARED_AXES_EXT[variant] if variant is not None and variant < len(SHARED_AXES_EXT) else None)
    dtype = rng.choice(["int8", "int8", "uint8"])
    b = B(rng, f"pat{idx}_{pattern}", dtype)
    b.net.desc.append(f"pattern={pattern} dtype={dtype}")
    b.set_extremes(0.1)
    if pattern == "multi_input":
        shp = [1, rng.randint(4, 16), rng.randint(4, 16), rng.choice([4, 8, 16])]
        x1, x2 = b.input(shp), b.input(shp)
        x3 = b.input(shp) if rng.random() < 0.5 else None
        a = b.conv(x1, shp[3], (3, 3), (1, 1), (1, 1), "SAME")
        c = b.cpu_op(a, rng.choice(["custom", "sin_like", "float_detour"]))
        d = b.binary(rng.choice(["ADD", "MUL", "SUB"]), c, x2)
        if x3 is not None:
            d = b.cpu_op(d, "custom")
            d = b.binary("ADD", d, x3)
        return b.finish([d])
    if pattern == "input_npu_and_cpu":
        shp = [1, rng.randint(2, 16), rng.randint(2, 16), rng.choice([4, 8, 16])]
        x = b.input(shp)
        src = x if rng.random() < 0.5 else b.cpu_op(x, "custom")        # graph input or CPU-produced tensor
        k = rng.choice(["abs", "addc", "mulc", "relu", "lrelu"])
        if k == "abs":
            a = b.unary("ABS", src)
        elif k == "relu":
            a = b.unary("RELU", src)
        elif k == "lrelu":
            a = b.unary("LEAKY_RELU", src)
        else:
            lo, hi = _qrange(dtype)
            c2 = b.const([1, 1, 1, shp[3]], dtype, [rng.randint(lo, hi) for _ in range(shp[3])], [rand_scale(rng)], [rand_zp(rng, dtype)])
            a = b.binary("ADD" if k == "addc" else "MUL", src, c2)
        c = b.cpu_op(a, rng.choice(["custom", "sin_like"]))
        d = b.binary(rng.choice(["ADD", "SUB", "MUL"]), c, src)
        return b.finish([d] + ([a] if rng.random() < 0.2 else []))
    if pattern == "residual":
        c = rng.choice([8, 16, 32, 64])
        shp = [1, rng.choice([8, 16, 24, 32, 48]), rng.choice([8, 16, 24, 32]), c]
        x = b.input(shp)
        cur = x
        for _ in range(rng.randint(1, 3)):
            skip = cur
            y = cur
            for _ in range(rng.randint(2, 3)):
                y = b.conv(y, c, rng.choice([(1, 1), (3, 3)]), (1, 1), (1, 1), "SAME", act=rng.choice([0, 1]))
            cur = b.binary("ADD", y, skip, act=rng.choice([0, 1]))
        return b.finish([cur])
    if pattern == "lut_reuse":
        shp = [1, rng.randint(1, 8), rng.randint(1, 8), rng.choice([4, 8, 16])]
        x = b.input(shp, scale=1.0 / 16, zp=0 if dtype == "int8" else 128)
        cur = x
        kinds = [rng.choice(["TANH", "LOGISTIC", "LEAKY_RELU"]) for _ in range(2)]
        seq = [kinds[i % 2] for i in range(rng.randint(3, 6))]
        if rng.random() < 0.3:
            rng.shuffle(seq)
        for k in seq:
            # identical quantisation in and out so that equal operators build equal tables
            if k == "LEAKY_RELU":
                o = b.fm(shp, dtype, scale=1.0 / 16, zp=b.t(x).zps[0])
                b.net.ops.append(Op(k, [cur], [o], ("LeakyReluOptions", dict(Alpha=0.125))))
            else:
                o = b.unary(k, cur)
            # bring the scale back with a requantising 1x1-free op: QUANTIZE keeps everything on the NPU
            cur = b.fm(shp, dtype, scale=1.0 / 16, zp=b.t(x).zps[0])
            b.net.ops.append(Op("QUANTIZE", [o], [cur], ("QuantizeOptions", {})))
        return b.finish([cur])
    if pattern == "deep_slices":
        c = rng.choice([128, 192, 256, 320])
        x = b.input([1, rng.choice([4, 8]), rng.choice([4, 8]), c])
        cur = x
        for _ in range(rng.randint(2, 4)):
            cur = b.conv(cur, rng.choice([c, 256, 144, 272]), rng.choice([(1, 1), (1, 1), (3, 3)]), (1, 1), (1, 1), "SAME")
        return b.finish([cur])
    if pattern == "fc1_after_conv":
        c = rng.choice([32, 64, 128])
        x = b.input([1, rng.choice([4, 6, 8]), rng.choice([4, 8]), c])
        y = b.conv(x, rng.choice([64, 128, 256]), (3, 3), (1, 1), (1, 1), "SAME")
        if rng.random() < 0.5:
            y = b.conv(y, rng.choice([64, 128]), (1, 1), (1, 1), (1, 1), "SAME")
        yt = b.t(y)
        flat = b.reshape(y, [1, yt.shape[1] * yt.shape[2] * yt.shape[3]])
        z = b.fc(flat, rng.choice([1, 1, 2, 3, 10]))
        return b.finish([z])
    if pattern == "nobias":
        x = b.input([rng.choice([1, 1, 2]), rng.randint(4, 12), rng.randint(4, 12), rng.choice([3, 8, 16])])
        s = rng.choice([1, 1, 2, 4])
        y = b.conv(x, rng.choice([4, 8]), (3, 3), (s, s), (1, 1), rng.choice(["SAME", "VALID"]), bias=False)
        if y is None:
            y = b.unary("RELU", x)
        if rng.random() < 0.5:
            y2 = b.conv(y, 8, (1, 1), (1, 1), (1, 1), "SAME", bias=rng.random() < 0.5)
            y = y2 if y2 is not None else y
        return b.finish([y])
    if pattern == "casc_s2_valid":
        w = rng.choice([32, 48, 64, 63, 65])
        h = rng.choice([33, 40, 41, 48, 64])
        c = rng.choice([16, 32])
        x = b.input([1, h, w, c])
        y = b.conv(x, c, (3, 3), (1, 1), (1, 1), "SAME")
        y = b.conv(y, c, rng.choice([(3, 3), (2, 2), (1, 1), (5, 5)]), (2, 2), (1, 1), rng.choice(["VALID", "VALID", "SAME"]))
        y = b.conv(y, c, (3, 3), (1, 1), (1, 1), rng.choice(["SAME", "VALID"]))
        return b.finish([y])
    if pattern == "two_npu_islands":
        shp = [1, rng.randint(4, 16), rng.randint(4, 16), rng.choice([8, 16])]
        x = b.input(shp)
        a = b.conv(x, shp[3], (3, 3), (1, 1), (1, 1), "SAME")
        a2 = b.unary("RELU", a)
        c = b.cpu_op(a2, "custom")
        d = b.conv(c, shp[3], (1, 1), (1, 1), (1, 1), "SAME")
        e = b.binary("ADD", d, a2)          # a2 crosses the CPU island: long live range
        f = b.cpu_op(e, rng.choice(["custom", "sin_like"]))
        g = b.binary("MUL", f, d)
        return b.finish([g])
    if pattern == "concat_slices":
        c = rng.choice([8, 16, 24])
        x = b.input([1, rng.randint(4, 12), rng.randint(4, 12), c])
        p1 = b.conv(x, rng.choice([8, 16]), (1, 1), (1, 1), (1, 1), "SAME")
        p2 = b.conv(x, rng.choice([8, 16, 24]), (3, 3), (1, 1), (1, 1), "SAME")
        p3 = b.pool(x, "MAX_POOL_2D", (3, 3), (1, 1), "SAME")
        cat = b.concat([p1, p2, p3], 3)
        y = b.conv(cat, 16, (1, 1), (1, 1), (1, 1), "SAME")
        return b.finish([y])
    if pattern == "shared_weights":
        c = rng.choice([8, 16])
        x = b.input([1, 8, 8, c])
        y = b.conv(x, c, (3, 3), (1, 1), (1, 1), "SAME", per_channel=False)
        # second convolution re-uses the first one's weight and bias tensors
        first = b.net.ops[-1]
        z = b.fm(b.t(y).shape, dtype)
        b.net.ops.append(Op("CONV_2D", [y, first.inputs[1], first.inputs[2]], [z], first.opts))
        return b.finish([z])
    if pattern == "shared_weights_deep":
        # two convolutions share ONE weight tensor but have biases of their own (the encoder's cache returns the encoded weights
        # and a standalone scale tensor for the second); preceded and followed by convolutions with large constants of their
        # own and small feature maps, so the constants lie beyond the arena extent: an access to the right offset in the
        # wrong region leaves the region (seeded change C02-r6m2)
        c = 32
        x = b.input([1, 8, 8, c])
        cur = x
        for _ in range(1 + idx % 3):
            cur = b.conv(cur, c, (3, 3), (1, 1), (1, 1), "SAME", per_channel=False)
        y = b.conv(cur, c, (3, 3), (1, 1), (1, 1), "SAME", per_channel=False)
        first = b.net.ops[-1]
        bt0 = b.t(first.inputs[2])
        br = np.random.RandomState(rng.getrandbits(32))
        bt = b.const([c], bt0.dtype, br.randint(-2000, 2000, c), list(bt0.scales), [0] * len(bt0.scales), 0, b.fresh("b"))
        z = b.fm(b.t(y).shape, dtype, scale=b.t(y).scales[0])
        b.net.ops.append(Op("CONV_2D", [y, first.inputs[1], bt], [z], first.opts))
        w = b.conv(z, c, (3, 3), (1, 1), (1, 1), "SAME", per_channel=False) if idx % 2 else z
        return b.finish([w])
    if pattern == "narrowing_cascade":
        # a cascade whose rolling buffers change element width: conv -> QUANTIZE to a wider type -> QUANTIZE back -> conv 3x3
        # -> pool; the buffer between the two QUANTIZE operators has wider elements than its consumer's result (seeded change
        # C03-r6m1: the live range of a rolling buffer sized from the consumer's OFM type)
        hw = [16, 24, 32][idx % 3]
        c = [8, 16][idx // 3 % 2]
        x = b.input([1, hw, hw, c], "int8")
        y = b.conv(x, c, (3, 3), (1, 1), (1, 1), "SAME")
        q1 = b.quantize(y, "int16")
        b.t(q1).zps = [0]
        q2 = b.quantize(q1, "int8")
        z = b.conv(q2, c, (3, 3), (1, 1), (1, 1), "SAME")
        o = b.pool(z, "MAX_POOL_2D", (2, 2), (2, 2), "VALID")
        return b.finish([o])
    if pattern == "big_fm_u65":
        c = rng.choice([16, 32])
        x = b.input([1, rng.choice([64, 96, 128]), rng.choice([64, 96]), c])
        y = b.conv(x, c, (3, 3), (1, 1), (1, 1), "SAME")
        z = b.conv(y, c, (3, 3), (1, 1), (1, 1), "SAME")
        w = b.binary("ADD", z, y)
        return b.finish([w])
    if pattern == "avgpool_chain":
        x = b.input([1, rng.randint(6, 20), rng.randint(6, 20), rng.choice([4, 8, 16])])
        y = b.pool(x, "AVERAGE_POOL_2D", (3, 3), (1, 1), "SAME")
        y = b.pool(y, "AVERAGE_POOL_2D", (2, 2), (2, 2), "VALID")
        y = b.unary("RELU6", y)
        return b.finish([y])
    if pattern == "widen_ew":
        # elementwise operator whose result type is wider than its operands (int8 -> int16/int32, uint8 -> int32):
        # same shape, single-consumer input, so every "may the output reuse the input's bytes" decision is exercised
        shp = [1, rng.randint(2, 12), rng.randint(2, 12), rng.choice([4, 8, 16])]
        x = b.input(shp)
        y = b.input(shp) if rng.random() < 0.5 else b.conv(x, shp[3], (1, 1), (1, 1), (1, 1), "SAME")
        first = b.conv(x, shp[3], (3, 3), (1, 1), (1, 1), "SAME") if rng.random() < 0.5 else x
        wide = rng.choice(["int16", "int32"]) if dtype == "int8" else "int32"
        kind = rng.choice(["ADD", "SUB", "MUL"])
        o = b.fm(shp, wide) if wide == "int16" else b.net.add(T(b.fresh("t"), shp, "int32", scales=[rand_scale(rng)], zps=[0]))
        oname = {"ADD": "AddOptions", "SUB": "SubOptions", "MUL": "MulOptions"}[kind]
        b.net.ops.append(Op(kind, [first, y], [o], (oname, dict(FusedActivationFunction=0))))
        return b.finish([o])
    if pattern == "reshape_fork":
        # a produced feature map with two consumers, one of them through a memory-only operator that cannot be
        # bypassed (so it becomes a copy) followed by an elementwise operator that may work in place
        c = rng.choice([4, 8, 16])
        h, w = rng.choice([4, 6, 8, 12]), rng.choice([4, 8, 12, 16])
        x = b.input([1, h, w, c])
        t = b.conv(x, c, (1, 1), (1, 1), (1, 1), "SAME") if rng.random() < 0.8 else b.unary("ABS", x)
        new_shape = rng.choice([[1, h * 2, w // 2, c], [1, h // 2, w * 2, c], [1, h * w, 1, c], [1, h, w, c]])
        r = b.reshape(t, new_shape)
        k = rng.choice(["addc", "addc", "abs", "lrelu", "mulc"])
        if k == "abs":
            o1 = b.unary("ABS", r)
        elif k == "lrelu":
            o1 = b.unary("LEAKY_RELU", r)
        else:
            lo, hi = _qrange(dtype)
            rt = b.t(r)
            c2 = b.const([1, 1, 1, c], dtype, [rng.randint(lo, hi) for _ in range(c)], [rt.scales[0]], [rt.zps[0]])
            o1 = b.binary("ADD" if k == "addc" else "MUL", r, c2)
        o2 = b.conv(t, c, (1, 1), (1, 1), (1, 1), "SAME") if rng.random() < 0.8 else b.unary("ABS", t)
        outs = [o1, o2] if rng.random() < 0.7 else [o2, o1]
        return b.finish(outs)
    # minmax_lrelu
    shp = [1, rng.randint(2, 10), rng.randint(2, 10), rng.choice([4, 16])]
    x, x2 = b.input(shp), b.input(shp)
    y = b.binary("MAXIMUM", x, x2)
    y = b.unary("LEAKY_RELU", y)
    y = b.binary("MINIMUM", y, x)
    return b.finish([y])


# ------------------------------------------------------------------------------------------------
# One filter tensor and / or one bias tensor OF THE FILE used by 2-4 operators that differ in (mostly) exactly one
# respect.  The TFLite reader hands every operator its own clone of a shared constant (same value_id), graph
# rewrites change some clones in place, and the weight compressor memoises on the value_id: whatever one
# operator's request leaves in the process-wide cache must be invisible to the next one.

SHARED_AXES = ["same", "bias", "ofm_scale", "ifm_scale", "ifm_size", "stride", "stride_first", "stride_ge4", "dilation",
               "tconv", "ifm_bits", "bias_only"]
# part 2 (harness/netgen_shared.py, imported lazily: that module imports this one): every rewrite that re-lays weights, with
# users of the shared filter that differ in the parameter the rewrite reads
SHARED_AXES_EXT = ["padding", "stride_ge4_same_vs_valid", "stride_ge4_ifm_width", "kernel_larger_than_ifm", "dilation_hw", "groups",
                   "dw_mult", "dw_params", "dw_vs_conv", "fc_ifm_shape", "conv1x1_fc", "tconv_params"]
SHARED_AXES += SHARED_AXES_EXT


def shared_consts_net(rng, idx=0, axis=None, n_ops=None, kernel=None, oc=None, ic=None, hw=None, dtype=None,
                      per_channel=None, extra_axis=None, **ext):
    """`axis` (one of SHARED_AXES) names the single respect in which the consumers of the shared filter differ:

    same          nothing (pure reuse)                       bias        each operator has its own bias tensor
    ofm_scale     OFM quantisation                           ifm_scale   graph inputs with different scales
    ifm_size      IFM height/width (block config, hence the OFM block depth, may differ per accelerator)
    stride        strides 1/2/3 with an IFM too deep for the strided-convolution rewrite
    stride_first  every operator has stride 2 or 3, IFM depth <= 4: only operator 0 of the file is re-laid
                  (fixup_strided_conv: kw x ic -> kw/f x ic*f)
    stride_ge4    stride 4 in x (re-laid for every operator index) next to stride 1/2
    dilation      dilations out of 1..4 (fixup_dilation_gt2 re-lays the filter for 3 and 4)
    tconv         a CONV_2D and a TRANSPOSE_CONV on one OHWI filter (the transpose convolution is encoded flipped)
    ifm_bits      int8 and int16 feature maps on one int8 filter
    bias_only     different filters, one bias tensor"""
    axis = axis or rng.choice(SHARED_AXES)
    if axis in SHARED_AXES_EXT:
        import netgen_shared

        return netgen_shared.build(rng, idx, axis, n_ops=n_ops, dtype=dtype, per_channel=per_channel, kernel=kernel, oc=oc, ic=ic, hw=hw, **ext)
    dtype = dtype or ("int8" if axis in ("ifm_bits", "tconv") else rng.choice(["int8", "int8", "int8", "uint8", "int16"]))
    b = B(rng, f"pat{idx}_shared_consts", dtype)
    n_ops = n_ops or rng.choice([2, 2, 2, 3, 4])
    kh, kw = kernel or rng.choice([(3, 3), (3, 3), (1, 1), (2, 2), (3, 2), (1, 3)])
    if axis == "stride_first":
        kh, kw = kernel or rng.choice([(2, 2), (3, 3), (1, 1), (2, 2), (3, 4)])
        ic = ic or rng.choice([1, 2, 2, 3, 4])
    elif axis == "dilation" and not kernel:
        kh, kw = rng.choice([(3, 3), (3, 3), (2, 2), (1, 3), (3, 1)])
    ic = ic or rng.choice([4, 8, 16, 16, 32])
    oc = oc or rng.choice([8, 16, 16, 24, 32, 40, 64])
    h, w = hw or (rng.choice([6, 8, 9, 12, 16]), rng.choice([6, 8, 12, 12, 16, 24]))
    if axis in ("stride_first", "stride_ge4") and not hw:
        w = rng.choice([12, 24, 48])          # widths the rewrite's resize factor divides
    axes = [axis] + ([extra_axis] if extra_axis else [])
    wd = "int8" if dtype in ("int8", "int16") else "uint8"
    pc = (rng.random() < 0.5 if per_channel is None else per_channel) and wd == "int8"
    ws = [rand_scale(rng, -8, -3) for _ in range(oc if pc else 1)]
    wz = [0] * len(ws) if wd == "int8" else [rng.randint(100, 150)]

    def new_filter():
        return b.const([oc, kh, kw, ic], wd, b.rand_weights([oc, kh, kw, ic], wd, rng.choice(["uniform", "uniform", "small", "sparse"])),
                       ws, wz, 0, b.fresh("w"))

    def new_bias(in_scale, bdt):
        br = np.random.RandomState(rng.getrandbits(32))
        return b.const([oc], bdt, br.randint(-2000, 2000, oc), [in_scale * s for s in ws], [0] * len(ws), 0, b.fresh("b"))

    in_scale = rand_scale(rng)
    x0 = b.input([1, h, w, ic], scale=in_scale)
    wt = new_filter()
    bt = new_bias(in_scale, "int64" if dtype == "int16" else "int32")
    out_scale = rand_scale(rng)
    strides = [1] * n_ops
    dils = [1] * n_ops
    if "stride" in axes:
        strides = [[1, 2, 3, 2][(i + idx) % 4] for i in range(n_ops)]
    if "stride_first" in axes:
        s = rng.choice([2, 2, 3])
        strides = [s] * n_ops if rng.random() < 0.6 else [s] + [rng.choice([1, s]) for _ in range(n_ops - 1)]
    if "stride_ge4" in axes:
        strides = [[4, 1, 2, 4][(i + idx) % 4] for i in range(n_ops)]
    if "dilation" in axes:
        pool = rng.choice([[1, 3], [3, 1], [2, 4], [4, 2], [1, 2, 3, 4], [3, 3, 1], [1, 4, 2, 3]])
        dils = [pool[i % len(pool)] for i in range(n_ops)]
    outs = []
    b.net.desc.append(f"pattern=shared_consts axis={'+'.join(axes)} dtype={dtype} filter={[oc, kh, kw, ic]} in={[1, h, w, ic]} "
                      f"strides={strides} dilations={dils} per_channel={pc}")
    for i in range(n_ops):
        x, xs, f_i, b_i, osc, odt = x0, in_scale, wt, bt, out_scale, dtype
        if "ifm_scale" in axes and i > 0:
            xs = rand_scale(rng)
            x = b.input([1, h, w, ic], scale=xs)
        if "ifm_size" in axes and i > 0:
            x = b.input([1, h * (i + 1), max(1, w // (i + 1)) if i % 2 else w + 4 * i, ic], scale=in_scale)
        if "ifm_bits" in axes and i % 2 == 1:
            x = b.input([1, h, w, ic], "int16", scale=in_scale, zp=0)
            odt = "int16"
            b_i = new_bias(in_scale, "int64")
        if "ofm_scale" in axes and i > 0:
            osc = rand_scale(rng)
        if ("bias" in axes or "ifm_scale" in axes and rng.random() < 0.5) and i > 0 and b_i == bt:
            b_i = new_bias(xs, "int64" if dtype == "int16" else "int32")
        if "bias_only" in axes and i > 0:
            f_i = new_filter()
        xt = b.t(x)
        if "tconv" in axes and i % 2 == 1:
            oh, ow = xt.shape[1] * 2, xt.shape[2] * 2
            os_ = b.const([4], "int32", [1, oh, ow, oc], name=b.fresh("oshape"))
            y = b.fm([1, oh, ow, oc], odt, scale=osc, zp=0 if odt == "int16" else None)
            b.net.ops.append(Op("TRANSPOSE_CONV", [os_, f_i, x, b_i], [y], ("TransposeConvOptions", dict(Padding=0, StrideW=2, StrideH=2))))
            outs.append(y)
            continue
        s, d = strides[i], dils[i]
        sh = s if s < 4 else rng.choice([1, 2])
        oh, ow = b._out_hw(xt.shape[1], xt.shape[2], kh, kw, sh, s, d, d, "SAME")
        y = b.fm([1, oh, ow, oc], odt, scale=osc, zp=0 if odt == "int16" else None)
        b.net.ops.append(Op("CONV_2D", [x, f_i, b_i], [y], ("Conv2DOptions", dict(
            Padding=0, StrideW=s, StrideH=sh, DilationWFactor=d, DilationHFactor=d, FusedActivationFunction=0))))
        outs.append(y)
    return b.finish(outs)
