#!/venv/bin/python
"""C19 — lookup tables and compile-time fixed-point maths match their reference functions.

Proofs: Props/C19.lean (model of fp_math.py = gemmlowp/TFLite reference with C semantics, LUT entry theorems).
Correspondence, every run:
  * every function of fp_math.py is called in-process with operands as Python int AND as np.int8/16/32/64/uint8
    scalars (exhaustive 8-bit pairs, exhaustive 16-bit first operand, boundary-biased random 32-bit) and compared
    with Model/FpMath.lean; the Lean reference (Spec/Gemmlowp.lean) is evaluated on the same operands and is what
    decides whether a disagreement is a failing input of the *code*;
  * leaky-relu / hard-swish / rsqrt tables and Quantize constant folding are produced by the real graph-optimiser
    functions on stub operators and compared entry by entry with Model/Lut.lean; the Lean reference kernels
    (leakyReluRef, hardSwishRef, requantizeRef) judge the implementation's own tables;
  * sigmoid / tanh tables: the Lean handler evaluates the same formula with Lean `Float` (same libm); entries are
    compared, +-1 differences are classified by the distance of the unrounded value from a rounding tie;
  * harness/c19_more.py: SoftMax.generate_exp_table (model Model/SoftmaxTable.lean, reference Spec/SoftmaxRef.lean), the lut.py float
    generators and the int16 SOFTMAX constants (Lean Float, validated), sibling runs with equal quantisation, Quantize folding through
    the whole compiler; the RSQRT table is judged by the TFLite reference kernel of Spec/RsqrtRef.lean (rsqrtchk).
"""
import linecache
import math
import multiprocessing as mp
import os
import re
import struct
import sys
import traceback
import warnings

import common
import c19_more
from common import Check, main_wrapper

I32MIN, I32MAX = -(1 << 31), (1 << 31) - 1
I16MIN, I16MAX = -(1 << 15), (1 << 15) - 1

# protocol name -> fp_math attribute
FNS = {
    "srm32": "saturating_rounding_mul32", "srm16": "saturating_rounding_mul16", "sm16": "saturating_mul16",
    "shl32": "shift_left32", "shl16": "shift_left16", "down16": "downscale_multiplier_int32_to_int16",
    "rdbp": "rounding_divide_by_pot", "srmbp": "saturating_rounding_multiply_by_pot", "rescale": "rescale",
    "expint": "exp_on_interval_between_negative_one_quarter_and_0_excl", "expneg": "exp_on_negative_values",
    "mbqm": "multiply_by_quantized_multiplier",
}
# which argument positions carry tensor/intermediate data (and therefore arrive as NumPy scalars);
# shifts / exponents / integer-bit counts are Python ints at every call site
DATA_ARGS = {"srm32": (0, 1), "srm16": (0, 1), "sm16": (0, 1), "shl32": (0,), "shl16": (0,), "down16": (0,),
             "rdbp": (0,), "srmbp": (0,), "rescale": (2,), "expint": (0,), "expneg": (0,), "mbqm": (0,)}
TYPES = ["int", "int8", "uint8", "int16", "int32", "int64"]
# (function, operand type) combinations that occur at a call site inside ethosu/vela (read off the source):
#   convert_hardswish_to_lut: srm16(int|int64, int|int16), shl16(int16|int32), srm16(int16|int32, ...), rdbp(int32|int64),
#                             sm16(int32|int64, int32|int16)
#   optimise_quantize / convert_lrelu_to_lut / rsqrt: mbqm(int | int64 | int8 | int16) -> srm32(same type) -> rdbp(int64)
#   softmax: srm32(int), expneg(int64|int32) -> rescale/srmbp/shl32(int32), expint(int32), srm32(int32|int64)
CALLSITE = {
    ("srm16", "int16"), ("srm16", "int32"), ("srm16", "int64"), ("sm16", "int16"), ("sm16", "int32"), ("sm16", "int64"),
    ("shl16", "int16"), ("shl16", "int32"), ("rdbp", "int32"), ("rdbp", "int64"),
    ("mbqm", "int8"), ("mbqm", "int16"), ("mbqm", "int64"), ("srm32", "int32"), ("srm32", "int64"),
    ("expneg", "int32"), ("expneg", "int64"), ("expint", "int32"), ("rescale", "int32"), ("srmbp", "int32"),
    ("shl32", "int32"), ("down16", "int32"),
}
# saturating_rounding_multiply_by_pot and rescale end in shift_left32, so a typed disagreement there is the same defect
KEY_BY_FN = {"shl16": "shift-left-np-operand-wraps", "shl32": "shift-left-np-operand-wraps",
             "srmbp": "shift-left-np-operand-wraps", "rescale": "shift-left-np-operand-wraps",
             "mbqm": "mbqm-np-operand-left-shift-wraps"}

_fp = None
_np = None


def _load():
    global _fp, _np
    if _fp is None:
        common.setup_repo_path()
        import numpy
        from ethosu.vela import fp_math
        _fp, _np = fp_math, numpy
    return _fp, _np


def fits(tname, v):
    if tname == "int":
        return True
    bits = int(tname.lstrip("uint"))
    if tname.startswith("u"):
        return 0 <= v < (1 << bits)
    return -(1 << (bits - 1)) <= v < (1 << (bits - 1))


def canon_exc(e):
    """Map an exception of the real code to the protocol's error kinds.  An exception raised while evaluating an
    `assert` line of fp_math.py is the function rejecting its operand (AssertionError, or NumPy 2's OverflowError
    from `np.int32(python_int)` inside the assert)."""
    tb = traceback.extract_tb(e.__traceback__)
    last = tb[-1]
    src = (last.line or linecache.getline(last.filename, last.lineno)).strip()
    in_fp = last.filename.endswith("fp_math.py")
    if isinstance(e, AssertionError):
        return "err:assert"
    if isinstance(e, OverflowError):
        return "err:assert" if (in_fp and src.startswith("assert ")) else "err:overflow"
    if isinstance(e, ValueError) and "negative shift count" in str(e):
        return "err:value"
    return "exc:" + type(e).__name__


def call_real(fn, tname, args):
    fp, np = _load()
    f = getattr(fp, FNS[fn])
    a = list(args)
    if tname != "int":
        if not all(fits(tname, a[i]) for i in DATA_ARGS[fn]):
            return "skip"
        T = getattr(np, tname)
        for i in DATA_ARGS[fn]:
            a[i] = T(a[i])
    try:
        r = f(*a)
        return "ok %d" % int(r)
    except Exception as e:  # noqa: the code under test may raise anything
        return canon_exc(e)


def _worker(job):
    fn, tname, arglist = job
    warnings.simplefilter("ignore")
    return [call_real(fn, tname, a) for a in arglist]


def run_real(jobs, procs):
    """jobs: list of (fn, typename, [args...]); returns list of result lists (same order)."""
    if procs <= 1:
        return [_worker(j) for j in jobs]
    # split big jobs so that the pool balances
    pieces, index = [], []
    for ji, (fn, tn, al) in enumerate(jobs):
        step = 20000
        for k in range(0, max(len(al), 1), step):
            pieces.append((fn, tn, al[k:k + step]))
            index.append(ji)
    ctx = mp.get_context("fork")
    with ctx.Pool(procs) as pool:
        outs = pool.map(_worker, pieces, chunksize=1)
    res = [[] for _ in jobs]
    for ji, o in zip(index, outs):
        res[ji].extend(o)
    return res


# ---------------------------------------------------------------------------------------------------------------
# generators
# ---------------------------------------------------------------------------------------------------------------
def rand32(rng):
    r = rng.random()
    if r < 0.18:
        return rng.choice([I32MIN, I32MIN + 1, I32MAX, I32MAX - 1, 0, 1, -1, 1 << 30, -(1 << 30), (1 << 30) - 1,
                           1 << 29, -(1 << 29), I16MIN, I16MAX, 1 << 16, 1 << 24, (1 << 24) - 1, -(1 << 24)])
    if r < 0.30:
        return rng.choice([1, -1]) * ((1 << rng.randrange(0, 31)) + rng.randrange(-2, 3))
    if r < 0.40:
        return rng.randrange(-70000, 70000)
    return rng.randrange(I32MIN, I32MAX + 1)


def rand16(rng):
    r = rng.random()
    if r < 0.25:
        return rng.choice([I16MIN, I16MIN + 1, I16MAX, I16MAX - 1, 0, 1, -1, 1 << 14, -(1 << 14), (1 << 14) - 1, 128, -128, 255])
    return rng.randrange(I16MIN, I16MAX + 1)


def clamp32(v):
    return max(I32MIN, min(I32MAX, v))


def gen_fp_cases(ck, scale_pairs):
    """returns list of (fn, typename, [args tuples]) ; 'malformed' (out-of-domain) operands only with Python ints"""
    rng = ck.rng
    th = ck.thorough
    jobs = []
    ALL16 = list(range(I16MIN, I16MAX + 1))
    # --- 8-bit exhaustive pairs, all three multipliers, operands typed int8 / uint8 / int ---
    p8s = [(a, b) for a in range(-128, 128) for b in range(-128, 128)]
    p8u = [(a, b) for a in range(256) for b in range(256)]
    for fn in ("srm16", "sm16", "srm32"):
        jobs.append((fn, "int8", p8s))
        jobs.append((fn, "uint8", p8u))
    jobs.append(("srm16", "int", p8s))
    # --- 16-bit: exhaustive first operand x chosen second operands ---
    b16 = [I16MIN, I16MAX, -1, 16384] + [rand16(rng) for _ in range(3 if not th else 60)]
    nb = len(b16)
    for fn in ("srm16", "sm16"):
        for tn, bs, rev in (("int", b16, 1), ("int16", b16[:2] + b16[-3:] if not th else b16, 1),
                            ("int32", b16[-1:] if not th else b16[: nb // 2], 0), ("int64", b16[-2:-1] if not th else b16[nb // 2:], 0)):
            jobs.append((fn, tn, [(a, b) for b in bs for a in ALL16]))
            if rev:
                jobs.append((fn, tn, [(b, a) for b in (bs[-1:] if not th else bs[:8]) for a in ALL16]))
    offs = list(range(0, 18)) if th else [0, 1, 2, 5, 14, 15, 16, 17]
    for tn in ("int", "int16", "int32"):
        os_ = offs if tn == "int16" or th else (offs[1:6] if tn == "int" else offs[:3])
        jobs.append(("shl16", tn, [(a, o) for o in os_ for a in (ALL16 if th or tn != "int32" else ALL16[::7])]))
    exps = list(range(0, 18)) if th else [0, 1, 2, 3, 7, 8, 15, 16]
    for tn in ("int", "int16", "int32", "int64"):
        es = exps if tn == "int32" or th else (exps[1:6] if tn == "int" else exps[:4])
        jobs.append(("rdbp", tn, [(x, e) for e in es for x in (ALL16 if th or tn in ("int", "int32") else ALL16[::5])]))
    jobs.append(("rdbp", "int8", [(x, e) for e in range(0, 9) for x in range(-128, 128)]))
    jobs.append(("rdbp", "uint8", [(x, e) for e in range(0, 9) for x in range(256)]))
    jobs.append(("shl16", "int8", [(x, e) for e in range(0, 17) for x in range(-128, 128)]))
    jobs.append(("mbqm", "int8", [(x, m, s) for (m, s) in scale_pairs[:40] for x in range(-128, 128)]))
    jobs.append(("mbqm", "uint8", [(x, m, s) for (m, s) in scale_pairs[:40] for x in range(256)]))
    jobs.append(("mbqm", "int16", [(x, m, s) for (m, s) in scale_pairs[40:(46 if not th else 80)] for x in ALL16]))
    # --- 32-bit boundary-biased random ---
    n32 = 40000 if not th else 600000
    pairs32 = [(rand32(rng), rand32(rng)) for _ in range(n32)]
    pairs32 += [(I32MIN, I32MIN), (I32MIN, I32MAX), (I32MAX, I32MIN), (I32MAX, I32MAX), (I32MIN, -1), (-1, I32MIN), (0, I32MIN)]
    for tn in ("int", "int32", "int64"):
        jobs.append(("srm32", tn, pairs32 if tn == "int" else pairs32[: n32 // 2] + pairs32[-7:]))
    xs32 = [rand32(rng) for _ in range(n32 // 2)]
    for tn in ("int", "int32", "int64"):
        jobs.append(("rdbp", tn, [(x, rng.randrange(0, 32)) for x in xs32]))
        jobs.append(("shl32", tn, [(x, rng.randrange(0, 34)) for x in xs32[: n32 // 4]]))
        jobs.append(("srmbp", tn, [(x, rng.randrange(0, 32)) for x in xs32[: n32 // 4]]))
        jobs.append(("rescale", tn, [(rng.randrange(0, 13), rng.randrange(0, 13), x) for x in xs32[: n32 // 4]]))
        jobs.append(("down16", tn, [(x,) for x in xs32[: n32 // 4]] +
                     [(2147450879 + d,) for d in range(-70000, 70000, 97)] + [(2147450879 + d,) for d in range(-3, 4)]))
    jobs.append(("down16", "int", [(m,) for (m, _s) in scale_pairs]))
    # exp: Q0.31 interval and Q5.26 negative values
    nexp = 6000 if not th else 120000
    ints = [-(1 << 29), -(1 << 29) + 1, -1, -2, -(1 << 28), -(1 << 28) - 1, -(1 << 28) + 1] + \
           [-rng.randrange(1, (1 << 29) + 1) for _ in range(nexp)]
    negs = [0, -1, -2, I32MIN, I32MIN + 1, -(1 << 24), -(1 << 24) + 1, -(1 << 24) - 1, -(1 << 26), -(1 << 30)] + \
           [-(k << 24) + d for k in range(0, 129) for d in (-1, 0, 1) if I32MIN <= -(k << 24) + d <= 0] + \
           [-rng.randrange(0, 1 << rng.randrange(1, 32)) for _ in range(nexp)]
    for tn in ("int", "int32", "int64"):
        jobs.append(("expint", tn, [(a,) for a in (ints if tn == "int" else ints[: nexp // 3])]))
        jobs.append(("expneg", tn, [(clamp32(a),) for a in (negs if tn == "int" else negs[: 400 + nexp // 3])]))
    # mbqm: all multiplier/shift pairs of the scale sample x operand values
    mb = []
    for (m, s) in scale_pairs:
        left = max(31 - s, 0)
        lim = (1 << 31) >> left
        for _ in range(4 if not th else 30):
            r = rng.random()
            x = rng.randrange(-256, 257) if r < 0.4 else (rng.randrange(-lim - 2, lim + 2) if r < 0.8 else rand32(rng))
            mb.append((x, m, s))
    for tn in ("int", "int32", "int64"):
        jobs.append(("mbqm", tn, mb))
    # --- malformed / out-of-domain stream (Python ints only: this is what the asserts are for) ---
    bad = []
    big = [1 << 31, (1 << 31) + 5, -(1 << 31) - 1, 1 << 40, -(1 << 63), 1 << 63]
    for v in big:
        for fn in ("srm32", "srm16", "sm16"):
            bad += [(fn, (v, 3)), (fn, (3, v))]
        bad += [("srm16", (I16MAX + 1, 1)), ("sm16", (1, I16MIN - 1)), ("shl32", (v, 1)), ("shl16", (v, 0)), ("down16", (v,)),
                ("rdbp", (v, 1)), ("srmbp", (v, 1)), ("rescale", (5, 0, v)), ("rescale", (v, 0, 1)), ("expint", (v,)), ("expneg", (v,)),
                ("mbqm", (v, 1 << 30, 31))]
    for e in (-1, -2, -40, 32, 33, 40, 63):
        bad += [("rdbp", (rand32(rng), e)), ("srmbp", (rand32(rng), e)), ("srmbp", (0, e)), ("shl32", (rand32(rng), e)), ("shl16", (rand16(rng), e)),
                ("rescale", (0, e, rand32(rng))), ("rescale", (e, 0, rand32(rng)))]
    bad += [("expint", (0,)), ("expint", (1,)), ("expint", (-(1 << 29) - 1,)), ("expneg", (1,)), ("expneg", (12345,)),
            ("mbqm", (100, 1 << 30, 5)), ("mbqm", (1, 1 << 31, 31)), ("mbqm", (1, 0, 16)), ("mbqm", (-7, 1 << 30, 70)), ("mbqm", (-7, 1 << 30, -3))]
    byfn = {}
    for fn, a in bad:
        byfn.setdefault(fn, []).append(a)
    malformed_jobs = [(fn, "int", al) for fn, al in byfn.items()]
    return jobs, malformed_jobs


def dbl_bits(x):
    return struct.unpack("<Q", struct.pack("<d", float(x)))[0]


def main():
    ck = Check("C19", "proof")
    ck.lean_stage(["VelaVerif.Props.C19", "VelaVerif.Props.C19Src"])
    fp, np = _load()
    from ethosu.vela import lut as lutmod
    from ethosu.vela import scaling
    from ethosu.vela import tflite_graph_optimiser as tgo
    from ethosu.vela.data_type import DataType
    from ethosu.vela.operation import Op, Operation
    from ethosu.vela.tensor import QuantizationParameters, Tensor, create_const_tensor
    from ethosu.vela.test import testutil

    warnings.simplefilter("ignore")
    rng = ck.rng
    th = ck.thorough
    procs = min(16, os.cpu_count() or 4)

    # ---------------- replay of one recorded case -------------------------------------------------------------
    if ck.replay_arg:
        import json
        rp = json.load(open(ck.replay_arg if os.path.exists(ck.replay_arg) else os.path.join(common.VERIF, ck.replay_arg)))["replay"]
        if rp.get("kind") == "fp":
            real = call_real(rp["fn"], rp["typing"], tuple(rp["args"]))
            both = ck.model(["fpboth %s %s" % (rp["fn"], " ".join(map(str, rp["args"])))], parallel=False)[0]
            print(f"replay fp {rp['fn']}{tuple(rp['args'])} operands as {rp['typing']}: implementation={real}  model|reference={both}")
            sys.exit(0 if real == both.split(" | ")[0] else 1)
        if rp.get("kind") == "softmax_exp":
            sys.exit(c19_more.replay_softmax(ck, np, rp))
        print("replay: table cases are re-run by `./check C19 quick` with the recorded seed:", rp.get("seed_hint", ck.seed))
        sys.exit(0)

    # ---------------- scale sample -> (multiplier, shift) pairs through the real quantise_scale --------------
    nscales = 4000 if not th else 20000
    scales = []
    for _ in range(nscales):
        r = rng.random()
        if r < 0.5:
            s = math.exp(rng.uniform(math.log(1e-6), math.log(1e3)))
        elif r < 0.8:
            s = float(np.float32(math.exp(rng.uniform(math.log(1e-3), math.log(4.0)))))
        elif r < 0.9:
            s = 2.0 ** rng.randrange(-32, 31)                        # exact powers of two (significand 0.5)
        else:
            s = math.ldexp(1.0 - rng.random() * 2 ** -rng.randrange(20, 53), rng.randrange(-30, 31))   # significand close to 1
        scales.append(s)
    scale_pairs = []
    seen = set()
    for s in scales:
        m, sh = scaling.quantise_scale(s)
        if (m, sh) not in seen:
            seen.add((m, sh))
            scale_pairs.append((int(m), int(sh)))
    # boundary pairs: shifts at both ends, multiplier extremes (2^31 is what quantise_scale returns for significand -> 1)
    for pair in [(1 << 30, 0), (1 << 30, 1), (1 << 30, 31), (1 << 30, 32), (1 << 30, 62), (1 << 30, 63), (I32MAX, 31), (I32MAX, 40),
                 (1 << 31, 31), (0, 16), ((1 << 30) + 1, 30), (1518500250, 33)]:
        if pair not in seen:
            seen.add(pair)
            scale_pairs.insert(rng.randrange(0, 40), pair)
    ck.count("scale_pairs", len(scale_pairs))

    # ---------------- A. function-level streams ---------------------------------------------------------------
    jobs, malformed = gen_fp_cases(ck, scale_pairs)
    jobs = jobs + malformed
    # model/spec once per distinct (fn, args)
    import time
    req_index = {}
    reqs, req_keys, job_idx = [], [], []
    for fn, _tn, al in jobs:
        idx = []
        for a in al:
            k = (fn, a)
            i = req_index.get(k)
            if i is None:
                i = len(reqs)
                req_index[k] = i
                reqs.append("fpboth %s %s" % (fn, " ".join(map(str, a))))
                req_keys.append(k)
            idx.append(i)
        job_idx.append(idx)
    t0 = time.time()
    reals = run_real(jobs, procs)
    t1 = time.time()
    outs = ck.model(reqs)
    ck.count("time_real_calls_s", round(t1 - t0, 1))
    ck.count("time_lean_driver_s", round(time.time() - t1, 1))
    if os.environ.get("VERIF_DEBUG"):
        print(f"[debug] {sum(len(j[2]) for j in jobs)} real calls {t1 - t0:.1f}s; {len(reqs)} lean requests {time.time() - t1:.1f}s", flush=True)
    mlist = [o[:o.index(" | ")] for o in outs]
    n_eval = 0
    fp_disagree = []        # (fn, typing, args, real, model, spec)
    for (fn, tn, al), rl, idx in zip(jobs, reals, job_idx):
        ck.count(f"fp_{fn}_{tn}", len(al))
        n_eval += len(al)
        for j, real in enumerate(rl):
            if real != mlist[idx[j]] and real != "skip":
                o = outs[idx[j]]
                fp_disagree.append((fn, tn, al[j], real, mlist[idx[j]], o[o.index(" | ") + 3:]))
    n_fp_nontrivial = 0
    for (fn, a), m in zip(req_keys, mlist):
        if m[0] == "o":
            if any(a[i] not in (0, 1, -1) for i in DATA_ARGS[fn]):
                n_fp_nontrivial += 1
        else:
            ck.count("model_" + m)
    # verdicts on disagreements: the Lean reference value decides
    reported = set()
    for fn, tn, a, real, m, spec in fp_disagree:
        ck.count(f"disagree_{fn}_{tn}")
        replay = {"kind": "fp", "fn": fn, "python": f"fp_math.{FNS[fn]}", "typing": tn, "args": list(a), "implementation": real,
                  "model": m, "reference": spec}
        if tn == "int":
            if (fn, "int") in reported:
                continue
            reported.add((fn, "int"))
            if spec != "na" and real != "ok " + spec:
                ck.violation(f"fp_math.{FNS[fn]}{a} (Python int operands) returns {real}, gemmlowp/TFLite reference value is {spec}", replay)
            else:
                ck.violation(f"correspondence Model/FpMath.lean vs fp_math.{FNS[fn]} broken on Python-int operands {a}: "
                             f"implementation {real}, model {m}, reference {spec}", replay, found_input=False)
            continue
        if spec == "na":
            ck.count(f"typed_outside_reference_domain_{fn}_{tn}")
            continue
        if (fn, tn) not in CALLSITE:
            ck.count(f"typed_hazard_not_reached_by_a_call_site_{fn}_{tn}")
            if (fn, tn) not in reported:
                reported.add((fn, tn))
                ck.sample({"typed_hazard": f"fp_math.{FNS[fn]} with np.{tn} operand(s) {a}: {real}, reference {spec}"}, limit=24)
            continue
        if (fn, tn) in reported:
            continue
        reported.add((fn, tn))
        ck.violation(f"fp_math.{FNS[fn]}{a} with np.{tn} operand(s) (a type it is called with inside Vela) gives {real}; "
                     f"Model/FpMath.lean (Python-int semantics) gives {m}; gemmlowp/TFLite reference value {spec}", replay, key=KEY_BY_FN.get(fn))

    # from_float / to_float (not used by the compiler itself; covered for completeness of fp_math.py)
    ff_reqs, ff_real = [], []
    for _ in range(1500 if not th else 20000):
        ib = rng.choice([5, 5, 0, 1, 12, 21, 31, rng.randrange(0, 32)])
        r = rng.random()
        x = rng.uniform(-40, 40) if r < 0.5 else (rng.randrange(-(1 << 12), 1 << 12) + 0.5) / float(1 << rng.randrange(0, 27))
        if r > 0.95:
            x = rng.choice([0.0, -0.0, 1e12, -1e12, 0.5, 1.5, 2.5, -0.5, -1.5])
        mm, ee = math.frexp(x)
        mi = int(mm * (1 << 53))
        ff_reqs.append(f"fp fromfloat {mi} {ee - 53} {ib}")
        ff_real.append("ok %d" % int(fp.from_float(x, ib)))
        xi = rand32(rng)
        num, den = fp.to_float(xi, ib).as_integer_ratio()
        ff_reqs.append(f"tofloatchk {xi} {ib} {num} {den}")
        ff_real.append("1")
    ff_out = ck.model(ff_reqs)
    n_eval += len(ff_reqs)
    for rq, o, r in zip(ff_reqs, ff_out, ff_real):
        if o != r:
            ck.violation(f"from_float/to_float disagree with the model: {rq}: implementation {r}, Lean {o}",
                         {"kind": "float", "request": rq, "implementation": r, "model": o}, found_input=False)
            break

    # the Lean reference derives a requantisation multiplier from the two scales in exact integer arithmetic
    # (Spec/Gemmlowp.lean doubleQuotient + quantizeMultiplier); tie it to IEEE division + the real quantise_scale
    def _me(x):
        mm, ee = math.frexp(float(x))
        return int(mm * (1 << 53)), ee - 53
    qm_reqs, qm_real = [], []
    for j in range(0, min(len(scales) - 1, 3000), 1):
        a, b = scales[j], scales[j + 1]
        if j % 2:
            a, b = float(np.float32(a)), float(np.float32(b))
        d = a / b
        mq, sq = scaling.quantise_scale(d)
        if mq == 0 or mq == (1 << 31) or sq > 62:
            continue        # TFLite flushes shift < -31 (Vela shift 63) to zero; Vela's out-of-range convention (0, 16) / unnormalised 2^31: quantise_scale itself is C09's
        dm, de = _me(d)
        qm_reqs.append("qmult %d %d %d %d" % (_me(a) + _me(b)))
        qm_real.append("%d %d %d %d" % (dm, -de, mq, sq))
    qm_out = ck.model(qm_reqs)
    n_eval += len(qm_reqs)
    for rq, o, r in zip(qm_reqs, qm_out, qm_real):
        if o != r:
            ck.violation(f"Lean exact double quotient / QuantizeMultiplier disagrees with IEEE division + scaling.quantise_scale: {rq}: implementation {r}, Lean {o}",
                         {"kind": "qmult", "request": rq, "implementation": r, "lean": o}, found_input=False)
            break
    ck.count("scale_quotient_multiplier_cross_checks", len(qm_reqs))

    # ---------------- B. tables through the real graph-optimiser functions ------------------------------------
    captured = []
    orig_qs = scaling.quantise_scale

    def qs_wrap(s):
        r = orig_qs(s)
        captured.append((int(r[0]), int(r[1])))
        return r

    scaling.quantise_scale = qs_wrap
    tgo.quantise_scale = qs_wrap
    lutmod.quantise_scale = qs_wrap

    def qparams(scale, zp, dt, zt, st=None):
        q = QuantizationParameters()
        # tflite_reader delivers scales as np.float32 scalars; unit tests / API callers use Python floats
        q.scale_f32 = (st or np.float32)(scale)
        q.zero_point = zt(zp)
        bits = 16 if dt == DataType.int16 else 8
        q.quant_min = 0 if dt == DataType.uint8 else -(1 << (bits - 1))
        q.quant_max = 255 if dt == DataType.uint8 else (1 << (bits - 1)) - 1
        return q

    def stub(optype, dt, si, zi, so, zo, zt):
        op = testutil.create_op_with_quant_tensors(optype, [1, 4, 4, 8], [1, 4, 4, 8], datatype=dt)
        op.ifm.quantization = qparams(si, zi, dt, zt)
        op.ofm.quantization = qparams(so, zo, dt, zt)
        return op

    def rscale(lo=1e-4, hi=2.0):
        r = rng.random()
        if r < 0.15:
            return rng.choice([1.0, 0.5, 0.25, 1 / 128, 1 / 256, 0.00390625, 0.0078125, 3 / 256, 0.01171875, 0.011718749, 2.0])
        return math.exp(rng.uniform(math.log(lo), math.log(hi)))

    def rzp(dt):
        lo, hi = (0, 255) if dt == DataType.uint8 else (-128, 127)
        return rng.choice([lo, hi, (lo + hi + 1) // 2]) if rng.random() < 0.3 else rng.randrange(lo, hi + 1)

    def run_table(f):
        captured.clear()
        try:
            op = f()
            return "ok", op, list(captured), None
        except Exception as e:  # noqa
            tb = traceback.extract_tb(e.__traceback__)[-1]
            return canon_exc(e), None, list(captured), f"{type(e).__name__}: {e} at {os.path.basename(tb.filename)}:{tb.lineno} `{(tb.line or '').strip()}`"

    ZTS = [("int", int), ("np.int64", np.int64)]
    STS = [("np.float32", np.float32), ("float", float)]
    ntab = 140 if not th else 1500

    def dbl_me(x):
        """positive finite double -> (m, e) with x = m * 2^e exactly"""
        mm, ee = math.frexp(float(x))
        return int(mm * (1 << 53)), ee - 53

    # ---- Quantize folding: full code sweeps for scale pairs whose ratio is not representable in float32 (rounding ties
    #      of the folded constant are decided by the low bits of the multiplier, i.e. by HOW the scale quotient is computed)
    def quant_sweeps(kind):
        if kind == "quant16":
            pairs = [(5 / 32767, 6 / 32767), (10 / 32767, 0.000123), (3 / 32767, 7 / 32767),
                     (rng.randrange(1, 60) / 32767, rng.randrange(1, 60) / 32767)]
            pairs += [(rng.randrange(1, 200) / 32767, rng.randrange(1, 200) / 32767) for _ in range(40 if th else 4)]
            return [dict(si=a, so=b, zi=0, zo=0, sweep=True) for a, b in pairs]
        pairs = [(5 / 127, 6 / 127), (0.1, 0.3), (0.05, 0.07), (rng.randrange(1, 40) / 255, rng.randrange(1, 40) / 255)]
        pairs += [(rng.randrange(1, 99) / 255, rng.randrange(1, 99) / 255) for _ in range(40 if th else 4)]
        return [dict(si=a, so=b, zi=rng.randrange(-128, 128), zo=rng.randrange(-128, 128), sweep=True) for a, b in pairs]

    # ---- sigmoid / tanh: output quantisations other than the canonical 1/128, 1/256 and input scales that reach the
    #      saturated tails; "tie probes" put the unrounded value of one entry 3e-4 .. 3e-2 away from a rounding tie, so
    #      that a relative change of ~1e-3 of the function value at that code flips the entry (still judged by Lean Float)
    def real_fn(kind, x):
        if kind == "tanh":
            return math.tanh(x)
        return 0.0 if x <= -8 else (1.0 if x >= 8 else 1 / (1 + math.exp(-x)))

    def act_plan(kind, dt, probe):
        lo, hi = (0, 255) if dt == DataType.uint8 else (-128, 127)
        mid = (lo + hi + 1) // 2
        std_zo = mid if kind == "tanh" else lo
        inv = (128.0 if kind == "tanh" else 256.0)
        plan = {}
        if rng.random() < 0.6 or probe:
            plan["si"] = math.exp(rng.uniform(math.log(0.033), math.log(0.3)))          # reaches |x| >= 4 (tanh) / 8 (sigmoid)
            plan["zi"] = rng.choice([lo, hi, mid, rng.randrange(lo, hi + 1)])
        r = rng.random()
        if r < 0.3:
            plan["so"], plan["zo"] = 1 / inv, std_zo
        elif r < 0.8:
            plan["so"] = 1 / rng.uniform(inv * 0.7, inv * 1.1)
            plan["zo"] = max(lo, min(hi, std_zo + rng.choice([0, 0, -1, 1, -2, 2, rng.randrange(-20, 21)])))
        if probe:
            si32 = float(np.float32(plan["si"]))
            zi = plan["zi"]
            cut = 4.0 if kind == "tanh" else 8.0
            cands = [x for x in range(lo, hi + 1) if abs(si32 * (x - zi)) >= (cut if rng.random() < 0.7 else 1.0)]
            if kind == "sigmoid":
                cands = [x for x in cands if si32 * (x - zi) > 0] or cands
            for _ in range(20):
                if not cands:
                    break
                x = rng.choice(cands)
                y = real_fn(kind, si32 * (x - zi))
                zo = max(lo, min(hi, std_zo + rng.choice([0, 0, -1, 1, rng.randrange(-20, 21)])))
                eps = rng.choice([-1, 1]) * math.exp(rng.uniform(math.log(3e-4), math.log(3e-2)))
                if y > 0:
                    k = rng.randrange(max(zo + 40, lo), hi)          # rounds to k or k+1 <= hi: not saturated
                    v = k + 0.5 + eps
                else:
                    k = rng.randrange(lo + 1, min(zo - 40, hi) + 1) if zo - 40 > lo else None
                    if k is None:
                        continue
                    v = k - 0.5 - eps
                if y == 0 or (v - zo) * y <= 0:
                    continue
                plan["so"], plan["zo"] = y / (v - zo), zo
                plan["probe"] = {"code": x, "unrounded": v}
                break
        return plan
    tab_cases = []      # dict(kind, cfg, real_status, real_values, model_req, chk_req, detail)
    for kind in ("lrelu", "hswish", "quant8", "quant16", "rsqrt", "sigmoid", "tanh"):
        nk = ntab if kind not in ("rsqrt",) else ntab // 2
        specials = quant_sweeps(kind) if kind in ("quant8", "quant16") else []
        nprobe = (60 if not th else 600) if kind in ("sigmoid", "tanh") else 0
        for i in range(nk + len(specials) + nprobe):
            dt = DataType.int8 if (kind in ("rsqrt", "quant8") or rng.random() < 0.6) else DataType.uint8
            if kind == "quant16":
                dt = DataType.int16
            sg = 0 if dt == DataType.uint8 else 1
            ztn, zt = ZTS[i % 2]
            stn, sty = STS[(i // 2) % 2] if kind in ("quant8", "quant16") else STS[0]
            si, so = rscale(), rscale()
            if kind == "quant16":
                zi = zo = 0 if rng.random() < 0.7 else rng.randrange(-50, 50)
            else:
                zi, zo = rzp(dt), rzp(dt)
            plan = {}
            if i >= nk and specials:
                plan = specials[i - nk]
                if i - nk < 3:
                    stn, sty = STS[0]            # the named pairs always with reader-style np.float32 scales
                    ztn, zt = ZTS[1]
            elif kind in ("sigmoid", "tanh"):
                plan = act_plan(kind, dt, probe=(i >= nk))
            si, so, zi, zo = plan.get("si", si), plan.get("so", so), plan.get("zi", zi), plan.get("zo", zo)
            cfg = {"kind": kind, "dtype": str(dt), "ifm_scale": float(sty(si)), "ofm_scale": float(sty(so)), "zp_in": zi, "zp_out": zo,
                   "zero_point_type": ztn, "scale_type": stn}
            if "probe" in plan:
                cfg["tie_probe"] = plan["probe"]
                ck.count(f"table_{kind}_tie_probe")
            if kind in ("sigmoid", "tanh"):
                lo_, hi_ = (0, 255) if dt == DataType.uint8 else (-128, 127)
                reach = max(abs(float(np.float32(si)) * (lo_ - zi)), abs(float(np.float32(si)) * (hi_ - zi)))
                ck.count(f"table_{kind}_reaches_saturated_tail" if reach >= (4 if kind == "tanh" else 8) else f"table_{kind}_inside_tails_only")
                ck.count(f"table_{kind}_canonical_output_scale" if float(np.float32(so)) in (1 / 128, 1 / 256) else f"table_{kind}_other_output_scale")
            case = {"kind": kind, "cfg": cfg, "sg": sg}
            if kind == "lrelu":
                alpha = rng.choice([0.01, 0.1, 0.2, 0.3, 0.5, 0.9, 1.5, -0.5, -1.0]) if rng.random() < 0.5 else rng.uniform(-1.0, 2.0)
                cfg["alpha"] = float(np.float32(alpha))
                ascal = None
                if rng.random() < 0.2:      # LeakyRelu produced by convert_mul_max_to_abs_or_lrelu (PReLU): explicit alpha scaling
                    am, ash = rng.choice(scale_pairs)
                    ascal = (rng.randrange(-128, 128), am, ash)
                    cfg["alpha_scaling"] = list(ascal)

                def f(dt=dt, si=si, zi=zi, so=so, zo=zo, zt=zt, alpha=alpha, ascal=ascal):
                    op = stub(Op.LeakyRelu, dt, si, zi, so, zo, zt)
                    op.attrs["alpha"] = np.float32(alpha)
                    if ascal is not None:
                        op.attrs["alpha_scaling"] = (zt(ascal[0]), ascal[1], ascal[2])
                    return tgo.convert_lrelu_to_lut(op, None)
                st, op, cap, detail = run_table(f)
                if len(cap) >= 2:
                    (ids, idsh), (als, alsh) = cap[0], cap[1]
                    asc = 1
                    if ascal is not None:
                        asc, als, alsh = ascal
                    case["model_req"] = f"lut lrelu {sg} {zi} {zo} {ids} {idsh} {asc} {als} {alsh}"
                    if asc == 1:
                        case["chk_prefix"] = f"lutchk lrelu {sg} {zi} {zo} {ids} {idsh} {als} {alsh}"
                    cfg["captured"] = cap[:2]
            elif kind == "hswish":
                def f(dt=dt, si=si, zi=zi, so=so, zo=zo, zt=zt):
                    return tgo.convert_hardswish_to_lut(stub(Op.HardSwish, dt, si, zi, so, zo, zt), None, None)
                st, op, cap, detail = run_table(f)
                if len(cap) >= 2:
                    (os_, osh), (rs, rsh) = cap[0], cap[1]
                    case["model_req"] = f"lut hswish {sg} {zi} {zo} {os_} {osh} {rs} {rsh}"
                    d16 = [int(fp.downscale_multiplier_int32_to_int16(v)) if I32MIN <= v <= I32MAX else None for v in (os_, rs)]
                    if None not in d16:
                        case["chk_prefix"] = f"lutchk hswish {sg} {zi} {zo} {d16[0]} {osh} {d16[1]} {rsh}"
                    cfg["captured"] = cap[:2]
                    cfg["relu_shift"] = rsh
            elif kind in ("quant8", "quant16"):
                lo, hi = (-128, 127) if kind == "quant8" else (I16MIN, I16MAX)
                n = 48
                if plan.get("sweep"):
                    vals = list(range(lo, hi + 1))            # every code of the type
                    cfg["values"] = f"all {hi - lo + 1} codes {lo}..{hi}"
                    ck.count(f"table_{kind}_full_code_sweep")
                else:
                    vals = [lo, hi, 0, lo + 1, hi - 1] + [rng.randrange(lo, hi + 1) for _ in range(n - 5)]
                    cfg["values"] = vals
                case["vals"] = vals

                def f(dt=dt, si=si, zi=zi, so=so, zo=zo, zt=zt, vals=vals, st=sty):
                    ifm = create_const_tensor("c", [len(vals)], dt, vals, quantization=qparams(si, zi, dt, zt, st))
                    ofm = Tensor([len(vals)], dt, "out")
                    ofm.quantization = qparams(so, zo, dt, zt, st)
                    op = Operation(Op.Quantize, "q")
                    op.add_input_tensor(ifm)
                    op.set_output_tensor(ofm)
                    op.run_on_npu = True
                    r = tgo.optimise_quantize(op, None, None)
                    assert r.type == Op.Const, "optimise_quantize did not fold the constant"
                    return ofm
                st, op, cap, detail = run_table(f)
                if len(cap) >= 1:
                    m_, sh_ = cap[0]
                    case["model_req"] = f"lut quant {lo} {hi} {zi} {zo} {m_} {sh_} " + " ".join(map(str, vals))
                    case["chk_prefix"] = f"lutchk quant {lo} {hi} {zi} {zo} {m_} {sh_} " + " ".join(map(str, vals))
                    cfg["captured"] = cap[:1]
                # reference with the multiplier derived in Lean from the DOUBLE quotient of the two scale values
                (m1, e1), (m2, e2) = dbl_me(sty(si)), dbl_me(sty(so))
                case["chk2_prefix"] = f"lutchk quantf {lo} {hi} {zi} {zo} {m1} {e1} {m2} {e2} " + " ".join(map(str, vals))
            elif kind == "rsqrt":
                def f(dt=dt, si=si, zi=zi, so=so, zo=zo, zt=zt):
                    return lutmod.create_lut_rsqrt_int8_op(stub(Op.Rsqrt, dt, si, zi, so, zo, zt))
                st, op, cap, detail = run_table(f)
                if len(cap) >= 1:
                    case["model_req"] = f"lut rsqrt {zi} {zo} {cap[0][0]} {cap[0][1]}"
                    cfg["captured"] = cap[:1]
                # TFLite reference Rsqrt kernel incl. its own derivation of the multiplier from the two float32 scales
                case["chk_prefix"] = "rsqrtchk %d %d %d %d" % (zi, zo, *(struct.unpack("<I", struct.pack("<f", float(np.float32(v))))[0] for v in (si, so)))
            else:
                optype = Op.Sigmoid if kind == "sigmoid" else Op.Tanh

                def f(dt=dt, si=si, zi=zi, so=so, zo=zo, zt=zt, optype=optype):
                    return tgo.convert_tanh_sigmoid_to_lut(stub(optype, dt, si, zi, so, zo, zt), None, None)
                st, op, cap, detail = run_table(f)
                b1, b2 = dbl_bits(np.double(np.float32(si))), dbl_bits(np.double(np.float32(so)))
                case["model_req"] = f"lutf {kind} {sg} {b1} {b2} {zi} {zo}"
                case["dist_req"] = f"lutfd {kind} {sg} {b1} {b2} {zi} {zo}"
            case["status"] = st
            case["detail"] = detail
            if st == "ok":
                vals_real = (op.values if kind in ("quant8", "quant16") else op.activation_lut.values)
                case["real"] = [int(v) for v in np.asarray(vals_real).flatten()]
            tab_cases.append(case)
    scaling.quantise_scale = orig_qs
    tgo.quantise_scale = orig_qs
    lutmod.quantise_scale = orig_qs

    treqs = []
    for c in tab_cases:
        c["mi"] = len(treqs) if "model_req" in c else None
        if "model_req" in c:
            treqs.append(c["model_req"])
        c["ci"] = None
        if "chk_prefix" in c and c["status"] == "ok":
            c["ci"] = len(treqs)
            treqs.append(c["chk_prefix"] + " " + " ".join(map(str, c["real"])))
        c["c2i"] = None
        if "chk2_prefix" in c and c["status"] == "ok":
            c["c2i"] = len(treqs)
            treqs.append(c["chk2_prefix"] + " " + " ".join(map(str, c["real"])))
        c["di"] = None
        if "dist_req" in c:
            c["di"] = len(treqs)
            treqs.append(c["dist_req"])
    touts = ck.model(treqs)
    n_eval += len(treqs)
    float_diffs = {"entries": 0, "equal": 0, "off_by_one_near_tie": 0, "worse": 0}
    tab_reported = set()
    for c in tab_cases:
        kind, cfg = c["kind"], c["cfg"]
        ck.count(f"table_{kind}_{cfg['zero_point_type']}")
        ck.count(f"table_{kind}_status_{c['status']}")
        if c["mi"] is None:
            # the real function failed before it computed its multipliers
            if (kind, "early") not in tab_reported:
                tab_reported.add((kind, "early"))
                ck.violation(f"{kind} table generation failed before any multiplier was computed: {c['detail']}", {"kind": "table", **cfg, "error": c["detail"]})
            continue
        mout = touts[c["mi"]]
        model_ok = mout.startswith("ok")
        model_vals = [int(v) for v in mout.split()[1:]] if model_ok else None
        chk = touts[c["ci"]] if c["ci"] is not None else None
        if kind == "rsqrt" and chk is not None and cfg.get("captured"):
            # the multiplier the code derived from the two scales against the reference's derivation (float32 sqrt and product,
            # double reciprocal, QuantizeMultiplier): equal tables can hide a multiplier that is wrong in its low bits
            mm = re.search(r"mult (-?\d+) shift (-?\d+)", chk)
            if mm and [int(mm.group(1)), int(mm.group(2))] != list(cfg["captured"][0]) and (kind, "mult") not in tab_reported:
                tab_reported.add((kind, "mult"))
                ck.violation(f"create_lut_rsqrt_int8_op: output multiplier {cfg['captured'][0]} differs from the TFLite reference derivation "
                             f"1. / (sqrtf(input_scale) * output_scale) -> QuantizeMultiplier = ({mm.group(1)}, {mm.group(2)}); scales {cfg['ifm_scale']!r}, {cfg['ofm_scale']!r}"
                             f"{'' if chk.startswith('1 ') else '; table verdict ' + chk[:80]}",
                             {"kind": "table", **cfg, "reference_verdict": chk[:200]}, found_input=chk.startswith("0 index"))
        if kind == "rsqrt" and chk is not None:
            ck.count("table_rsqrt_zp_in_%s" % ("minus_128" if cfg["zp_in"] == -128 else "other"))
            if chk.startswith("1 "):
                chk = "1"
        if kind == "hswish":
            ck.count("hswish_relu_shift_%s" % ("lt31" if cfg["relu_shift"] < 31 else ("eq31" if cfg["relu_shift"] == 31 else "gt31")))
        if kind in ("sigmoid", "tanh"):
            if c["status"] != "ok":
                ck.violation(f"{kind} table generation raised {c['detail']}", {"kind": "table", **cfg, "error": c["detail"]})
                continue
            dists = [int(v) for v in touts[c["di"]].split()[1:]]
            for j, (a, b) in enumerate(zip(c["real"], model_vals)):
                float_diffs["entries"] += 1
                if a == b:
                    float_diffs["equal"] += 1
                elif abs(a - b) == 1 and dists[j] < (1 << 40) * 1e-9:
                    # unrounded value within 1e-9 of k + 0.5: a last-bit difference of libm / of the division can flip the rounding
                    float_diffs["off_by_one_near_tie"] += 1
                    ck.sample({"float_table_off_by_one_near_tie": cfg, "index": j, "implementation": a, "lean_float": b, "tie_distance_2^-40": dists[j]}, limit=24)
                else:
                    float_diffs["worse"] += 1
                    if (kind, "worse") not in tab_reported:
                        tab_reported.add((kind, "worse"))
                        ck.violation(f"{kind} table entry {j} is {a}, the formula round_away_zero(zp_out + f(s_in*(x-zp_in))/s_out) clamped gives {b}",
                                     {"kind": "table", **cfg, "index": j, "implementation": a, "lean_float": b})
            lo, hi = (0, 255) if c["sg"] == 0 else (-128, 127)
            if any(not (lo <= v <= hi) for v in c["real"]):
                ck.violation(f"{kind} table has an entry outside [{lo},{hi}]", {"kind": "table", **cfg, "table": c["real"]})
            continue
        # integer tables
        if c.get("c2i") is not None:
            chk2 = touts[c["c2i"]]
            verdict2 = chk2.split(" ")[0]
            ck.count(f"table_{kind}_reference_from_scales_{'ok' if verdict2 == '1' else ('na' if verdict2 == 'na' else 'reject')}")
            if verdict2 == "0" and (kind, "ref2") not in tab_reported:
                tab_reported.add((kind, "ref2"))
                nbad = None
                mref = re.search(r"index (\d+) expected (-?\d+) got (-?\d+) mult (-?\d+) shift (-?\d+)", chk2)
                det = ""
                if mref:
                    j = int(mref.group(1))
                    det = (f": constant {c['vals'][j]} folds to {mref.group(3)}, reference {mref.group(2)} (reference multiplier {mref.group(4)}, "
                           f"shift {mref.group(5)}; multiplier used by the code {cfg.get('captured')})")
                ck.violation(f"optimise_quantize: folded constant differs from the TFLite reference Requantize whose multiplier is "
                             f"QuantizeMultiplier(double(ifm_scale) / double(ofm_scale)){det}; {cfg['dtype']} scales {cfg['ifm_scale']!r} -> {cfg['ofm_scale']!r} "
                             f"passed as {cfg['scale_type']}, zero points {cfg['zp_in']} -> {cfg['zp_out']}",
                             {"kind": "table", **cfg, "reference_verdict": chk2[:300], "implementation_table": c["real"][:512]})
        same = (c["status"] == "ok" and model_ok and c["real"] == model_vals) or (c["status"] != "ok" and not model_ok and c["status"] == mout)
        if same:
            if chk is not None and chk not in ("1", "na"):
                # model and code agree, reference kernel differs: a proof obligation (model = reference) must have failed too
                if (kind, "ref") not in tab_reported:
                    tab_reported.add((kind, "ref"))
                    ck.violation(f"{kind} table differs from the Lean reference kernel ({chk}) although model and code agree",
                                 {"kind": "table", **cfg, "reference_verdict": chk, "table": c["real"][:512]})
            if chk is not None:
                ck.count(f"table_{kind}_reference_{'ok' if chk == '1' else ('na' if chk == 'na' else 'reject')}")
            continue
        # disagreement: classify
        key = None
        what = None
        replay = {"kind": "table", **cfg, "implementation_status": c["status"], "implementation_error": c["detail"],
                  "implementation_table": (c.get("real") or [])[:512], "model": mout[:1500], "reference_verdict": chk}
        if True:
            j = None
            if c["status"] == "ok" and model_ok:
                j = next((j for j, (a, b) in enumerate(zip(c["real"], model_vals)) if a != b), None)
            what = (f"{kind} table from the real generator differs from Model/Lut.lean: " +
                    (f"entry {j}: implementation {c['real'][j]}, model {model_vals[j]}" if j is not None else f"implementation {c['status']} ({c['detail']}), model {mout[:60]}") +
                    f"; config {cfg}")
        # a failing input of the code: a known defect, a crash where the reference yields a table, or a table the Lean reference rejects
        found = (key is not None) or (c["status"] != "ok" and model_ok) or (chk not in ("1", "na", None))
        if (kind, key) in tab_reported:
            continue
        tab_reported.add((kind, key))
        ck.violation(what, replay, found_input=found, key=key)

    for k, v in float_diffs.items():
        ck.count("float_tables_" + k, v)

    # ---------------- C. table generators outside the graph optimiser's integer tables (harness/c19_more.py) -----------
    more = {"softmax_exp": c19_more.softmax_exp_stream(ck, np), "lut_ops": c19_more.lut_op_streams(ck, np),
            "siblings": c19_more.sibling_stream(ck, np),
            "quantize_pipeline": c19_more.quantize_fold_pipeline_stream(ck, np)}
    n_eval += sum(m["evaluations"] for m in more.values())
    n_tab_nontrivial = len({(c["kind"], c.get("model_req")) for c in tab_cases if c.get("model_req")})
    ck.sample({"request": reqs[0], "lean(model | reference)": outs[0]})
    ck.sample({"request": reqs[len(reqs) // 2], "lean(model | reference)": outs[len(reqs) // 2]})
    for c in tab_cases[:2] + [c for c in tab_cases if c["kind"] == "sigmoid"][:1]:
        ck.sample({"table": c["cfg"], "implementation": (c.get("real") or [])[:12], "lean": touts[c["mi"]][:80] if c["mi"] is not None else None})
    reached = {k[len("model_"):] for k in ck.counters if k.startswith("model_")}
    unreached = sorted({"err:assert", "err:value", "err:overflow"} - reached)
    ck.finish({
        "evaluations": n_eval + sum(len(c.get("real") or []) for c in tab_cases),
        "distinct_nontrivial": n_fp_nontrivial + n_tab_nontrivial + sum(m["distinct"] for m in more.values()),
        "more_table_streams": more,
        "rule": "fp case = (function, operand values) evaluated by model, reference and the real function under each operand typing; "
                "non-trivial when the model accepts it and a data operand is outside {-1,0,1}; distinct by (function, values). "
                "table case = one (kind, dtype, scales, scale type, zero points, alpha, zero-point type) configuration, 256 entries (48 constants for Quantize, "
                "every code of the type for the Quantize sweep pairs); "
                "distinct by the model request (multipliers, shifts, zero points)",
        "fp_distinct_requests": len(reqs),
        "fp_disagreements": len(fp_disagree),
        "table_configs": len(tab_cases),
        "float_tables": float_diffs,
        "exhaustive": "8-bit operand pairs (int8, uint8) for the three multipliers; all 65536 int16 first operands x chosen second operands / "
                      "shifts / exponents; 32-bit boundary-biased random",
        "unreached_branches": unreached + (["Err.overflow in downscale_multiplier_int32_to_int16 is proved unreachable (downscale_ok)"] if "err:overflow" in unreached else []),
        "trusted_base_extra": ["Lean `Float` = host IEEE-754 double; Float.exp/Float.tanh = the libm Python's math module uses (sigmoid/tanh tables are validated, not proved)",
                               "gemmlowp/TFLite reference kernels transcribed from memory into Spec/Gemmlowp.lean (sources not available offline)",
                               "(multiplier, shift) pairs are captured from the real scaling.quantise_scale (property C09 covers their correctness)",
                               "Lean Float/Float32 arithmetic in the handlers: the double product beta*scale of the softmax model (the reference recomputes it exactly), "
                               "the float32 sqrt/product of the RSQRT and int16-SOFTMAX multiplier references, the lut.py float tables (Handlers/LutFloat.lean, series erf)",
                               "TFLite PreprocessSoftmaxScaling / CalculateInputRadius / GetInvSqrtQuantizedMultiplierExp / RsqrtEvalQuantized / gen_lut transcribed from memory "
                               "(the inverse-sqrt transcription reproduces all 255 RSQRT_LUT constants, gen_lut all 1024 words of the int16 SOFTMAX tables)",
                               "harness/netgen.py serialiser and harness/fbwalk.py reader for the pipeline-level Quantize folding stream"],
    }, assumptions=[
        "Python `//` by a positive int is floor division; `>>` on Python/NumPy signed ints is arithmetic; `&` with a non-negative mask is mod 2^n",
        "an exception raised on an `assert` line of fp_math.py (AssertionError, or OverflowError from np.intN(python_int)) is the function rejecting its operand",
        "operand types per call site (CALLSITE table in this script) were read off the Vela source by hand",
    ])


main_wrapper(main)
