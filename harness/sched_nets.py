"""Cascade-heavy networks and configurations for the scheduler-bookkeeping stage (harness/sched_lib.py, design.d/SchedMem.md).

Every family is built so that the feature maps in the middle of the network are much larger than its input and output, and
every configuration so that the maximum schedule does not fit the SRAM target: the scheduler then has to build cascades for
the minimal schedule and to run `optimize_sub_schedule` (several calls of `CascadeBuilder.build_cascades` on one builder with
ever taller stripes), to decide what stays in fast storage, and — with Dedicated_Sram — to keep everything it places in the
SRAM cache below the configured arena cache size."""
import os

import common
import netgen

FAMILIES = ["chain", "chain", "residual", "strided", "branch", "lutchain", "chain16", "upscale", "wide_ew", "multi_out"]


def build(rng, idx, family=None):
    family = family or FAMILIES[idx % len(FAMILIES)]
    dtype = "int16" if family == "chain16" else rng.choice(["int8", "int8", "int8", "uint8"])
    b = netgen.B(rng, f"sched{idx}_{family}", dtype)
    h = rng.choice([32, 33, 37, 40, 48, 56, 64, 64, 80, 96])
    w = rng.choice([16, 24, 32, 48, 64])
    c0 = rng.choice([4, 8, 8, 16])
    mid = rng.choice([16, 24, 32, 32, 48])
    x = b.input([1, h, w, c0])
    b.net.desc.append(f"sched family={family} in={[1, h, w, c0]} mid={mid}")

    def step(cur, kinds):
        kd = rng.choice(kinds)
        k = rng.choice([1, 3, 3, 5])
        if kd == "conv":
            return b.conv(cur, mid, (k, k), (1, 1), (1, 1), rng.choice(["SAME", "SAME", "VALID"]), act=rng.choice([0, 1, 3]))
        if kd == "dw":
            return b.dwconv(cur, (k, k), (1, 1), (1, 1), "SAME")
        if kd == "pool":
            return b.pool(cur, rng.choice(["MAX_POOL_2D", "AVERAGE_POOL_2D"]), (max(k, 2), max(k, 2)), (1, 1), "SAME")
        if kd == "lut":
            return b.unary(rng.choice(["TANH", "LOGISTIC", "LEAKY_RELU"]), cur)
        if kd == "s2":
            return b.conv(cur, mid, rng.choice([(1, 1), (3, 3), (2, 2)]), (2, 2), (1, 1), rng.choice(["SAME", "VALID"]))
        if kd == "s3":
            return b.conv(cur, mid, (3, 3), (3, 3), (1, 1), "SAME")
        if kd == "dil":
            return b.conv(cur, mid, (3, 3), (1, 1), (2, 2), "SAME")
        if kd == "ewc":
            ct = b.t(cur)
            cst = b.const([1, 1, 1, ct.shape[3]], ct.dtype, [rng.randint(-20, 20) if ct.dtype != "uint8" else rng.randint(0, 40)
                                                             for _ in range(ct.shape[3])], [b.q_scale()], [0 if ct.dtype != "uint8" else 3])
            return b.binary(rng.choice(["ADD", "MUL"]), cur, cst)
        raise ValueError(kd)

    cur = b.conv(x, mid, (3, 3), (1, 1), (1, 1), "SAME", act=rng.choice([0, 1]))
    if family in ("chain", "chain16"):
        for _ in range(rng.randint(1, 4)):
            cur = step(cur, ["conv", "conv", "dw", "pool", "conv", "dil", "ewc"]) or cur
    elif family == "lutchain":
        for _ in range(rng.randint(2, 4)):
            cur = step(cur, ["lut", "conv", "dw", "lut", "ewc"]) or cur
    elif family == "strided":
        for _ in range(rng.randint(1, 3)):
            cur = step(cur, ["s2", "s2", "s3", "conv", "pool"]) or cur
    elif family == "residual":
        for _ in range(rng.randint(1, 2)):
            skip = cur
            y = cur
            for _ in range(rng.randint(2, 3)):
                y = b.conv(y, mid, rng.choice([(1, 1), (3, 3)]), (1, 1), (1, 1), "SAME", act=rng.choice([0, 1]))
            cur = b.binary("ADD", y, skip, act=rng.choice([0, 1]))
    elif family == "branch":
        a = b.conv(cur, mid, (3, 3), (1, 1), (1, 1), "SAME")
        l = a
        for _ in range(rng.randint(1, 2)):
            l = step(l, ["conv", "dw", "pool"]) or l
        r = a
        for _ in range(rng.randint(1, 2)):
            r = b.conv(r, mid, (3, 3), (1, 1), (1, 1), "SAME")
        if b.t(l).shape == b.t(r).shape:
            cur = b.binary(rng.choice(["ADD", "MUL"]), l, r)
        else:
            cur = r
    elif family == "upscale":
        cur = step(cur, ["conv", "dw"]) or cur
        up = b.resize(cur, 2, rng.choice(["RESIZE_NEAREST_NEIGHBOR", "RESIZE_BILINEAR"]), half=False)
        cur = up if up is not None else cur
        cur = step(cur, ["conv", "pool"]) or cur
        cur = step(cur, ["s2"]) or cur
    elif family == "wide_ew":
        # two large feature maps meet in an elementwise operator in the middle of a chain
        l = step(cur, ["conv", "dw"]) or cur
        r = b.conv(cur, b.t(l).shape[3], (1, 1), (1, 1), (1, 1), "SAME")
        cur = b.binary("ADD", l, r) if b.t(l).shape == b.t(r).shape else l
        cur = step(cur, ["conv", "lut"]) or cur
    outs = []
    if family == "multi_out":
        # intermediate results that are read by the next NPU operator AND leave the subgraph (network outputs / a CPU consumer)
        for _ in range(rng.randint(2, 3)):
            cur = step(cur, ["conv", "conv", "dw", "pool"]) or cur
            if rng.random() < 0.7:
                outs.append(cur)
            if rng.random() < 0.3:
                outs.append(b.cpu_op(cur, "custom"))
    cur = b.conv(cur, c0, rng.choice([(3, 3), (1, 1)]), (1, 1), (1, 1), "SAME") or cur
    net = b.finish([o for o in outs if o is not None and o != cur] + [cur])
    net.sched_max_fm = max(int(_bytes(t)) for t in net.tensors if t.data is None)
    return net


def _bytes(t):
    n = 1
    for d in t.shape:
        n *= d
    return n * {"int8": 1, "uint8": 1, "int16": 2, "int32": 4, "int64": 8}.get(t.dtype, 4)


def config(rng, net):
    """CLI options: the SRAM target is drawn relative to the largest feature map of the network."""
    big = net.sched_max_fm
    ini = os.path.join(common.REPO, "ethosu", "config_files", "Arm", "vela.ini")
    kind = rng.choice(["size", "perf_cache", "perf_cache", "dedicated", "dedicated", "dedicated_size"])
    alloc = ["--tensor-allocator", rng.choice(["HillClimb", "HillClimb", "Greedy", "LinearAlloc"])]
    if kind == "size":
        return ["--accelerator-config", rng.choice(["ethos-u55-32", "ethos-u55-64", "ethos-u55-128", "ethos-u55-256", "ethos-u65-256"]),
                "--optimise", "Size"] + alloc
    frac = rng.choice([0.12, 0.2, 0.3, 0.45, 0.6, 0.8, 1.0, 1.3, 1.7, 2.2, 3.0])
    q = rng.choice([1, 16, 1024])
    cache = max(1024, int(big * frac) // q * q)
    if kind == "perf_cache":
        acc = rng.choice(["ethos-u55-64", "ethos-u55-128", "ethos-u55-256", "ethos-u65-256"])
        opts = ["--accelerator-config", acc]
        if rng.random() < 0.4:
            sysc = rng.choice(["Ethos_U65_High_End", "Ethos_U65_Embedded"]) if "u65" in acc else \
                rng.choice(["Ethos_U55_High_End_Embedded", "Ethos_U55_Deep_Embedded"])
            opts += ["--config", ini, "--system-config", sysc, "--memory-mode", rng.choice(["Sram_Only", "Shared_Sram"])]
        return opts + ["--optimise", "Performance", "--arena-cache-size", str(cache)] + alloc
    acc = rng.choice(["ethos-u65-256", "ethos-u65-512"])
    return ["--accelerator-config", acc, "--config", ini, "--system-config", rng.choice(["Ethos_U65_High_End", "Ethos_U65_Mid_End"]),
            "--memory-mode", "Dedicated_Sram", "--optimise", "Size" if kind == "dedicated_size" else "Performance",
            "--arena-cache-size", str(cache)] + alloc
