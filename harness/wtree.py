"""Table trees and graph descriptions for the TFLite writer / reader models (text form: lean/VelaVerif/Model/TfliteText.lean).

* `walk(data)`      the table tree of a .tflite file: plain `struct` walk (fbwalk.Table, no Vela code), field presence kept
* `describe(nng)`   the graph description the writer model takes: read off the graph objects (never mutates them)
* `describe_read(graph)`  what the real reader built (TFLiteGraph) as a description, for the reader model
* `text(sx)`        nested Python lists -> protocol text

Python only transcribes (names / byte strings as hex, float32 as bit patterns, data as raw hex or length + digest); every
comparison is made in Lean.
"""
import hashlib
import struct

import fbwalk

RAW_LIMIT = 32          # constant data up to this many bytes is passed raw, longer data as length + SHA-1 prefix


class Undescribable(Exception):
    """the graph holds a value outside the description's domain (a None dimension, a non-integral zero point, ...)"""


# ------------------------------------------------------------------------------------------------
# text


def text(sx):
    out = []

    def go(x):
        if isinstance(x, (list, tuple)):
            out.append("(")
            for y in x:
                go(y)
            out.append(")")
        else:
            out.append(str(x))

    go(sx)
    return " ".join(out)


def xb(b):
    return "x" + bytes(b).hex()


def data_atom(b, raw=False):
    if b is None:
        return "-"
    b = bytes(b)
    if raw or len(b) <= RAW_LIMIT:
        return "r" + b.hex()
    return f"d{len(b)}.{hashlib.sha1(b).hexdigest()[:16]}"


def opt(v, f=lambda x: x):
    return "-" if v is None else f(v)


def f32bits(x):
    return struct.unpack("<I", struct.pack("<f", x))[0]


# ------------------------------------------------------------------------------------------------
# the file


def _extra(t, known):
    n = (t.vt_len - 4) // 2
    return [s for s in range(n) if s not in known and t._off(s)]


def _opt_text(otype, t):
    """canonical text of an option table: `~<slot>.<hex>` per present field (vectors / strings dereferenced), as in
    preserve_dump.raw_ops"""
    import preserve_dump

    schema = preserve_dump.option_schema()
    nslots = (t.vt_len - 4) // 2
    offs = sorted((t._off(s), s) for s in range(nslots) if t._off(s))
    table_size = struct.unpack_from("<H", t.buf, t.vt + 2)[0]
    ind = preserve_dump.OPTION_INDIRECT.get(otype, {})
    fields = []
    for i, (off, s) in enumerate(offs):
        if s in ind:
            if ind[s] == "s":
                val = (t.string(s) or "").encode()
            else:
                p = t._indirect(s)
                n = struct.unpack_from("<I", t.buf, p)[0]
                val = bytes(t.buf[p + 4:p + 4 + 4 * n])
            fields.append((s, "v" + val.hex()))
        else:
            width = schema.get(otype, {}).get(s)
            if width is None:
                end = offs[i + 1][0] if i + 1 < len(offs) else table_size
                fields.append((s, "u" + bytes(t.buf[t.pos + off:t.pos + end]).rstrip(b"\x00").hex()))
            else:
                fields.append((s, bytes(t.buf[t.pos + off:t.pos + off + width]).hex()))
    fields.sort()
    return "s" + "".join(f"~{s}.{v}" for s, v in fields)


def _bytes_str(t, slot):
    p = t._indirect(slot)
    if p is None:
        return None
    n = struct.unpack_from("<I", t.buf, p)[0]
    return bytes(t.buf[p + 4:p + 4 + n])


def walk_operator(o):
    otype = o.scalar(3, "B")
    ot = o.table(4)
    co = o.bytes_vec(5)
    return ["op", o.scalar(0, "I"), opt(o.vector(1, "i"), list), opt(o.vector(2, "i"), list), otype,
            "-" if ot is None else _opt_text(otype, ot), "-" if co is None else "s" + co.hex(), o.scalar(6, "b"),
            opt(o.vector(7, "B"), list), opt(o.vector(8, "i"), list), _extra(o, range(9))]


def walk(data):
    buf = memoryview(bytes(data))
    root = fbwalk.Table(buf, struct.unpack_from("<I", buf, 0)[0])
    fid = bytes(buf[4:8]).decode("latin-1")
    meta_bufs = set()
    metas = []
    for m in root.tables(6):
        b = m.scalar(1, "I")
        meta_bufs.add(b)
        metas.append(["m", opt(_bytes_str(m, 0), xb), b, _extra(m, range(2))])
    codes = []
    for oc in root.tables(1):
        codes.append(["oc", oc.scalar(0, "b"), opt(_bytes_str(oc, 1), xb), oc.scalar(2, "i", 1), oc.scalar(3, "i"), _extra(oc, range(4))])
    bufs = []
    for i, b in enumerate(root.tables(4)):
        bufs.append(["b", data_atom(b.bytes_vec(0), raw=i in meta_bufs), _extra(b, range(1))])
    sgs = []
    for sg in root.tables(2):
        tensors = []
        for t in sg.tables(0):
            q = t.table(4)
            qx = "-"
            if q is not None:
                qx = ["q", opt(q.vector(0, "I"), list), opt(q.vector(1, "I"), list), opt(q.vector(2, "I"), list), opt(q.vector(3, "q"), list),
                      q.scalar(6, "i"), _extra(q, (0, 1, 2, 3, 6))]
            tensors.append(["t", opt(t.vector(0, "i"), list), t.scalar(1, "b"), t.scalar(2, "I"), opt(_bytes_str(t, 3), xb), qx,
                            1 if t.scalar(5, "B") else 0, _extra(t, range(6))])
        ops = [walk_operator(o) for o in sg.tables(3)]
        sgs.append(["sg", tensors, opt(sg.vector(1, "i"), list), opt(sg.vector(2, "i"), list), ops, opt(_bytes_str(sg, 4), xb),
                    _extra(sg, range(5))])
    return ["model", "s" + fid, root.scalar(0, "I"), codes, sgs, opt(_bytes_str(root, 3), xb), bufs, metas, _extra(root, (0, 1, 2, 3, 4, 6))]


# ------------------------------------------------------------------------------------------------
# the graph


def _vec(v):
    """tflite_writer.make_vector"""
    try:
        len(v)
        return list(v)
    except TypeError:
        return [v]


def _floats(v):
    if v is None:
        return "-"
    try:
        return [f32bits(e) for e in _vec(v)]
    except (OverflowError, struct.error, TypeError) as e:
        raise Undescribable(f"float vector {v!r}: {e}")


def _ints(v):
    import numpy as np

    if v is None:
        return "-"
    out = []
    for e in _vec(v):
        if isinstance(e, (bool, np.bool_)) or not isinstance(e, (int, np.integer)):
            raise Undescribable(f"zero point {e!r} is not an integer")
        out.append(int(e))
    return out


def _dims(shape):
    import numpy as np

    if shape is None:
        raise Undescribable("shape None")
    out = []
    for d in shape:
        if d is None or isinstance(d, (bool, np.bool_)) or not isinstance(d, (int, np.integer)):
            raise Undescribable(f"dimension {d!r}")
        out.append(int(d))
    return out


def _values(tens):
    import numpy as np

    v = tens.values
    if v is None:
        return "-"
    if not isinstance(v, np.ndarray):
        raise Undescribable(f"values of type {type(v).__name__}")
    return data_atom(np.ascontiguousarray(v).flatten().view(np.uint8).tobytes())


class Ids:
    """tensor objects -> positions in the description (object identity)"""

    def __init__(self):
        self.ids, self.tensors = {}, []

    def of(self, tens):
        if tens is None:
            return "-"
        k = self.ids.get(id(tens))
        if k is None:
            k = len(self.tensors)
            self.ids[id(tens)] = k
            self.tensors.append(tens)
        return k


def tensor_desc(tens, ids):
    q = tens.quantization
    qx, rg = "-", "-"
    if q is not None:
        qd = q.quant_dim
        qx = ["qd", _floats(q.min), _floats(q.max), _floats(q.scale_f32), _ints(q.zero_point), "-" if qd is None else int(qd)]
        if q.quant_min is not None and q.quant_max is not None:
            rg = [int(q.quant_min), int(q.quant_max)]
    addr = tens.address
    return ["td", xb(tens.name.encode()), _dims(tens.shape), _dims(tens.original_shape), "s" + str(tens.dtype), qx, _values(tens),
            1 if tens.is_variable else 0, int(tens.purpose), int(tens.mem_area), int(tens.mem_type), "-" if addr is None else int(addr),
            ids.of(tens.src_tensor), rg]


def op_payload(op):
    """what the real `serialise_operator` writes as option payload for this operator, taken in isolation: a scratch
    serialiser object with an empty tensor map and a one-entry operator code map; the resulting Operator table is walked"""
    import flatbuffers
    from ethosu.vela import tflite_writer as tw
    from ethosu.vela.operation import Op
    from ethosu.vela.tflite_mapping import builtin_operator_inv_map

    inv = builtin_operator_inv_map.get(op.type)
    if inv is None:
        return [0, "-", "-", 0]
    tf_code, ser, _ = inv
    s = tw.TFLiteSerialiser.__new__(tw.TFLiteSerialiser)
    s.builder = flatbuffers.Builder(0)
    s.tensor_map_sg = {}
    if op.type == Op.Custom:
        s.operator_code_map = {op.type: {(op.attrs.get("custom_code", ""), op.version): (0, tf_code, ser)}}
    else:
        s.operator_code_map = {(op.type, op.version): (0, tf_code, ser)}
    import contextlib
    import io

    with contextlib.redirect_stdout(io.StringIO()):
        off = s.serialise_operator(op)
    s.builder.Finish(off)
    buf = memoryview(bytes(s.builder.Output()))
    w = walk_operator(fbwalk.Table(buf, struct.unpack_from("<I", buf, 0)[0]))
    return [w[4], w[5], w[6], w[7]]


def describe(nng, payloads=True, ids=None):
    from ethosu.vela import tflite_writer as tw
    from ethosu.vela.nn_graph import PassPlacement

    ids = ids or Ids()
    sgs = []
    for sg in nng.subgraphs:
        if sg.placement != PassPlacement.Cpu:
            sgs.append(["sd", xb(sg.name.encode()), 0, [], [], [], [], "-", []])
            continue
        ops = [op for ps in sg.passes for op in ps.ops]
        pos = {id(op): k for k, op in reversed(list(enumerate(ops)))}
        ods = []
        for op in ops:
            cc = op.attrs.get("custom_code", "")
            if not isinstance(cc, str):
                raise Undescribable(f"custom_code {cc!r}")
            ods.append(["od", "s" + op.type.name, xb(cc.encode()), int(op.version), [ids.of(t) for t in op.inputs],
                        [ids.of(t) for t in op.outputs], [ids.of(t) for t in op.intermediates]] + (op_payload(op) if payloads else [0, "-", "-", 0]))
        vo = []
        for t in sg.virtual_outputs:
            prod = t.ops[0] if t.ops else None
            vo.append([ids.of(t), pos.get(id(prod), "-") if prod is not None else "-"])
        positions = sg.original_output_positions
        sgs.append(["sd", xb(sg.name.encode()), 1, ods, [ids.of(t) for t in sg.original_inputs], [ids.of(t) for t in sg.input_tensors],
                    [ids.of(t) for t in sg.output_tensors], "-" if positions is None else [int(p) for p in positions], vo])
    tds = []
    k = 0
    while k < len(ids.tensors):          # describing a tensor may discover its src_tensor
        tds.append(tensor_desc(ids.tensors[k], ids))
        k += 1
    mds = []
    for name, buf in nng.metadata:
        if isinstance(name, bytes):
            nm, isb = name, 1
        elif isinstance(name, str):
            nm, isb = name.encode(), 0
        else:
            raise Undescribable(f"metadata name {name!r}")
        if buf is None:
            d = "-"
        elif isinstance(buf, str):
            d = data_atom(buf.encode(), raw=True)
        else:
            d = data_atom(bytes(buf), raw=True)
        mds.append(["md", isb, xb(nm), d])
    return ["desc", tds, sgs, mds, xb(str(tw.__version__).encode())]
