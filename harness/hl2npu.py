"""Scheduled operation -> NpuOperation (high_level_command_to_npu_op.py): capture and protocol writer.

`install()` wraps `high_level_command_to_npu_op.convert_command_to_npu_op` (harness side only, no /repo hook): before the
real function runs, the command is described from the real objects (`cmd`, `cmd.ps`, `cmd.ps.primary_op`, tensors, `arch`)
— read-only, and *before* the function mutates `cmd` / `ps.ifm_shapes` in the IFM/IFM2 swap.  `lines(art, recs)` then
pairs every captured descriptor with the NpuOperation the real code built from it (canonical text of the C06 serialiser
+ the float fields that text does not carry) and with the source-level facts the Lean Spec predicates judge the real
operation against (`Spec/NpuOpBuild.lean`): operands A / B of a binary elementwise operator, encoded ranges and
allocations of weight / scale tensors and buffers, DMA destination, fused RELU-family activation with the OFM tensor's
quantisation.  Everything is plain text; every verdict is computed by `Handlers/NpuOpBuild.lean`.
"""
import struct
import traceback

import numpy as np

CAPTURE = {}      # id(npu_op) -> (descriptor tokens | None, skip reason | None, npu_op)  (the op is kept alive: ids stay unique)


class Skip(Exception):
    """the command is outside the model's vocabulary (named reason, counted in the evidence)"""


def install():
    from ethosu.vela import high_level_command_to_npu_op as hl

    if getattr(hl.convert_command_to_npu_op, "_hl2npu", False):
        return
    orig = hl.convert_command_to_npu_op

    def wrapped(cmd, arch):
        desc, skip = None, None
        try:
            desc = describe(cmd, arch)
        except Skip as e:
            skip = str(e)
        except Exception:  # noqa: B902  a descriptor that cannot be written is reported, never silently dropped
            skip = "harness:" + traceback.format_exc()[-600:]
        op = orig(cmd, arch)
        if desc is not None:
            try:
                desc = desc + post_tokens(cmd)
            except Exception:  # noqa: B902
                desc, skip = None, "harness:" + traceback.format_exc()[-600:]
        CAPTURE[id(op)] = (desc, skip, op)
        return op

    wrapped._hl2npu = True
    wrapped._orig = orig
    hl.convert_command_to_npu_op = wrapped


def clear():
    CAPTURE.clear()


def post_tokens(cmd):
    """after the conversion: allocations of the tensors behind the feature maps, in the roles the operation gives them"""
    from ethosu.vela.high_level_command_stream import NpuStripe

    if not isinstance(cmd, NpuStripe):
        return []

    def al(t):
        return "n" if t is None or t.address is None else f"{int(t.address)},{int(t.storage_size())}"

    return ["ifmalloc=" + al(cmd.ifm_tensor), "ifm2alloc=" + al(cmd.ifm2_tensor), "ofmalloc=" + al(cmd.ofm_tensor)]


# ------------------------------------------------------------------------------------------------
# encoders


def fl(x):
    """<binary64 bits>:<kind>; kind 0 Python float/int, 1 numpy.float32, 2 numpy.float64"""
    if x is None:
        return "n"
    if isinstance(x, np.ndarray):
        if x.size != 1:
            raise Skip("per-axis-scale")
        x = x.reshape(-1)[0]
    kind = 1 if isinstance(x, np.float32) else 2 if isinstance(x, np.floating) else 0
    if isinstance(x, (np.integer,)):
        kind = 2
    v = float(x)
    if v != v or v in (float("inf"), float("-inf")):
        raise Skip("non-finite-float")
    return f"{struct.unpack('<Q', struct.pack('<d', v))[0]}:{kind}"


def fbits(x):
    return "n" if x is None else fl(x).split(":")[0]


def zp_int(z):
    if isinstance(z, np.ndarray):
        if z.size != 1:
            raise Skip("per-axis-zero-point")
        z = z.reshape(-1)[0]
    return int(z)


def zp_kind(z):
    """0 Python int, 1 NumPy integer of at most 16 bits, 2 wider NumPy integer (float32 * int32/int64 is a float64)"""
    if isinstance(z, np.ndarray):
        z = z.reshape(-1)[0]
    if isinstance(z, np.integer):
        return 1 if z.dtype.itemsize <= 2 else 2
    if isinstance(z, (bool, int)):
        return 0
    raise Skip("zero-point-" + type(z).__name__)


def quant(q):
    if q is None:
        return "n"
    s = "n:0" if q.scale_f32 is None else fl(q.scale_f32)
    return f"{s}:{zp_int(q.zero_point)}:{zp_kind(q.zero_point)}"


def optok(t):
    return "n" if t is None else f"{t.name}@{t.npu_block_type.value}"


def ints(l):
    return ",".join(str(int(x)) for x in l)


def coords(c):
    return ints(c.as_list() if hasattr(c, "as_list") else list(c))


def box(b):
    return "n" if b is None else ints(b.start_coord) + ";" + ints(b.end_coord)


def secs(ranges):
    return "+".join(f"{int(k.core)}:{int(k.depth)}:{int(r.offset)}:{int(r.scale_bytes)}:{int(r.weight_offset)}:{int(r.weight_bytes)}"
                    for k, r in ranges.items()) or "-"


def tens_T(t):
    import ta_lib

    V = ta_lib._vela()
    if t.address is None:
        raise Skip("tensor-without-address")
    if len(t.shape) > 4 or len(t.storage_shape) > 4:
        raise Skip("rank>4")
    return ta_lib.enc_tensor(V, t).replace(" ", ",")


def tensd(t):
    if t is None:
        return "n"
    scalar = "n"
    if t.shape == [] and t.values is not None:
        try:
            scalar = fl(t.get_scalar())
        except AssertionError:
            scalar = "n"
    prod = "E" if not t.ops else ("n" if t.ops[0] is None else optok(t.ops[0].original_type))
    return "/".join([tens_T(t), str(t.dtype), str(int(t.mem_type.value)), quant(t.quantization), scalar, prod])


def region_of(mem_type, arch):
    import pipeline

    r = pipeline.region_of(mem_type, arch)
    return -1 if r is None else r


def alloc(t, arch, region=None):
    return f"{region_of(t.mem_type, arch) if region is None else region},{int(t.address)},{int(t.storage_size())}"


def arch_tok(arch):
    return ints([arch.ncores, 1 if arch.is_spilling_enabled() else 0, arch.max_address_offset, arch.arena_cache_size,
                 arch.shram_size_bytes, arch.shram_lut_address, arch.shram_lut_size])


# ------------------------------------------------------------------------------------------------
# descriptor of one command (before conversion)


def describe(cmd, arch):
    from ethosu.vela.high_level_command_stream import DMA, NpuStripe
    from ethosu.vela.operation import Op
    from ethosu.vela.tensor import TensorPurpose
    from ethosu.vela.api import NpuBlockTraversal

    toks = ["arch=" + arch_tok(arch)]
    if isinstance(cmd, DMA):
        def dt(t):
            p = {TensorPurpose.Weights: "W", TensorPurpose.LUT: "L", TensorPurpose.FeatureMap: "F"}.get(t.purpose, "O")
            ranges = secs(t.encoded_ranges) if hasattr(t, "encoded_ranges") else "-"
            if t.address is None:
                raise Skip("tensor-without-address")
            if p == "W":
                # the model never calls address_for_coordinate on a weight tensor: a placeholder stands for the tensor
                T = f"T,0,0,1,1,1,1,0,1,16,1,1,0,{int(t.address)}"
            else:
                T = tens_T(t)
            return "/".join([str(int(t.mem_type.value)), p, str(int(t.address)), ranges, T])

        toks += ["cmd=D", "src=" + dt(cmd.in_tensor), "dst=" + dt(cmd.out_tensor), "box=" + box(cmd.box)]
        # Spec facts
        is_lut = cmd.out_tensor.purpose == TensorPurpose.LUT
        toks += ["dstlut=%d" % is_lut, "dstalloc=" + alloc(cmd.out_tensor, arch, 0x103 if is_lut else None)]
        if cmd.in_tensor.purpose == TensorPurpose.Weights:
            toks += ["wsrc=" + alloc(cmd.in_tensor, arch), "wsecs=" + secs(cmd.in_tensor.encoded_ranges),
                     "wd=%d" % int(cmd.box.start_coord[-1])]
        return toks
    if not isinstance(cmd, NpuStripe):
        raise Skip("command-" + type(cmd).__name__)
    ps = cmd.ps
    op = ps.primary_op
    k = op.kernel
    pad = op.attrs.get("padding", None)
    xp = op.attrs.get("explicit_padding", None)
    if xp is not None and not isinstance(xp, tuple):
        xp = tuple(xp)
    toks.append("cmd=S")
    toks.append("op=" + ",".join([
        optok(op.type), optok(op.original_type), str(op.ifm.dtype) if op.ifm is not None else "none",
        "n" if op.bias is None else str(op.bias.dtype), "1" if op.memory_function == Op.ConcatSliceWrite else "0",
        str(int(k.width)), str(int(k.height)), str(int(k.stride.x)), str(int(k.stride.y)), str(int(k.dilation.x)), str(int(k.dilation.y)),
        "n" if op.rounding_mode is None else op.rounding_mode.name, "n" if pad is None else pad.name,
        str(int(op.ifm_resampling_mode.value))]))
    toks.append("xpad=" + ("n" if xp is None else ints(xp)))
    alpha = op.attrs.get("alpha", None)
    toks.append("alpha=" + fl(alpha))
    ro, rs = op.read_offsets[0], op.read_shapes[0]
    toks.append("roff=" + ("n" if ro is None else coords(ro)))
    toks.append("rshape=" + ("n" if rs is None else coords(rs)))
    toks.append("fiq=" + quant(op.forced_input_quantization))
    toks.append("foq=" + quant(op.forced_output_quantization))
    toks.append("ooq=" + quant(op.ofm.quantization if op.ofm is not None else None))
    a = op.activation
    toks.append("act=" + ("n" if a is None else "/".join([a.op_type.name, fl(a.min), fl(a.max), str(int(a.lut_index))])))
    e = op.explicit_scaling
    toks.append("expl=" + ("n" if e is None else "/".join(["1" if e.per_channel else "0", ints(e.multiplier), ints(e.shift)])))
    toks.append("to0=" + ints(op.tile_base_offsets_ifm[0]))
    toks.append("to1=" + ints(op.tile_base_offsets_ifm[1]))
    toks.append("too=" + ints(op.tile_base_offsets_ofm))
    toks.append("mult=" + (ints(op.ofm_stride_multiplier) if op.ofm_stride_multiplier else "n"))
    toks.append("psops=" + ",".join(optok(o.type) + "/" + optok(o.original_type) for o in ps.ops))
    toks.append("shp=" + ";".join([coords(ps.ifm_shapes[0]), coords(ps.ifm_shapes[1]) if len(ps.ifm_shapes) > 1 else "n",
                                   coords(ps.ofm_shapes[0])]))
    toks.append("bc=" + ints(ps.block_config))
    toks.append("st=" + ints([cmd.is_first_h_stripe, cmd.is_last_h_stripe, cmd.pad_top, cmd.pad_bottom, cmd.reversed_operands]))
    toks.append("ifm=" + tensd(cmd.ifm_tensor))
    toks.append("ifmbox=" + box(cmd.ifm_box))
    toks.append("ifm2=" + tensd(cmd.ifm2_tensor))
    toks.append("ifm2box=" + box(cmd.ifm2_box))
    toks.append("ofm=" + tensd(cmd.ofm_tensor))
    toks.append("ofmbox=" + box(cmd.ofm_box))
    wt = cmd.weight_tensor
    if wt is None:
        toks += ["w=n", "wd=n"]
    else:
        src = wt.src_tensor if wt.src_tensor else wt
        if wt.address is None:
            raise Skip("tensor-without-address")
        toks.append("w=" + "/".join([str(int(wt.mem_type.value)), str(int(wt.address)), "1" if wt.src_tensor else "0",
                                     "1" if src.hw_traversal == NpuBlockTraversal.PART_KERNEL_FIRST else "0", secs(src.encoded_ranges)]))
        toks.append("wd=" + ("n" if cmd.weight_box is None else str(int(cmd.weight_box.start_coord[-1]))))
        # Spec facts: the encoded tensor in memory, the buffer the operation reads instead, a stand-alone scale tensor
        toks.append("wsrc=" + alloc(src, arch))
        toks.append("wsecs=" + secs(src.encoded_ranges))
        toks.append("wbuf=" + (alloc(wt, arch) if wt.src_tensor else "n"))
    st = cmd.scale_tensor
    if st is None:
        toks.append("sc=n")
        if wt is not None:
            toks.append("ssrc=n")
    else:
        toks.append("sc=" + "/".join([str(int(st.mem_type.value)), str(int(st.address)), "0" if st.src_tensor is None else "1",
                                      secs(st.encoded_ranges)]))
        toks.append("ssrc=" + alloc(st, arch) + "/" + secs(st.encoded_ranges))
    # Spec facts: operands of a binary elementwise operator, in the operator's own order
    if op.type.is_binary_elementwise_op():
        ta, tb = op.ifm, op.ifm2
        for key, t, shp in (("opa", ta, op.ifm_shapes[0] if len(op.ifm_shapes) > 0 else None),
                            ("opb", tb, op.ifm_shapes[1] if len(op.ifm_shapes) > 1 else None)):
            if t is None:
                raise Skip("binary-elementwise-without-second-input")
            q = op.forced_input_quantization if op.forced_input_quantization is not None else t.quantization
            scalar = t.shape == []
            if not scalar and shp is None:
                raise Skip("operand-without-operator-shape")
            dims = ["n", "0", "0"] if scalar else [str(int(shp.height)), str(int(shp.width)), str(int(shp.depth))]
            sval = "n"
            if scalar and t.values is not None:
                sval = fbits(t.get_scalar())
            toks.append(key + "=" + ",".join([
                str(region_of(t.mem_type, arch)), str(int(t.address)), str(int(t.address) + int(t.storage_size())),
                str(int(t.dtype.size_in_bits())), "1" if signed(t.dtype) else "0",
                "0" if q is None else "1", "n" if q is None or q.scale_f32 is None else fbits(q.scale_f32),
                "0" if q is None else str(zp_int(q.zero_point))] + dims + [sval]))
    # Spec facts: fused RELU-family activation, in the quantisation of the OFM tensor
    if a is not None and a.op_type.is_relu_op():
        t = cmd.ofm_tensor
        q = op.forced_output_quantization if op.forced_output_quantization is not None else t.quantization
        toks.append("clamp=" + "/".join([fl(a.min), fl(a.max), "n" if q is None or q.scale_f32 is None else fbits(q.scale_f32),
                                         "0" if q is None else str(zp_int(q.zero_point)), str(int(t.dtype.size_in_bits())),
                                         "1" if signed(t.dtype) else "0"]))
    else:
        toks.append("clamp=n")
    return toks


def signed(dt):
    from ethosu.vela.data_type import BaseType

    return bool(dt.type & BaseType.Signed)


# ------------------------------------------------------------------------------------------------
# the real operation


def real_extras(op):
    from ethosu.vela import api as a
    from ethosu.vela.operation import ExplicitScaling

    if isinstance(op, a.NpuDmaOperation):
        return "n/n/n/n/n/n/n"

    def sc(fm):
        return "n" if fm is None or fm.quantization is None else fl(fm.quantization.scale_f32)

    act = op.activation
    rescale = getattr(op, "rescale", None)
    if rescale is None:
        rs = "n"
    elif type(rescale) is ExplicitScaling:
        rs = ints(rescale.multiplier) + ";" + ints(rescale.shift)
    else:
        rs = f"{int(rescale[0])};{int(rescale[1])}"
    return "/".join([sc(op.ifm), sc(op.ifm2), sc(op.ofm), fl(act.min) if act is not None else "n",
                     fl(act.max) if act is not None else "n", fl(op.ifm2_scalar), rs])


def limits(art):
    """(request, expected answer) for `get_mem_limits_for_regions`: the dictionary handed to the register generator"""
    want = ",".join(f"{int(r)}:{int(sz)}" for r, sz in sorted(art.mem_limits.items()))
    return "hl2npu_limits arch=" + arch_tok(art.arch), want


def lines(art, recs):
    """[(request line | None, skip reason | None, op index)] for one captured stream; `recs` = the C06 recorder dicts"""
    import c06_ops

    out = []
    for i, (op, r) in enumerate(zip(art.npu_ops, recs)):
        ent = CAPTURE.get(id(op))
        if ent is None or ent[2] is not op:
            out.append((None, "not-captured", i))
            continue
        desc, skip, _ = ent
        if desc is None:
            out.append((None, skip, i))
            continue
        try:
            line = "hl2npu " + " ".join(desc) + " real=" + c06_ops.d_op(op, r) + " rx=" + real_extras(op)
        except Skip as e:
            out.append((None, str(e), i))
            continue
        out.append((line, None, i))
    return out


def parse(ans):
    """answer of the Lean handler -> dict"""
    d = {"raw": ans}
    for part in ans.split(" | "):
        k, _, v = part.strip().partition("=")
        d[k] = v
    d["model_eq"] = d.get("model") == "eq"
    for k in ("roles", "weights", "dma", "clamp", "fm"):
        v = d.get(k, "?")
        d[k + "_n"] = None if v == "-" else (int(v.split()[0]) if v.split() and v.split()[0].isdigit() else -1)
    return d


# ------------------------------------------------------------------------------------------------
# judgement (called by the owning check; every verdict comes from the Lean answers)


def features(line):
    """which branches of the builder a request exercises (evidence counters only)"""
    t = dict(x.split("=", 1) for x in line.split(" ")[1:] if "=" in x)
    f = []
    if t.get("cmd") == "D":
        f.append("dma_lut" if t.get("dstlut") == "1" else "dma_weights" if "wsrc" in t else "dma_feature_map")
        return f
    real = t["real"].split("|")
    kind = {"0": "conv", "1": "depthwise", "2": "pool", "3": "elementwise"}[real[1]]
    f.append("kind_" + kind)
    st = t["st"].split(",")
    if kind == "elementwise" and "opa" in t:
        f.append("ew_binary")
        if st[4] != "0":
            f.append("ew_reversed_by_scheduler")
        elif real[16] != "0":
            f.append("ew_swapped_by_builder")
        if real[5] != "-":
            f.append("ew_scalar_ifm2")
        a, b = t["opa"].split(","), t["opb"].split(",")
        if a[6] != b[6] or a[7] != b[7]:
            f.append("ew_operands_differ_in_quantisation")
            if real[16] != "0":
                f.append("ew_reversed_and_operands_differ_in_quantisation")
    if t.get("w", "n") != "n":
        w = t["w"].split("/")
        f.append("weights_buffered" if w[2] == "1" else "weights_direct")
        if len(t["real"].split("|")[9].split("+")) > 1:
            f.append("weights_two_cores")
    if t.get("sc", "n") != "n":
        f.append("standalone_scale_tensor")
    if t.get("clamp", "n") != "n":
        f.append("clamp_judged")
    if t.get("act", "n") != "n":
        f.append("act_" + t["act"].split("/")[0])
    op = t["op"].split(",")
    if op[12] == "TILE":
        f.append("tile_padding")
    if not (st[0] != "0" and st[1] != "0"):
        f.append("h_stripe")
    if t.get("mult", "n") not in ("n", "1,1,1"):
        f.append("ofm_stride_multiplier")
    if t["ofm"].split("/")[-1].startswith("Transpose@"):
        f.append("ofm_transposed")
    if t.get("expl", "n") != "n":
        f.append("explicit_scaling")
    if t.get("foq", "n") != "n" or t.get("fiq", "n") != "n":
        f.append("forced_quantisation")
    rx = t["rx"].split("/")
    if t.get("act", "n") != "n":
        am = t["act"].split("/")
        if (am[1] != "n" and rx[3] != "n" and am[1].split(":")[0] != rx[3].split(":")[0]) or \
           (am[2] != "n" and rx[4] != "n" and am[2].split(":")[0] != rx[4].split(":")[0]):
            f.append("clamp_bounds_rewritten")
    return f


def judge(ck, outs, tag="hl2npu"):
    """Judge the `hl` records of compiled networks.  Returns a dict of totals for the evidence."""
    import common

    lines, own = [], []
    n_skip = 0
    for o in outs:
        for si, e in enumerate(o.get("extra") or []):
            for line, skip, i in e.get("hl") or []:
                if line is None:
                    n_skip += 1
                    ck.count(tag + "_skip_" + (skip.split(":")[0] if skip else "?"))
                    if skip and skip.startswith("harness:"):
                        ck.notes.append(f"{tag}: descriptor of operation {i} of network {o['idx']} ({o['profile']}) could not be written: {skip[-300:]}")
                else:
                    lines.append(line)
                    own.append((o, si, i))
    if n_skip > max(5, len(lines) // 20):
        raise common.InfraError(f"{tag}: {n_skip} of {n_skip + len(lines)} commands could not be described (see notes)")
    answers = [parse(a) for a in ck.model(lines)] if lines else []
    # get_mem_limits_for_regions
    lim = [(o, si, e["hl_limits"]) for o in outs for si, e in enumerate(o.get("extra") or []) if e.get("hl_limits")]
    lim_ans = ck.model([x[2][0] for x in lim]) if lim else []
    lim_bad = [(o, si, req, want, got) for (o, si, (req, want)), got in zip(lim, lim_ans) if want != got]
    ck.count(tag + "_mem_limits", len(lim))
    if lim_bad:
        o, si, req, want, got = lim_bad[0]
        ck.violation(f"correspondence Model/NpuOpBuild.memLimits vs get_mem_limits_for_regions broken on {len(lim_bad)} streams: real {want} model {got} "
                     f"(network {o['idx']} {o['profile']} {o.get('opts')})",
                     {"correspondence": "hl2npu mem limits", "request": req, "real": want, "model": got, "profile": o["profile"], "seed": o["seed"],
                      "index": o["idx"], "opts": o.get("opts")}, found_input=False)
    spec_bad, model_bad, unparsed = [], [], []
    judged = {"roles": 0, "weights": 0, "dma": 0, "clamp": 0, "fm": 0}
    for (o, si, i), line, d in zip(own, lines, answers):
        ck.count(tag + "_ops")
        for ft in features(line):
            ck.count(tag + "_" + ft)
        if "model" not in d:
            unparsed.append((o, si, i, line, d))
            continue
        for k in judged:
            if d[k + "_n"] is not None:
                judged[k] += 1
        rej = [k for k in judged if d[k + "_n"] not in (None, 0)]
        if rej:
            spec_bad.append((o, si, i, line, d, rej))
        if not d["model_eq"]:
            model_bad.append((o, si, i, line, d))
            ck.count(tag + "_model_" + d["model"].split(":")[0] + ("_" + d["model"].split(":")[1] if d["model"].startswith("err") else ""))
    if unparsed:
        o, si, i, line, d = unparsed[0]
        raise common.InfraError(f"{tag}: the Lean handler did not understand {len(unparsed)} requests, first: {d['raw'][:100]} :: {line[:400]}")

    def rp(o, si, i, line, d):
        return {"profile": o["profile"], "seed": o["seed"], "index": o["idx"], "opts": o.get("opts"), "network": o.get("desc"),
                "stream": si, "operation": i, "request": line[:20000], "verdict": d["raw"][:1500],
                "how_to_replay": "./check C06 --replay <this file> recompiles (seed, index, profile); or pipe `request` into lean/.lake/build/bin/drv"}

    what = {"roles": "operand roles of a binary elementwise operation are inconsistent (feature map, quantisation, scalar flag, reverse bit)",
            "weights": "weight / scale ranges of the operation are not the encoded sections of its depth slice",
            "dma": "DMA does not cover the sections it buffers / wrong destination",
            "clamp": "activation clamp is not the quantised RELU range of the OFM tensor",
            "fm": "feature-map geometry is wrong (outside its tensor's allocation / overlapping OFM elements / kernel walks outside the declared IFM extent)"}
    seen = set()
    for o, si, i, line, d, rej in spec_bad:
        for k in rej:
            key = (k, d[k].split(" ", 1)[-1].split(":")[0])
            if key in seen and len(seen) >= 6:
                continue
            seen.add(key)
            if sum(1 for v in ck.violations if v[2]) < 8:
                ck.violation(f"NpuOperation built from the scheduled operation breaks the Spec: {what[k]}: {d[k][:260]} "
                             f"(network {o['idx']} {o['profile']} {o.get('opts')}, stream {si}, operation {i})", rp(o, si, i, line, d),
                             found_input=True)
    if model_bad and not any(v[2] for v in ck.violations):
        o, si, i, line, d = model_bad[0]
        ck.violation(f"correspondence Model/NpuOpBuild.lean vs high_level_command_to_npu_op broken on {len(model_bad)} operations: "
                     f"{d['model'][:300]} (network {o['idx']} {o['profile']} {o.get('opts')}, stream {si}, operation {i})",
                     dict(rp(o, si, i, line, d), correspondence="hl2npu model operation"), found_input=False)
    for (o, si, i), line, d in list(zip(own, lines, answers))[:2]:
        ck.sample({"request": line[:400], "verdict": d["raw"][:200]})
    return {"hl2npu_operations": len(lines), "hl2npu_model_disagreements": len(model_bad), "hl2npu_spec_rejections": len(spec_bad),
            "hl2npu_judged_roles": judged["roles"], "hl2npu_judged_weights": judged["weights"], "hl2npu_judged_dma": judged["dma"],
            "hl2npu_judged_clamp": judged["clamp"], "hl2npu_judged_footprints": judged["fm"], "hl2npu_skipped": n_skip}


# ------------------------------------------------------------------------------------------------
# the exact float operations of the Lean side (Spec/FloatExact.lean) against NumPy, on the expressions of the file


def _obj(kind, v):
    return np.float32(v) if kind == 1 else np.float64(v) if kind == 2 else float(v)


def _bits(x):
    return struct.unpack("<Q", struct.pack("<d", float(x)))[0]


def float_stage(ck, n):
    """`quantise_float32`, `scale * int`, `scale / scale` evaluated by NumPy and by the Lean handler on the same inputs"""
    from ethosu.vela.numeric_util import quantise_float32

    rng = ck.rng
    reqs, want, what = [], [], []
    ints = {0: int, 1: np.int16, 2: np.int64}
    for _ in range(n):
        kind = rng.choice([0, 1, 1, 1, 2])
        sc = _obj(kind, np.float32(2.0 ** rng.uniform(-16, 2)) if rng.random() < 0.7 else 2.0 ** rng.uniform(-16, 2))
        which = rng.choice(["qdiv", "qdiv", "mul", "div"])
        if which == "qdiv":
            f = rng.choice([0.0, 6.0, 1.0, -1.0, rng.uniform(-300, 300), float(np.float32(rng.uniform(-8, 8))), rng.uniform(-1, 1) * float(sc) * 4000])
            r = int(quantise_float32(f, sc, 0))
            reqs.append(f"hl2npu_f qdiv {_bits(f)} {_bits(sc)}")
            want.append(str(r))
        elif which == "mul":
            ik = rng.choice([0, 1, 2])
            q = rng.randint(-30000, 30000) if ik != 1 else rng.randint(-30000, 30000)
            with np.errstate(all="ignore"):
                p = sc * ints[ik](q)
            k = 1 if isinstance(p, np.float32) else 2 if isinstance(p, np.floating) else 0
            reqs.append(f"hl2npu_f mul {_bits(sc)} {kind} {ik} {q}")
            want.append(f"{_bits(p)}:{k}")
        else:
            kb = rng.choice([0, 1, 1, 2])
            b = _obj(kb, np.float32(2.0 ** rng.uniform(-16, 2)) if rng.random() < 0.7 else 2.0 ** rng.uniform(-16, 2))
            p = sc / b
            k = 1 if isinstance(p, np.float32) else 2 if isinstance(p, np.floating) else 0
            reqs.append(f"hl2npu_f div {_bits(sc)} {kind} {_bits(b)} {kb}")
            want.append(f"{_bits(p)}:{k}")
        what.append(which)
    reqs.append("hl2npu_f inv3000")
    want.append(str(_bits(1 / 0x3000)))
    what.append("inv3000")
    got = ck.model(reqs)
    bad = [(r, w, g) for r, w, g in zip(reqs, want, got) if w != g]
    for w in what:
        ck.count("hl2npu_float_" + w)
    if bad:
        r, w, g = bad[0]
        ck.violation(f"Spec/FloatExact.lean and NumPy disagree on {len(bad)} of {len(reqs)} float operations: `{r}` NumPy {w} Lean {g}",
                     {"correspondence": "hl2npu float operations", "request": r, "numpy": w, "lean": g}, found_input=False)
    return {"hl2npu_float_ops": len(reqs), "hl2npu_float_disagreements": len(bad)}
