"""C01, STRIDED_SLICE specification streams (round 5, seeded change C01-r5m2).

1. `ssref` (validation of the Spec, not of the compiler): the Lean transcription of the TFLite reference
   (Spec/StridedSliceRef.lean) against NumPy's basic indexing on every generated specification (new axes, shrink positions,
   masks, negative / out-of-range values, negative strides, ellipsis): same shape, same elements in the same order.
   A disagreement is an infrastructure failure (the reference semantics itself would be in doubt).
2. `sswin`: the REAL `TFLiteSemantic.constraint_slice_ranges` (which stores `offset_begin` / `offset_end`, the read window
   every later stage uses for an accelerated STRIDED_SLICE) on operators built from the repo's own classes, for the
   specifications Vela would accelerate (ellipsis 0, strides 1, not new-axis and shrink together).  Lean decides whether
   the stored window is the window of the reference (`StridedSliceRef.inputWindow`); if not, that specification is the
   failing input: the Ethos-U reads other elements than the TFLite operator.
"""
import numpy as np

import common
import gen_ssmask


def _fields(shape, sp):
    return (f"shape={','.join(map(str, shape))} begin={','.join(map(str, sp['begin']))} end={','.join(map(str, sp['end']))} "
            f"strides={','.join(map(str, sp['strides']))} masks={sp['bm']},{sp['em']},{sp['ell']},{sp['na']},{sp['sh']}")


def _numpy_index(sp):
    idx = []
    for p in range(len(sp["begin"])):
        if (sp["ell"] >> p) & 1:
            idx.append(Ellipsis)
        elif (sp["na"] >> p) & 1:
            idx.append(np.newaxis)
        elif (sp["sh"] >> p) & 1:
            idx.append(sp["begin"][p] if not (sp["bm"] >> p) & 1 else 0)
        else:
            b = None if (sp["bm"] >> p) & 1 else sp["begin"][p]
            e = None if (sp["em"] >> p) & 1 else sp["end"][p]
            idx.append(slice(b, e, sp["strides"][p]))
    return tuple(idx)


def gen_cases(rng, n):
    cases = []
    for i in range(n):
        rank = 1 + i % 4
        mode = gen_ssmask.MODES[(i // 4) % len(gen_ssmask.MODES)]
        shape = gen_ssmask.rand_shape(rng, rank)
        if rank == 4 and rng.random() < 0.3:
            shape[0] = rng.choice([2, 3])
        cases.append((shape, gen_ssmask.rand_spec(rng, shape, mode)))
    return cases


def run(ck, n_ref, n_win):
    rng = ck.rng
    stats = {"ssref_cases": 0, "sswin_cases": 0, "sswin_judged": 0, "sswin_rejected_by_vela": 0}
    # ---- 1. Spec vs NumPy ------------------------------------------------------------------------------------------------
    cases = gen_cases(rng, n_ref)
    ans = ck.model(["ssref " + _fields(s, sp) for s, sp in cases], parallel=False)
    for (shape, sp), a in zip(cases, ans):
        stats["ssref_cases"] += 1
        if (sp["ell"] and sp["na"] & sp["ell"]) or any((sp["sh"] >> p) & 1 and (sp["bm"] >> p) & 1 for p in range(len(sp["begin"]))):
            continue      # NumPy has no counterpart (bit set in both masks)
        arr = np.arange(int(np.prod(shape))).reshape(shape)
        try:
            want = arr[_numpy_index(sp)]
        except IndexError:
            want = None
        if want is None or want.size == 0:
            ok = a.startswith("err:") or " idx= " in a + " " or a.endswith("idx=")
            ck.count("ssref_empty_or_rejected")
        else:
            got = a.split()
            ok = (a.startswith("ok ") and got[1] == "out=" + ",".join(map(str, want.shape)) and
                  got[3] == "idx=" + ",".join(map(str, want.reshape(-1))))
            ck.count("ssref_mode_" + sp["mode"])
        if not ok:
            raise common.InfraError(f"Spec/StridedSliceRef disagrees with NumPy basic indexing: shape {shape} spec {sp}: Lean '{a[:200]}', "
                                    f"NumPy shape {None if want is None else want.shape}")
    # ---- 2. the window Vela derives --------------------------------------------------------------------------------------
    common.setup_repo_path()
    from ethosu.vela.data_type import DataType
    from ethosu.vela.operation import Op
    from ethosu.vela.tensor import Tensor, create_const_tensor
    from ethosu.vela.test import testutil
    from ethosu.vela.tflite_model_semantic import TFLiteSemantic

    cases = [c for c in gen_cases(rng, n_win * 2) if not c[1]["ell"] and all(s == 1 for s in c[1]["strides"])
             and not (c[1]["na"] and c[1]["sh"])][:n_win]
    reqs, metas = [], []
    for shape, sp in cases:
        stats["sswin_cases"] += 1
        n = len(sp["begin"])
        ifm = Tensor(list(shape), DataType.int8, "ifm")
        ofm = Tensor(list(sp["out"]), DataType.int8, "ofm")
        bt = create_const_tensor("begin", [n], DataType.int32, list(sp["begin"]))
        et = create_const_tensor("end", [n], DataType.int32, list(sp["end"]))
        st = create_const_tensor("strides", [n], DataType.int32, list(sp["strides"]))
        attrs = {"begin_mask": sp["bm"], "end_mask": sp["em"], "ellipsis_mask": sp["ell"], "new_axis_mask": sp["na"],
                 "shrink_axis_mask": sp["sh"], "offset": False}
        op = testutil.create_op(Op.StridedSlice, [ifm, bt, et, st], ofm, attrs)
        try:
            valid, _msg = TFLiteSemantic.constraint_slice_ranges(op)
            vb, ve = list(op.attrs["offset_begin"]), list(op.attrs["offset_end"])
            real = "valid" if valid else "rejected"
        except Exception as e:  # noqa: B902
            real, vb, ve = "raises:" + type(e).__name__, [], []
        ck.count("sswin_vela_" + real.split(":")[0])
        if real != "valid":
            stats["sswin_rejected_by_vela"] += 1       # stays on the CPU (or dies loudly: C13's subject)
            continue
        reqs.append("sswin " + _fields(shape, sp) + f" vb={','.join(map(str, vb))} ve={','.join(map(str, ve))}")
        metas.append((shape, sp, vb, ve))
    ans = ck.model(reqs, parallel=False)
    nontrivial = set()
    for (shape, sp, vb, ve), rq, a in zip(metas, reqs, ans):
        stats["sswin_judged"] += 1
        ck.count("sswin_mode_" + sp["mode"])
        ck.count("sswin_" + a.split()[0])
        nontrivial.add((tuple(shape), tuple(sp["begin"]), tuple(sp["end"]), sp["bm"], sp["em"], sp["na"], sp["sh"]))
        if a.startswith("1"):
            continue
        key = None
        if a == "none":
            what = "the reference yields an empty slice (or rejects the specification) but constraint_slice_ranges accepted it"
        else:
            what = f"the reference window is {a.split('expected=')[1]}"
            clamped = any(v < 0 for v in vb) or any(e > d for e, d in zip(ve, shape))
            if clamped:
                key = "strided-slice-out-of-range-begin-end-not-clamped"
        ck.violation(f"STRIDED_SLICE on {shape}, begin {sp['begin']} end {sp['end']} masks begin={sp['bm']} end={sp['em']} new_axis={sp['na']} "
                     f"shrink={sp['sh']}: tflite_model_semantic.constraint_slice_ranges stores the read window {vb}..{ve}; {what}",
                     {"stream": "sswin", "shape": shape, "spec": sp, "vela_offset_begin": vb, "vela_offset_end": ve, "request": rq,
                      "lean_verdict": a}, found_input=True, key=key)
    stats["sswin_distinct"] = len(nontrivial)
    return stats
