"""C13, command-line layer: generated option vectors x one tiny valid network through the REAL vela.main, compared
with the Lean model of the option validation (Model/CliOptions.validate, proved against the documented rules in
Props/C13Cli).

A vector is a dict of option values (None = option left out). From it the harness derives
  * the argv (options in the order the parser declares them, numeric values as --opt=value), and
  * the model request line: option values plus the *facts of the environment* the code reads (is the argument an .ini
    path, is the path the search rule selects readable, do the files contain the section, which ports does it name).
    The facts come from how this module built the files (FILES below) and from Python's configparser, never from vela.
The real ending is canonicalised to accepted | report | listing | usage | inputFile | cliOption | configOption | crash:
  * accepted = process() was entered and the reader of the frontend the model names was called (what happens later is
    the business of the other C13 streams; a later VelaError is a diagnosis, a later traceback a C13 violation),
  * a traceback that is not a diagnosis is a C13 violation with the vector as replay,
  * any other difference from the model is a broken correspondence; Spec.consistent (Lean) then judges the real ending
    against the documented rules: inconsistent -> found_input=True, else `no-failing-input-found`.
For accepted vectors the configuration handed to process() (architecture ports, sizes, alignment, allocator, strategy,
verbose switches, recursion limit in force) is compared field by field with the model's Config."""
import configparser
import contextlib
import io
import multiprocessing
import os
import random
import shutil
import sys
import tempfile
import traceback
from concurrent.futures import ProcessPoolExecutor

import common

ACCELS = ["ethos-u55-32", "ethos-u55-64", "ethos-u55-128", "ethos-u55-256", "ethos-u65-256", "ethos-u65-512"]
ALLOCATORS = ["Greedy", "LinearAlloc", "HillClimb"]
STRATEGIES = ["Size", "Performance"]
AREAS = {"Sram": "S", "Dram": "D", "OnChipFlash": "N", "OffChipFlash": "F"}
VERBOSE = ["config", "graph", "quantization", "packing", "tensor-purpose", "tensor-format", "schedule", "allocation",
           "high-level-command-stream", "register-command-stream", "operators", "weights", "performance", "progress"]
DEFAULTS = {"accel": "ethos-u65-256", "alloc": "HillClimb", "opt": "Performance", "blockdep": 3, "arena": 384 * 1024,
            "align": 16, "rec": 4000, "hc": 99999}
SYS_INI = ["Ethos_U55_Deep_Embedded", "Ethos_U55_High_End_Embedded", "Ethos_U65_Embedded", "Ethos_U65_Mid_End",
           "Ethos_U65_High_End", "Ethos_U65_Client_Server"]
MEM_INI = ["Sram_Only", "Shared_Sram", "Dedicated_Sram", "Dedicated_Sram_512KB"]
SYS_CUSTOM = [f"Sys_{a}{b}" for a in "SDNF" for b in "SDNF"]
MEM_CUSTOM = [f"Mem_{a}{b}{c}" for a in "01" for b in "01" for c in "01"]

_STATE = {}


def custom_ini_text():
    """every pair of memory types as a system configuration, every triple of ports as a memory mode"""
    name = {v: k for k, v in AREAS.items()}
    out = []
    for s in SYS_CUSTOM:
        a, b = name[s[4]], name[s[5]]
        out.append(f"[System_Config.{s}]\ncore_clock=5e8\naxi0_port={a}\naxi1_port={b}")
        for m in sorted({a, b}):
            out.append(f"{m}_clock_scale=0.5\n{m}_burst_length=32\n{m}_read_latency=32\n{m}_write_latency=32")
    for m in MEM_CUSTOM:
        c, a, k = (f"Axi{d}" for d in m[4:])
        out.append(f"[Memory_Mode.{m}]\nconst_mem_area={c}\narena_mem_area={a}\ncache_mem_area={k}\narena_cache_size=65536")
    return "\n".join(out) + "\n"


def setup(workdir, network_bytes):
    """the files the vectors refer to; returns the table name -> (argument, ends .ini, readable, path read or None)"""
    os.makedirs(os.path.join(workdir, "custom"), exist_ok=True)
    for suf in (".tflite", ".tosa", ".txt", ""):
        with open(os.path.join(workdir, "n" + suf), "wb") as f:
            f.write(network_bytes)
    text = custom_ini_text()
    for p in ("cli.ini", "custom/cli.ini", "custom/cli.cfg"):
        with open(os.path.join(workdir, p), "w") as f:
            f.write(text)
    repo_ini = os.path.join(common.REPO, "ethosu", "config_files", "Arm", "vela.ini")
    custom = os.path.join(workdir, "custom", "cli.ini")
    return {
        "ini_abs": (repo_ini, True, True, repo_ini),
        "ini_short": ("Arm/vela.ini", True, True, repo_ini),                      # found under config_files
        "custom": (custom, True, True, custom),
        "rel_cwd": ("./cli.ini", True, True, os.path.join(workdir, "cli.ini")),     # starts with "." -> taken as written
        "two_level_rel": ("custom/cli.ini", True, False, None),                    # Dir/file.ini is looked up under config_files only
        "not_ini": ("Arm/vela.txt", False, False, None),
        "custom_cfg": (os.path.join(workdir, "custom", "cli.cfg"), False, True, None),
        "short_missing": ("Arm/nothere.ini", True, False, None),
        "abs_missing": ("/nonexistent_c13cli/x.ini", True, False, None),
    }


# ---------------------------------------------------------------------------------------------- generator

def _pow2_neighbourhood(rng):
    k = rng.choice([0, 1, 3, 4, 4, 5, 6, 8, 10, 16, 31, 32, 33, 40, 63, 64, 70, 100])
    return (1 << k) + rng.choice([-1, 0, 0, 0, 1])


def gen_vector(rng):
    v = {"report": rng.random() < 0.015, "list": rng.random() < 0.02, "net": "tflite", "exists": True, "configs": [],
         "sys": None, "mem": None, "accel": None, "alloc": None, "opt": None, "blockdep": None, "arena": None, "align": None,
         "rec": None, "hc": None, "verbose_all": rng.random() < 0.04, "verbose": []}
    r = rng.random()
    if r < 0.04:
        v["net"] = "none"
    elif r < 0.10:
        v["net"] = rng.choice(["txt", "nosuffix"])
    elif r < 0.13:
        v["net"] = "tosa"
    elif r < 0.17:
        v["exists"] = False
        v["net"] = rng.choice(["tflite", "tflite", "txt", "tosa"])
    if rng.random() < 0.45:
        good = ["ini_abs", "ini_short", "custom", "custom", "rel_cwd"]
        bad = ["two_level_rel", "not_ini", "custom_cfg", "short_missing", "abs_missing"]
        n = rng.choice([1, 1, 1, 2, 2, 3])
        v["configs"] = [rng.choice(bad) if rng.random() < 0.08 else rng.choice(good) for _ in range(n)]
    if rng.random() < (0.6 if v["configs"] else 0.08):
        v["sys"] = rng.choice(SYS_INI + SYS_CUSTOM + SYS_CUSTOM[:2] * 4 + ["Nope", "internal-default"])
    if rng.random() < (0.6 if v["configs"] else 0.08):
        v["mem"] = rng.choice(MEM_INI + MEM_CUSTOM * 2 + ["Nope", "internal-default"])
    if rng.random() < 0.6:
        v["accel"] = rng.choice(ACCELS) if rng.random() < 0.97 else rng.choice(["ethos-u55-100", "Ethos-U55-128", "u65", ""])
    if rng.random() < 0.4:
        v["alloc"] = rng.choice(ALLOCATORS) if rng.random() < 0.94 else rng.choice(["hillclimb", "foo", "0", ""])
    if rng.random() < 0.5:
        v["opt"] = rng.choice(STRATEGIES) if rng.random() < 0.94 else rng.choice(["size", "Speed", "1", ""])
    if rng.random() < 0.3:
        v["blockdep"] = rng.choice([0, 1, 2, 3, 0, 1, 2, 3, 0, 1, 2, 3, -1, 4, 10 ** 20, -10 ** 20, 255])
    if rng.random() < 0.4:
        v["arena"] = rng.choice([-1, 0, 1, 16, 1024, 4096, 65536, 393216, 1 << 20, 2 ** 31, 2 ** 32 - 1, 2 ** 32, 2 ** 32 + 1,
                                 2 ** 40 - 1, 2 ** 40, 2 ** 40 + 1, 2 ** 64, 10 ** 30, -10 ** 30, -(2 ** 32),
                                 rng.randrange(0, 1 << 22), rng.randrange(0, 1 << 44)])
    if rng.random() < 0.4:
        v["align"] = 1 << rng.randrange(4, 40) if rng.random() < 0.4 else rng.choice([15, 16, 17, 0, 1, 2, 8, -16, -1, 24, 48, 31, 32, 33, 64, 128, 256, 4096, 10 ** 30, -10 ** 30,
                                 _pow2_neighbourhood(rng), _pow2_neighbourhood(rng), rng.randrange(-64, 600)])
    if rng.random() < 0.25:
        # 1 .. 999 left out: whether the interpreter can honour such a limit depends on the stack depth of the caller
        v["rec"] = rng.choice([0, -1, -10 ** 30, 1000, 1001, 2000, 4000, 10000, 2 ** 31 - 2, 2 ** 31 - 1, 2 ** 31, 2 ** 31 + 1,
                               2 ** 32, 2 ** 63, 10 ** 30, rng.randrange(1000, 100000)])
    if rng.random() < 0.25:
        v["hc"] = rng.choice([-1, 0, 1, 2, 1000, 99999, 100000, 2 ** 31, 2 ** 64, 10 ** 30, -10 ** 30, rng.randrange(0, 5000)])
    for f in VERBOSE:
        if rng.random() < 0.04:
            v["verbose"].append(f)
    return v


def boundary_vectors():
    """one deviation from the defaults at a time: every boundary of every range, both sides"""
    base = gen_vector(random.Random(0))
    base.update(report=False, list=False, net="tflite", exists=True, configs=[], sys=None, mem=None, accel=None, alloc=None,
                opt=None, blockdep=None, arena=None, align=None, rec=None, hc=None, verbose_all=False, verbose=[])
    out = [dict(base)]
    for k, vals in [("blockdep", [-1, 0, 1, 2, 3, 4]), ("align", [15, 16, 17, 31, 32, 33, 0, -16, 2 ** 70, 2 ** 70 + 1]),
                    ("arena", [-1, 0, 1, 2 ** 40 - 1, 2 ** 40, 2 ** 40 + 1]), ("rec", [0, 1000, 2 ** 31 - 1, 2 ** 31]),
                    ("hc", [-1, 0, 1]), ("net", ["none", "txt", "nosuffix", "tosa"]), ("exists", [False]),
                    ("alloc", ALLOCATORS + ["foo"]), ("opt", STRATEGIES + ["size"]), ("accel", ACCELS + ["ethos-u55-100"]),
                    ("report", [True]), ("list", [True]), ("verbose_all", [True]), ("sys", ["Nope", "Ethos_U65_High_End"]),
                    ("mem", ["Nope", "Shared_Sram"])]:
        for x in vals:
            out.append(dict(base, **{k: x}))
    for acc in ("ethos-u55-32", "ethos-u55-256"):
        for a in (2 ** 32 - 1, 2 ** 32, 2 ** 32 + 1):
            out.append(dict(base, accel=acc, arena=a))
    for c in ("ini_abs", "ini_short", "custom", "rel_cwd", "two_level_rel", "not_ini", "custom_cfg", "short_missing", "abs_missing"):
        out.append(dict(base, configs=[c]))
        out.append(dict(base, configs=["custom", c], sys="Sys_SD", mem="Mem_110"))
    for s in SYS_CUSTOM:
        for m in MEM_CUSTOM:
            out.append(dict(base, configs=["custom"], sys=s, mem=m, accel="ethos-u55-128" if (len(out) % 2) else "ethos-u65-256"))
    for m in MEM_INI + MEM_CUSTOM:
        out.append(dict(base, configs=["ini_abs", "custom"], mem=m, accel="ethos-u55-64"))
        out.append(dict(base, configs=["custom", "ini_short"], mem=m))
    for s in SYS_INI:
        out.append(dict(base, configs=["ini_short"], sys=s))
        out.append(dict(base, configs=["ini_short"], sys=s, accel="ethos-u55-256"))
    # order of the tests: two violations at once
    out += [dict(base, align=3, configs=["not_ini"]), dict(base, align=3, net="txt"), dict(base, align=3, rec=0),
            dict(base, rec=0, sys="Nope"), dict(base, sys="Nope", mem="Nope"), dict(base, sys="Nope", arena=-1),
            dict(base, arena=-1, net="txt"), dict(base, net="none", blockdep=7), dict(base, net="none", align=3),
            dict(base, list=True, align=3, net="none"), dict(base, report=True, list=True), dict(base, blockdep=9, report=True),
            dict(base, configs=["short_missing", "not_ini"]), dict(base, configs=["custom", "not_ini", "abs_missing"]),
            dict(base, exists=False, net="txt"), dict(base, exists=False, arena=-1)]
    return out


# ---------------------------------------------------------------------------------------------- vector -> argv / model line

def argv_of(v, files, workdir, out="out"):
    a = []
    if v["net"] != "none":
        name = {"tflite": "n.tflite", "tosa": "n.tosa", "txt": "n.txt", "nosuffix": "n"}[v["net"]]
        if not v["exists"]:
            name = "absent_" + name
        a.append(os.path.join(workdir, name))
    a += ["--output-dir", os.path.join(workdir, out)]
    if v["report"]:
        a.append("--supported-ops-report")
    if v["list"]:
        a.append("--list-config-files")
    for c in v["configs"]:
        a += ["--config", files[c][0]]
    if v["verbose_all"]:
        a.append("--verbose-all")
    a += ["--verbose-" + f for f in v["verbose"]]
    for key, opt in [("accel", "--accelerator-config"), ("sys", "--system-config"), ("mem", "--memory-mode"),
                     ("alloc", "--tensor-allocator"), ("blockdep", "--max-block-dependency"), ("opt", "--optimise"),
                     ("arena", "--arena-cache-size"), ("align", "--cpu-tensor-alignment"), ("rec", "--recursion-limit"),
                     ("hc", "--hillclimb-max-iterations")]:
        if v[key] is not None:
            a.append(f"{opt}={v[key]}")
    return a


def _section(cp, section, key, default):
    """value of `key` in `section` following `inherit` (OPTIONS.md, Configuration File)"""
    seen = set()
    while section not in seen and cp.has_section(section):
        seen.add(section)
        if cp.has_option(section, key):
            return cp.get(section, key)
        if not cp.has_option(section, "inherit"):
            break
        section = cp.get(section, "inherit")
    return default


def fields_of(v, files):
    """the fields of the Lean request (everything after the command word)"""
    d = lambda k: DEFAULTS[k] if v[k] is None else v[k]       # noqa: E731
    cfgs = ",".join(f"{int(files[c][1])}{int(files[c][2])}" for c in v["configs"]) or "-"
    sysf = memf = "-"
    paths = [files[c][3] for c in v["configs"] if files[c][3]]
    if paths:
        cp = configparser.ConfigParser()
        cp.read(paths)
        s = "System_Config." + (v["sys"] or "internal-default")
        if cp.has_section(s):
            sysf = AREAS[_section(cp, s, "axi0_port", "Sram")] + AREAS[_section(cp, s, "axi1_port", "Sram")]
        m = "Memory_Mode." + (v["mem"] or "internal-default")
        if cp.has_section(m):
            memf = "".join(_section(cp, m, k, "Axi0")[-1] for k in ("const_mem_area", "arena_mem_area", "cache_mem_area"))
    idx = lambda tbl, x: str(tbl.index(x)) if x in tbl else "x"      # noqa: E731
    vb = "".join("1" if f in v["verbose"] else "0" for f in VERBOSE)
    net = {"none": "-", "tflite": "tflite", "tosa": "tosa", "txt": "other", "nosuffix": "other"}[v["net"]]
    return " ".join([str(int(v["report"])), str(int(v["list"])), net, str(int(v["exists"])), cfgs,
                     str(int(v["sys"] in (None, "internal-default"))), str(int(v["mem"] in (None, "internal-default"))), sysf, memf,
                     idx(ACCELS, d("accel")), idx(ALLOCATORS, d("alloc")), idx(STRATEGIES, d("opt")), str(d("blockdep")),
                     str(d("arena")), str(d("align")), str(d("rec")), str(d("hc")), str(int(v["verbose_all"])), vb])


# ---------------------------------------------------------------------------------------------- the real run

class _StopAfterFrontend(BaseException):
    pass


def _observe(argv, workdir, tag, outdir="out"):
    """run vela.main(argv); returns the canonical ending"""
    from ethosu.vela import vela, tflite_reader, tosa_reader
    from ethosu.vela.errors import VelaError  # noqa: F401

    seen = {}
    orig_process, orig_tfl, orig_tosa = vela.process, tflite_reader.read_tflite, tosa_reader.read_tosa

    def process(input_name, enable_debug_db, arch, model_reader_options, compiler_options, scheduler_options, *rest):
        seen["process"] = (arch, compiler_options, scheduler_options, sys.getrecursionlimit())
        return orig_process(input_name, enable_debug_db, arch, model_reader_options, compiler_options, scheduler_options, *rest)

    def read_tflite(*a, **kw):
        seen["frontend"] = "tflite"
        return orig_tfl(*a, **kw)

    def read_tosa(*a, **kw):
        # the file holds a TFLite model: the selection of the frontend is what is observed, the TOSA reader is not entered
        seen["frontend"] = "tosa"
        if a and isinstance(a[0], str) and not os.path.exists(a[0]):
            return orig_tosa(*a, **kw)            # an absent file: whatever the real reader does with it
        raise _StopAfterFrontend()

    out = io.StringIO()
    cap = open(os.path.join(workdir, f"stdout_{tag}.txt"), "w+")
    sys.stdout.flush()
    saved = os.dup(1)
    os.dup2(cap.fileno(), 1)
    limit = sys.getrecursionlimit()
    cwd = os.getcwd()
    res = {}
    vela.process, tflite_reader.read_tflite, tosa_reader.read_tosa = process, read_tflite, read_tosa
    try:
        os.chdir(workdir)
        with contextlib.redirect_stdout(out), contextlib.redirect_stderr(out):
            try:
                res["ret"] = vela.main(list(argv))
            except _StopAfterFrontend:
                res["ret"] = "stopped"
            except SystemExit as e:
                res["exit"] = e.code
            except BaseException as e:  # noqa: B902
                import pipe_common

                tb = traceback.format_exc()
                res["crash"] = (type(e).__name__ + ": " + str(e))[:200]
                res["site"] = pipe_common.exc_site(tb, e)
                res["tb"] = tb[-1200:]
    finally:
        vela.process, tflite_reader.read_tflite, tosa_reader.read_tosa = orig_process, orig_tfl, orig_tosa
        sys.setrecursionlimit(limit)
        sys.stdout.flush()
        os.dup2(saved, 1)
        os.close(saved)
        cap.seek(0)
        text = out.getvalue() + cap.read()
        cap.close()
        os.chdir(cwd)
        shutil.rmtree(os.path.join(workdir, outdir), ignore_errors=True)
        try:
            import pipeline

            pipeline.reset_process_state()
        except Exception:
            pass
    errs = [ln for ln in text.split("\n") if ln.startswith("Error:")]
    res["tail"] = text[-300:]
    if "process" in seen and "frontend" in seen:
        arch, co, so, rl = seen["process"]
        vb = [arch_verbose(text), co.verbose_graph, co.verbose_quantization, co.verbose_packing, co.verbose_tensor_purpose,
              co.verbose_tensor_format, so.verbose_schedule, co.verbose_allocation, co.verbose_high_level_command_stream,
              co.verbose_register_command_stream, co.verbose_operators, co.verbose_weights, co.verbose_performance,
              co.verbose_progress]
        res["cfg"] = " ".join([
            "compile", seen["frontend"], str(int(type(arch).__name__ == "Imx93ArchitectureFeatures")),
            str(ACCELS.index(arch.accelerator_config.value)), AREAS[arch.axi0_port.name] + AREAS[arch.axi1_port.name],
            "".join(p.name[-1] for p in (arch.const_mem_area, arch.arena_mem_area, arch.cache_mem_area)),
            str(arch.max_blockdep), str(arch.arena_cache_size) if arch.arena_cache_size == so.optimization_sram_limit else "sram_target-differs",
            str(co.cpu_tensor_alignment), str(rl), str(co.hillclimb_max_iterations), str(ALLOCATORS.index(co.tensor_allocator.name)),
            str(STRATEGIES.index(so.optimization_strategy.name)), "".join(str(int(bool(b))) for b in vb)])
    if "crash" in res:
        res["kind"] = "crash"
        res["stage"] = "after-validation" if "frontend" in seen else "validation"
    elif "exit" in res:
        res["kind"] = "usage" if res["exit"] == 2 else f"exit:{res['exit']}"
    elif "cfg" in res:
        res["kind"] = "accepted"                      # ret 0, ret 1 with a later VelaError, or stopped at the TOSA reader
        res["later_error"] = bool(errs)
    elif res.get("ret") == 0:
        res["kind"] = "report" if "Report file:" in text else "listing" if "Available config files:" in text else "returned0"
    elif res.get("ret") == 1 and errs:
        e = errs[-1]
        res["kind"] = ("inputFile" if e.startswith("Error: Reading input file") else
                       "cliOption" if e.startswith("Error: Incorrect argument to CLI option") else
                       "configOption" if e.startswith("Error: Invalid configuration of") else "velaError-before-process")
        res["message"] = e[:200]
    else:
        res["kind"] = f"returned:{res.get('ret')}"
    return res


def arch_verbose(text):
    return "System Configuration (" in text


def _job(job):
    i, v = job
    try:
        out = f"out_{os.getpid()}"
        return _observe(argv_of(v, _STATE["files"], _STATE["workdir"], out), _STATE["workdir"], f"{os.getpid()}", out)
    except BaseException:  # noqa: B902
        return {"harness_exception": traceback.format_exc()[-1500:]}


KNOWN_KEYS = {
    # crash site of the unchanged tree -> key of the recorded defect (known_findings.txt, repairs /verif_patches/C13-60..63)
    "cli:recursion-limit-not-validated": lambda r: r["site"].endswith("@vela.main") and r["crash"].split(":")[0] in ("ValueError", "OverflowError", "RecursionError"),
    "cli:enum-option-keyerror": lambda r: r["crash"].startswith("KeyError") and "_member_map_" in r.get("tb", ""),
    "cli:huge-alignment-shape-exceeds-int32": lambda r: r.get("site") == "TypeError@tflite_writer.write_int_vector" and "for type int32" in r["crash"],
    "cli:missing-network-file": lambda r: r["crash"].startswith("FileNotFoundError") and "absent_n" in r["crash"],
}


def crash_key(r):
    for k, pred in KNOWN_KEYS.items():
        if pred(r):
            return k
    return r.get("site") or "crash"


def run(ck, only=None):
    """the stream; `only` = a single vector (replay). Returns the statistics for the evidence file."""
    import netgen
    import pipe_common
    import pipeline

    pipeline.load_vela()
    net = pipe_common.make_net(random.Random(7), 0, "elementwise")
    workdir = tempfile.mkdtemp(prefix="velaverif_cli_", dir="/dev/shm" if os.path.isdir("/dev/shm") else None)
    try:
        files = setup(workdir, netgen.serialize(net))
        _STATE.update(files=files, workdir=workdir)
        if only is not None:
            vectors = [only]
        else:
            rng = random.Random(ck.seed * 7919 + 13)
            vectors = boundary_vectors() + [gen_vector(rng) for _ in range(9000 if ck.thorough else 1700)]
        lines = ["cli " + fields_of(v, files) for v in vectors]
        expect = ck.model(lines, parallel=len(lines) > 4000)
        if len(vectors) == 1:
            obs = [_job((0, vectors[0]))]
        else:
            ctx = multiprocessing.get_context("fork")
            with ProcessPoolExecutor(min(16, os.cpu_count() or 4), mp_context=ctx) as ex:
                obs = list(ex.map(_job, enumerate(vectors), chunksize=8))
        distinct, todo = set(), []
        for v, line, exp, r in zip(vectors, lines, expect, obs):
            if "harness_exception" in r:
                raise common.InfraError("c13_cli worker failed:\n" + r["harness_exception"])
            if exp.startswith("err:"):
                raise common.InfraError(f"c13_cli: driver answered {exp} to {line}")
            want = exp.split()
            want_kind = {"ok": "accepted" if want[1] == "compile" else want[1], "diag": want[1]}[want[0]]
            ck.count("cli_model_" + (want[2].split(".")[-1] if want[0] == "diag" else want[1]))
            ck.count("cli_real_" + r["kind"])
            distinct.add(line)
            replay = {"profile": "c13cli:", "vector": v, "argv": argv_of(v, files, "<workdir>"), "model_request": line,
                      "model": exp, "real": {k: r.get(k) for k in ("kind", "cfg", "message", "crash", "site", "stage", "tail", "tb")},
                      "how_to_replay": "./check C13 --replay <this file> (c13_cli.run(ck, only=vector))"}
            if r["kind"] == "crash":
                # a traceback is never a diagnosis: C13 violation with the option vector as replay
                key = crash_key(r)
                ck.violation(f"command line {' '.join(argv_of(v, files, '<workdir>'))}: traceback {r['crash']} at {r.get('site')} "
                             f"({r['stage']}); the validation model says {exp[:60]}", replay, found_input=True, key=key)
                ck.count("cli_crash_" + key)
                continue
            if r["kind"] == want_kind and (want_kind != "accepted" or r["cfg"] == " ".join(want[1:])):
                continue
            todo.append((v, line, exp, r, replay))
        # failing-input search for model != code: the Lean judge of the observed ending against the documented rules
        if todo:
            known = ("accepted", "usage", "inputFile", "cliOption", "configOption")
            reqs = [f"clispec {r['kind'] if r['kind'] in known else 'accepted'} {line[4:]}" for v, line, exp, r, replay in todo]
            verdicts = ck.model(reqs, parallel=False)
            for (v, line, exp, r, replay), verdict in zip(todo, verdicts):
                odd = r["kind"] not in known + ("report", "listing")
                found = odd or (verdict != "1" and r["kind"] not in ("report", "listing"))
                ck.violation(f"command line {' '.join(argv_of(v, files, '<workdir>'))}: vela.main ended with {r['kind']} "
                             f"{r.get('cfg') or r.get('message') or ''}; Model/CliOptions.validate says {exp}"
                             + ("" if found else " (the real ending is consistent with the documented rules: correspondence "
                                                 "harness/c13_cli.py <-> CliOptions.validate broken)"),
                             replay, found_input=found)
        for v, line, exp, r in list(zip(vectors, lines, expect, obs))[:3]:
            ck.sample({"argv": argv_of(v, files, "<workdir>"), "model": exp, "real": r["kind"], "real_cfg": r.get("cfg")})
        return {"cli_vectors": len(vectors), "cli_distinct_requests": len(distinct), "cli_boundary_vectors": len(boundary_vectors()),
                "cli_disagreements": len(todo)}
    finally:
        shutil.rmtree(workdir, ignore_errors=True)
