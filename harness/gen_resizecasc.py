"""2x IFM upscaling inside a cascade (round 6, seeded change C10-r6m1).

RESIZE_BILINEAR / RESIZE_NEAREST_NEIGHBOR by 2 is lowered to an average pool (or a chain of them) that reads its IFM with
nearest 2x upscaling.  The hardware upscales the IFM box of a stripe from the box's first row, so a stripe of such an
operator must start on an even OFM row; the scheduler makes the minimal stripe height "the consumer's vertical stride, made
even".  Only a consumer with an ODD stride > 1 (3) distinguishes that from "max(stride, 2)", and only when producer and
consumer sit in ONE cascade whose stripes keep the minimal height (`--optimise Size`, small arena cache).

    resize_cascade(rng, idx, v)  pattern family (netgen.PATTERNS):  [conv3x3 ->] resize 2x -> conv / depthwise / pool with
                                 stride {3, 2, 1} [-> conv], IFM height with every residue mod 6, both resize kinds,
                                 align_corners / half_pixel_centers variants
    c10_net(rng, idx)            the same family drawn at random (C10 profile `c10_resize_stride`)
"""
from netgen import B

STRIDES = [3, 2, 1, 3]
RESIZE = [("RESIZE_BILINEAR", False, False), ("RESIZE_NEAREST_NEIGHBOR", False, False), ("RESIZE_BILINEAR", False, True),
          ("RESIZE_NEAREST_NEIGHBOR", False, True), ("RESIZE_BILINEAR", True, False), ("RESIZE_NEAREST_NEIGHBOR", True, False)]
CONSUMERS = ["conv3", "pool", "dw3", "conv5", "conv1", "conv2"]
HEAD = ["conv", "conv", "none", "conv1"]
TAIL = ["conv1", "none", "conv3", "conv1"]


def build(rng, idx, s, rz, cons, head, tail, h, w, c, dtype, pad):
    b = B(rng, f"pat{idx}_resize_cascade", dtype)
    kind, align, half = rz
    b.net.desc.append(f"pattern=resize_cascade in={[1, h, w, c]} head={head} resize={kind} align={align} half={half} consumer={cons} "
                      f"stride={s} padding={pad} tail={tail} dtype={dtype}")
    x = b.input([1, h, w, c])
    cur = x
    if head != "none":
        k = (3, 3) if head == "conv" else (1, 1)
        cur = b.conv(cur, c, k, (1, 1), (1, 1), "SAME", act=rng.choice([0, 1]))
    cur = b.resize(cur, 2, kind, align, half)
    if cons.startswith("conv"):
        k = int(cons[4:])
        new = b.conv(cur, c, (k, k), (s, s), (1, 1), pad)
    elif cons == "dw3":
        new = b.dwconv(cur, (3, 3), (s, s), (1, 1), pad)
    else:
        k = max(s, rng.choice([2, 3]))
        new = b.pool(cur, rng.choice(["MAX_POOL_2D", "AVERAGE_POOL_2D"]), (k, k), (s, s), pad)
    cur = new if new is not None else cur
    if tail != "none":
        k = (1, 1) if tail == "conv1" else (3, 3)
        new = b.conv(cur, c, k, (1, 1), (1, 1), "SAME")
        cur = new if new is not None else cur
    return b.finish([cur])


def resize_cascade(rng, idx, variant=None):
    v = variant if variant is not None else rng.randrange(1 << 16)
    # mixed radix walk: stride fastest (every second instance has stride 3), then the resize kind, consumer, height residue
    s = STRIDES[v % 4]
    rz = RESIZE[(v // 4 + v) % 6]
    cons = CONSUMERS[(v // 2) % 6]
    head = HEAD[(v // 3) % 4]
    tail = TAIL[(v // 5) % 4]
    h = 12 + (v + v // 6) % 6 + 6 * rng.randrange(2)          # 12..23: 2h = every even, 2h-1 (align_corners) every odd residue mod 6
    w = rng.choice([16, 24, 24, 32])
    c = rng.choice([8, 16, 16, 32])
    dtype = rng.choice(["int8", "int8", "uint8"])
    pad = rng.choice(["SAME", "SAME", "VALID"])
    return build(rng, idx, s, rz, cons, head, tail, h, w, c, dtype, pad)


def c10_net(rng, idx):
    return resize_cascade(rng, idx, None)


def c01_net(rng, idx, make_builder):
    """C01 profile `resizecasc`: the same family on maps small enough for the Lean executor (12..34 rows of 4..8 pixels after
    the resize), sub-kinds walked by the index like the sweep does"""
    import netgen

    v = idx
    s = STRIDES[v % 4]
    rz = RESIZE[(v // 4 + v) % 6]
    cons = CONSUMERS[(v // 2) % 6]
    head = HEAD[(v // 3) % 4]
    tail = TAIL[(v // 5) % 4]
    h = 6 + (v + v // 6) % 6 + 6 * rng.randrange(2)
    w, c = rng.choice([2, 3, 4]), rng.choice([4, 8, 16])
    dtype = rng.choice(["int8", "int8", "uint8"])
    pad = rng.choice(["SAME", "SAME", "VALID"])
    kind, align, half = rz
    if align and kind == "RESIZE_NEAREST_NEIGHBOR" and c > 1:
        align = False               # crash recorded under C13 (same exclusion as the profile `approx` of check_C01)
    b = make_builder(rng, f"c01_resizecasc_{idx}", dtype)
    b.net.desc.append(f"profile=resizecasc in={[1, h, w, c]} head={head} resize={kind} align={align} half={half} consumer={cons} "
                      f"stride={s} padding={pad} tail={tail} dtype={dtype}")
    x = b.input([1, h, w, c])
    cur = x
    if head != "none":
        cur = b.conv(cur, c, (3, 3) if head == "conv" else (1, 1), (1, 1), (1, 1), "SAME")
    cur = b.resize(cur, 2, kind, align, half)
    if cons.startswith("conv"):
        k = int(cons[4:])
        new = b.conv(cur, c, (k, k), (s, s), (1, 1), pad)
    elif cons == "dw3":
        new = b.dwconv(cur, (3, 3), (s, s), (1, 1), pad)
    else:
        k = max(s, 2)
        new = b.pool(cur, "MAX_POOL_2D", (k, k), (s, s), pad)
    cur = new if new is not None else cur
    if tail != "none":
        new = b.conv(cur, c, (1, 1) if tail == "conv1" else (3, 3), (1, 1), (1, 1), "SAME")
        cur = new if new is not None else cur
    return b.finish([cur])


def c01_opts(rng):
    opts = ["--accelerator-config", rng.choice(["ethos-u55-128", "ethos-u55-64", "ethos-u55-32", "ethos-u55-256", "ethos-u65-256"]), "--optimise", "Size"]
    if rng.random() < 0.5:
        opts += ["--arena-cache-size", str(rng.choice([1024, 2048, 4096]))]
    return opts
